"""C09 — code generation is deterministic and history independent.  Rules R9.1 .. R9.3 (DESIGN.md §3/C09)."""

from __future__ import annotations

import ast

from sa.core import AnalysisError, Report, loc, norm_src, enclosing_function
from sa.paths import calls_in, call_name, dotted

SCOPE_EXCLUDE = ("utils.py", "textimage.py", "special/", "_version.py", "fpu.py", "generalized_hypergeometric_functions.py")

# Iterations over sets that were read and found order-insensitive, keyed by (file, function, normalised iter expr).
# One line of reason each; anything not listed and not provably insensitive is a violation.
R91_EXEMPT = {}

# class-level mutables that were read and found harmless, with the reason
R92_EXEMPT = {
    ("algorithms.py", "definition", "_registry"): "decorator registry: filled while the defining modules are imported (module-level @definition applications), never during tracing",
}

SINK_CALLS = {
    "Expr", "make_symbol", "make_constant", "make_apply", "make_list", "symbol", "constant", "reference", "_register_reference",
    "Type", "fromobject",
}
MUTATORS = {"append", "extend", "insert", "add", "update", "setdefault", "pop", "popitem", "clear", "remove", "discard", "__setitem__"}


def in_scope(rel):
    return not any(rel == x or rel.startswith(x) for x in SCOPE_EXCLUDE)


# --------------------------------------------------------------------------- set-type inference


def _is_set_expr(n, setnames, setattrs, dictsets):
    if isinstance(n, (ast.Set, ast.SetComp)):
        return True
    if isinstance(n, ast.Call):
        fn = dotted(n.func) or ""
        if fn in ("set", "frozenset"):
            return True
        if isinstance(n.func, ast.Attribute):
            if n.func.attr in ("union", "intersection", "difference", "symmetric_difference", "copy") and _is_set_expr(n.func.value, setnames, setattrs, dictsets):
                return True
            if n.func.attr == "get" and _is_dictset_expr(n.func.value, dictsets):
                return True
    if isinstance(n, ast.BinOp) and isinstance(n.op, (ast.BitOr, ast.BitAnd, ast.Sub, ast.BitXor)):
        return _is_set_expr(n.left, setnames, setattrs, dictsets) or _is_set_expr(n.right, setnames, setattrs, dictsets)
    if isinstance(n, ast.Name):
        return n.id in setnames
    if isinstance(n, ast.Attribute):
        return n.attr in setattrs
    if isinstance(n, ast.Subscript):
        if _is_dictset_expr(n.value, dictsets):
            return True
        # parameters["using"]
        if isinstance(n.slice, ast.Constant) and isinstance(n.slice.value, str) and ("slot", n.slice.value) in setattrs:
            return True
    return False


def _is_dictset_expr(n, dictsets):
    if isinstance(n, ast.Name):
        return n.id in dictsets
    if isinstance(n, ast.Call) and isinstance(n.func, ast.Attribute) and n.func.attr == "get" and n.args:
        a = n.args[0]
        if isinstance(a, ast.Constant) and ("slot", a.value) in dictsets:
            return True
    if isinstance(n, ast.Subscript) and isinstance(n.slice, ast.Constant) and ("slot", n.slice.value) in dictsets:
        return True
    return False


def infer(repo, files):
    """Package-wide facts: attribute names / parameter slots that hold sets or dicts of sets; per function local names."""
    setattrs, dictsets_global = set(), set()
    changed = True
    per_func = {}
    # iterate to a fixpoint (two rounds suffice for the shapes in the package)
    for _ in range(3):
        for rel in files:
            for f in [n for n in ast.walk(repo.tree(rel)) if isinstance(n, (ast.FunctionDef, ast.AsyncFunctionDef))]:
                setnames = set()
                dictsets = set(dictsets_global)
                for _ in range(2):
                    for st in ast.walk(f):
                        if isinstance(st, ast.Assign):
                            val = st.value
                            tgts = st.targets
                            if _is_set_expr(val, setnames, setattrs, dictsets):
                                for t in tgts:
                                    if isinstance(t, ast.Name):
                                        setnames.add(t.id)
                                    elif isinstance(t, ast.Attribute):
                                        setattrs.add(t.attr)
                                    elif isinstance(t, ast.Subscript):
                                        base = t.value
                                        if isinstance(t.slice, ast.Constant) and isinstance(t.slice.value, str):
                                            setattrs.add(("slot", t.slice.value))
                                        if isinstance(base, ast.Name):
                                            dictsets.add(base.id)
                                            # where did base come from?  self.parameters.get("name") / self.parameters["name"]
                                            for st2 in ast.walk(f):
                                                if isinstance(st2, ast.Assign) and any(isinstance(t2, ast.Name) and t2.id == base.id for t2 in st2.targets):
                                                    for c in [st2.value] + list(st2.targets):
                                                        if isinstance(c, ast.Call) and isinstance(c.func, ast.Attribute) and c.func.attr == "get" and c.args and isinstance(c.args[0], ast.Constant):
                                                            dictsets_global.add(("slot", c.args[0].value))
                                                        if isinstance(c, ast.Subscript) and isinstance(c.slice, ast.Constant):
                                                            dictsets_global.add(("slot", c.slice.value))
                            if _is_dictset_expr(val, dictsets):
                                for t in tgts:
                                    if isinstance(t, ast.Name):
                                        dictsets.add(t.id)
                per_func[(rel, id(f))] = (setnames, dictsets)
    return setattrs, dictsets_global, per_func


ORDER_FREE_CALLS = {"sorted", "len", "any", "all", "min", "max", "set", "frozenset", "bool", "isinstance"}
ORDER_CALLS = {"list", "tuple", "enumerate", "zip", "map", "iter", "next", "sum", "reversed", "filter"}


def _body_insensitive(body, setnames, setattrs, dictsets):
    for st in body:
        if isinstance(st, (ast.Pass, ast.Continue, ast.Assert)):
            continue
        if isinstance(st, ast.If):
            if _body_insensitive(st.body, setnames, setattrs, dictsets) and _body_insensitive(st.orelse, setnames, setattrs, dictsets):
                continue
            return False
        if isinstance(st, ast.Expr) and isinstance(st.value, ast.Call) and isinstance(st.value.func, ast.Attribute):
            if st.value.func.attr in ("add", "discard", "update") and _is_set_expr(st.value.func.value, setnames, setattrs, dictsets):
                continue
        if isinstance(st, ast.AugAssign) and isinstance(st.op, ast.Add) and isinstance(st.value, ast.Constant) and isinstance(st.value.value, int):
            continue
        return False
    return True


def parameter_writes(repo, rel):
    """statements in `rel` that write into a `<obj>.parameters` mapping (the caller-visible configuration of a Context)"""
    out = []
    for n in ast.walk(repo.tree(rel)):
        if isinstance(n, ast.Subscript) and isinstance(n.ctx, (ast.Store, ast.Del)) and (dotted(n.value) or "").endswith(".parameters"):
            out.append(n)
        elif isinstance(n, ast.Call) and isinstance(n.func, ast.Attribute) and n.func.attr in ("setdefault", "update", "pop", "popitem", "clear", "__setitem__") \
                and (dotted(n.func.value) or "").endswith(".parameters"):
            out.append(n)
    return out


def process_dependent_text(tree):
    """Calls of the builtins id() / hash() whose value can reach text: inside an f-string, str()/repr()/format()/hex()/oct()/bin(),
    a %-format or str.format / str.join argument, directly or through a local the value is assigned to (arithmetic and masking on
    the way do not help: `hash(s) & 0xFFFFFFFF` is as process dependent as hash(s)).  hash() of a str/bytes/tuple-of-those depends
    on PYTHONHASHSEED, id() on the allocator: neither may become part of a generated name.  Returns [(call, sink, function)]."""
    out = []
    TEXT = {"str", "repr", "format", "hex", "oct", "bin", "ascii"}

    def sinks_of(node, stop):
        """text-forming ancestors of node below `stop`"""
        n = node
        res = []
        while n is not None and n is not stop:
            par = getattr(n, "_parent", None)
            if isinstance(par, (ast.FormattedValue, ast.JoinedStr)):
                res.append(par)
            elif isinstance(par, ast.Call) and n in par.args + [k.value for k in par.keywords]:
                fn = dotted(par.func) or ""
                if fn in TEXT or (isinstance(par.func, ast.Attribute) and par.func.attr in ("format", "join")):
                    res.append(par)
            elif isinstance(par, ast.BinOp) and isinstance(par.op, ast.Mod) and n is par.right and isinstance(par.left, (ast.Constant, ast.JoinedStr)) \
                    and (isinstance(par.left, ast.JoinedStr) or isinstance(par.left.value, str)):
                res.append(par)
            n = par
        return res

    for fdef in ast.walk(tree):
        if not isinstance(fdef, (ast.FunctionDef, ast.AsyncFunctionDef)) or fdef.name in ("__hash__", "__eq__", "__ne__"):
            continue
        for c in ast.walk(fdef):
            if not (isinstance(c, ast.Call) and isinstance(c.func, ast.Name) and c.func.id in ("id", "hash")):
                continue
            owner = c
            while owner is not None and not isinstance(owner, (ast.FunctionDef, ast.AsyncFunctionDef, ast.Lambda)):
                owner = getattr(owner, "_parent", None)
            if owner is not fdef:
                continue
            for sk in sinks_of(c, fdef):
                out.append((c, sk, fdef))
            # through a local
            st = c
            while st is not None and not isinstance(st, ast.stmt):
                st = getattr(st, "_parent", None)
            tainted = set()
            if isinstance(st, (ast.Assign, ast.AnnAssign, ast.AugAssign)):
                tg = st.targets if isinstance(st, ast.Assign) else [st.target]
                tainted = {t.id for t in tg if isinstance(t, ast.Name)}
            for _ in range(3):
                more = set()
                for st2 in ast.walk(fdef):
                    if isinstance(st2, ast.Assign) and any(isinstance(x, ast.Name) and x.id in tainted for x in ast.walk(st2.value)):
                        more |= {t.id for t in st2.targets if isinstance(t, ast.Name)}
                if more <= tainted:
                    break
                tainted |= more
            for use in ast.walk(fdef):
                if isinstance(use, ast.Name) and isinstance(use.ctx, ast.Load) and use.id in tainted:
                    for sk in sinks_of(use, fdef):
                        out.append((c, sk, fdef))
    return out


def run(repo, tier):
    r = Report("C09", tier, repo, level="other", design_ref="§3/C09")
    r.explanation = (
        "Static search for the two mechanisms that make generated text depend on the hash seed or on process history: "
        "(R9.1) iteration over set-typed values (inferred by a package-wide set/dict-of-set type inference) whose order can "
        "reach expression construction or text; (R9.2) module-level, class-level or default-argument mutable objects that are "
        "mutated at run time and flow (def-use) into expression constructors, reference names or printer output; (R9.3) "
        "orderings decided by id()/hash(). Decides absence of these constructs, not equality of generated text."
    )
    r.trusted_base = ["Python ast", "set/dict-of-set inference is local and syntactic (sources: literals, set(), comprehensions, parameters[...] slots)"]
    r.assumptions = ["dict iteration order is insertion order (Python >= 3.7)", "a fresh Context is used per generation request"]
    r.rule("R9.1", "no iteration / arbitrary pick over a set-typed value unless sorted or order-insensitive", floor=1)
    r.rule("R9.2", "no run-time mutated process-global object flows into expression constructors, reference names or emitted text", floor=2)
    r.rule("R9.3", "no ordering or sort key is computed from id() or hash()", floor=1)
    r.rule("R9.8", "the value of the builtins id() / hash() never reaches text (f-string, str/format/hex, %-format, join), directly or through locals", floor=1)
    r.rule("R9.5", "containers cached in the caller's parameters mapping are keyed context-uniquely (Type.__eq__ compares the context by identity; operation keys are not built from per-context counters)", floor=3)
    r.rule("R9.6", "names generated from the raw bytes of a numpy scalar use only the value-carrying bytes (no padding of unspecified content)", floor=1)
    r.rule("R9.7", "no one-shot iterator (map/zip/filter/iter/generator expression/itertools.*) bound at module or class level is traversed inside a function", floor=1)
    r.rule("R9.4", "memoisation (lru_cache/cache) of a function that dispatches on the type of its argument is typed", floor=2)

    files = [f for f in repo.py_files() if in_scope(f)]
    if len(files) < 15:
        raise AnalysisError(f"only {len(files)} files in scope")
    setattrs, dictsets_global, per_func = infer(repo, files)
    r.info("R9.1", f"set-typed attributes/slots inferred: {sorted(map(str, setattrs))}; dict-of-set slots: {sorted(map(str, dictsets_global))}")

    n_sites = 0
    for rel in files:
        tree = repo.tree(rel)
        for f in [n for n in ast.walk(tree) if isinstance(n, (ast.FunctionDef, ast.AsyncFunctionDef))]:
            setnames, dictsets = per_func[(rel, id(f))]
            isset = lambda n: _is_set_expr(n, setnames, setattrs, dictsets)  # noqa
            for n in ast.walk(f):
                site = None
                if isinstance(n, (ast.For, ast.AsyncFor)) and isset(n.iter):
                    if _body_insensitive(n.body, setnames, setattrs, dictsets):
                        r.ob("R9.1", f"{rel}::{enclosing_function(n) or f.name} for over `{norm_src(n.iter)}` (order-insensitive body)", True, "", loc(rel, n))
                        n_sites += 1
                        continue
                    site = (n.iter, "for loop")
                elif isinstance(n, ast.comprehension) and isset(n.iter):
                    par = getattr(n, "_parent", None)
                    # a set comprehension / any()/all()/sorted() consumer is order free
                    gp = getattr(par, "_parent", None)
                    if isinstance(par, ast.SetComp) or (isinstance(gp, ast.Call) and (dotted(gp.func) or "") in ORDER_FREE_CALLS):
                        r.ob("R9.1", f"{rel}::{enclosing_function(par) or f.name} comprehension over `{norm_src(n.iter)}` (order-free consumer)", True, "", loc(rel, par))
                        n_sites += 1
                        continue
                    site = (n.iter, "comprehension")
                elif isinstance(n, ast.Call):
                    fn = dotted(n.func) or ""
                    last = fn.split(".")[-1]
                    if (fn in ORDER_CALLS or last == "join") and n.args and isset(n.args[-1] if last == "join" else n.args[0]):
                        site = (n.args[-1] if last == "join" else n.args[0], f"{fn}(...)")
                    elif isinstance(n.func, ast.Attribute) and n.func.attr == "pop" and not n.args and isset(n.func.value):
                        # arbitrary pick; fine when the set is known to be a singleton (len(x) == 1 guard)
                        guard = _singleton_guard(n, norm_src(n.func.value))
                        r.ob("R9.1", f"{rel}::{enclosing_function(n) or f.name} `{norm_src(n)}`", guard,
                             "set.pop() picks a hash-order dependent element and no `len(...) == 1` guard dominates it", loc(rel, n))
                        n_sites += 1
                        continue
                if site is None:
                    continue
                n_sites += 1
                it, how = site
                key = (rel, enclosing_function(n) or f.name, norm_src(it))
                exempt = R91_EXEMPT.get(key)
                r.ob(
                    "R9.1",
                    f"{rel}::{key[1]} {how} over `{key[2]}`",
                    exempt is not None,
                    f"iterates a set-typed value in hash order ({how}); the order depends on PYTHONHASHSEED when elements contain strings "
                    "and the loop body is not order-insensitive",
                    loc(rel, n),
                )
    if n_sites == 0:
        raise AnalysisError("R9.1 found no set-typed iteration site at all; inference is broken")

    # ------------------------------------------------------------------ R9.2
    n_src = 0
    for rel in files:
        tree = repo.tree(rel)
        # (1) mutable default arguments
        for f in [n for n in ast.walk(tree) if isinstance(n, (ast.FunctionDef, ast.AsyncFunctionDef))]:
            args = f.args
            pos = args.posonlyargs + args.args
            defaults = list(zip(pos[len(pos) - len(args.defaults):], args.defaults)) + [
                (a, d) for a, d in zip(args.kwonlyargs, args.kw_defaults) if d is not None
            ]
            for a, d in defaults:
                if isinstance(d, (ast.List, ast.Dict, ast.Set)) or (isinstance(d, ast.Call) and (dotted(d.func) or "") in ("list", "dict", "set", "defaultdict", "collections.defaultdict")):
                    n_src += 1
                    mutated = _mutated_in(f, a.arg)
                    escapes = _stored_on_self(f, a.arg)
                    flows = _flows_to_sink(f, {a.arg}) if mutated else False
                    key = f"{rel}::{enclosing_function(f) + '.' if enclosing_function(f) else ''}{f.name} default `{a.arg}={norm_src(d)}`"
                    r.ob("R9.2", key, not (mutated and flows),
                         f"the default object of `{a.arg}` is shared by all calls in the process, is mutated in the function and flows into "
                         "an expression/name constructor: results depend on how often the function was called before", loc(rel, f))
                    if escapes:
                        # the shared default object lives on as an attribute: any mutation of that attribute anywhere in the package is a
                        # mutation of the one object every instance created without the argument holds
                        attrs = {t.attr for n in ast.walk(f) if isinstance(n, ast.Assign) and isinstance(n.value, ast.Name) and n.value.id == a.arg
                                 for t in n.targets if isinstance(t, ast.Attribute)}
                        sites = []
                        for rel2 in files:
                            for n2 in ast.walk(repo.tree(rel2)):
                                tgt = None
                                if isinstance(n2, (ast.Assign, ast.AugAssign)):
                                    for t in (n2.targets if isinstance(n2, ast.Assign) else [n2.target]):
                                        if isinstance(t, ast.Subscript) and isinstance(t.value, ast.Attribute) and t.value.attr in attrs:
                                            tgt = t.value
                                elif isinstance(n2, ast.Call) and isinstance(n2.func, ast.Attribute) and n2.func.attr in MUTATORS \
                                        and isinstance(n2.func.value, ast.Attribute) and n2.func.value.attr in attrs:
                                    tgt = n2.func.value
                                if tgt is not None:
                                    sites.append(f"{rel2}:{n2.lineno} `{norm_src(n2)[:70]}`")
                        r.ob("R9.2", key + f" kept as .{'/.'.join(sorted(attrs))}", not sites,
                             f"the default object of `{a.arg}` is shared by every instance created without that argument, it is kept as the attribute "
                             f".{'/.'.join(sorted(attrs))} and that attribute is mutated at {'; '.join(sites[:3])}{' ...' if len(sites) > 3 else ''}: what one instance "
                             "records (caches, options) is seen by every later one, so generated text depends on the history of the process", loc(rel, f))
        # (2) module-level mutable objects mutated inside functions
        mod_mut = {}
        for st in tree.body:
            if isinstance(st, ast.Assign) and len(st.targets) == 1 and isinstance(st.targets[0], ast.Name):
                v = st.value
                if isinstance(v, (ast.List, ast.Dict, ast.Set)) or (isinstance(v, ast.Call) and (dotted(v.func) or "").split(".")[-1] in ("list", "dict", "set", "defaultdict", "OrderedDict", "Counter")):
                    mod_mut[st.targets[0].id] = st
        for name, st in mod_mut.items():
            for f in [n for n in ast.walk(tree) if isinstance(n, (ast.FunctionDef, ast.AsyncFunctionDef))]:
                if name in {a.arg for a in f.args.args + f.args.kwonlyargs}:
                    continue
                if _mutated_in(f, name):
                    n_src += 1
                    # any function of the module reading it with a flow into a sink
                    bad = [g.name for g in ast.walk(tree) if isinstance(g, ast.FunctionDef) and _flows_to_sink(g, {name})]
                    r.ob("R9.2", f"{rel} module-level `{name}` mutated in {f.name}", not bad,
                         f"module-level mutable `{name}` is mutated at run time and read by {bad} on the way to an expression/name constructor", loc(rel, st))
        # (3) class-level mutable attributes (shared by all instances)
        for cls in [n for n in ast.walk(tree) if isinstance(n, ast.ClassDef)]:
            for st in cls.body:
                if not (isinstance(st, ast.Assign) and len(st.targets) == 1 and isinstance(st.targets[0], ast.Name)):
                    continue
                v = st.value
                mutable = isinstance(v, (ast.List, ast.Dict, ast.Set)) or (
                    isinstance(v, ast.Call) and (dotted(v.func) or "").split(".")[-1] in ("list", "dict", "set", "defaultdict", "OrderedDict", "Counter", "deque"))
                if not mutable:
                    continue
                nm = st.targets[0].id
                writers = [m.name for m in ast.walk(cls) if isinstance(m, ast.FunctionDef) and _attr_mutated_in(m, nm)]
                # re-initialised per instance?  (self.<nm> = ... in __init__ shadows the class attribute)
                init = next((m for m in cls.body if isinstance(m, ast.FunctionDef) and m.name == "__init__"), None)
                shadowed = init is not None and any(isinstance(x, ast.Attribute) and isinstance(x.ctx, ast.Store) and x.attr == nm and dotted(x.value) == "self" for x in ast.walk(init))
                if not writers or shadowed:
                    continue
                n_src += 1
                # does the shared object influence instance state / names?  (stored on self, formatted into a string, or passed to a constructor)
                users = []
                for m in [x for x in ast.walk(cls) if isinstance(x, ast.FunctionDef)]:
                    for x in ast.walk(m):
                        if isinstance(x, ast.Assign) and any(isinstance(t, ast.Attribute) for t in x.targets) and any(isinstance(y, ast.Attribute) and y.attr == nm for y in ast.walk(x.value)):
                            users.append(m.name)
                        if isinstance(x, ast.JoinedStr) and any(isinstance(y, ast.Attribute) and y.attr == nm for y in ast.walk(x)):
                            users.append(m.name)
                    if _flows_to_sink(m, set(), attr=nm):
                        users.append(m.name)
                key = f"{rel}::{cls.name}.{nm} class-level mutable (written by {sorted(set(writers))})"
                exempt = R92_EXEMPT.get((rel, cls.name, nm))
                ok = not users or exempt is not None
                r.ob("R9.2", key, ok,
                     f"class-level `{nm}` is one object shared by every instance in the process; it is mutated by {sorted(set(writers))} and feeds instance state or names in "
                     f"{sorted(set(users))}: what one context does changes what a later, fresh context generates", loc(rel, st))
                if exempt is not None and users:
                    r.info("R9.2", f"{key}: exempt — {exempt}")
    if n_src < 2:
        raise AnalysisError(f"R9.2 recognised only {n_src} process-global mutable sources; expected at least Context.__init__(paths=[]) and definition._registry")

    # ------------------------------------------------------------------ R9.4 memoised functions are process-global state
    n94 = 0
    for rel in repo.py_files():
        if rel.startswith("special/") or rel in ("textimage.py", "_version.py"):
            continue
        for f in [n for n in ast.walk(repo.tree(rel)) if isinstance(n, ast.FunctionDef)]:
            for d in f.decorator_list:
                nm = dotted(d.func) if isinstance(d, ast.Call) else dotted(d)
                if not nm or nm.split(".")[-1] not in ("lru_cache", "cache"):
                    continue
                n94 += 1
                typed = isinstance(d, ast.Call) and any(kw.arg == "typed" and isinstance(kw.value, ast.Constant) and kw.value.value is True for kw in d.keywords)
                params = {a.arg for a in f.args.args}
                type_dispatch = False
                for c in ast.walk(f):
                    if isinstance(c, ast.Call) and dotted(c.func) in ("isinstance", "type") and c.args and isinstance(c.args[0], ast.Name) and c.args[0].id in params:
                        type_dispatch = True
                ok = typed or not type_dispatch
                r.ob("R9.4", f"{rel}::{f.name} memoised with `{norm_src(d)}`", ok,
                     f"`{f.name}` branches on the type of its argument but its cache is not typed: arguments that compare equal (0.5 and numpy.float32(0.5), "
                     "0.0 and -0.0, 1.0 and True) share one cache entry, so the result depends on which of them was seen first in the process", loc(rel, f))
    if n94 < 2:
        raise AnalysisError(f"R9.4 found only {n94} memoised functions; expected the lru_cache'd parameter functions of floating_point_algorithms.py")

    # ------------------------------------------------------------------ R9.3
    n93 = 0
    for rel in files:
        for n in ast.walk(repo.tree(rel)):
            if isinstance(n, ast.Compare) and any(isinstance(o, (ast.Lt, ast.LtE, ast.Gt, ast.GtE)) for o in n.ops):
                sides = [n.left] + n.comparators
                keys = [s for s in sides if isinstance(s, ast.Attribute) and s.attr in ("key", "intkey")]
                idh = [s for s in sides for c in calls_in(s) if (dotted(c.func) or "") in ("id", "hash")]
                if keys or idh:
                    n93 += 1
                    r.ob("R9.3", f"{rel}::{enclosing_function(n)} ordering `{norm_src(n)}`", not idh,
                         "operand order is decided by id()/hash(), which differ between processes", loc(rel, n))
            if isinstance(n, ast.Call) and (dotted(n.func) or "").split(".")[-1] in ("sorted", "sort", "min", "max"):
                for kw in n.keywords:
                    if kw.arg == "key":
                        bad = (dotted(kw.value) or "") in ("id", "hash") or any((dotted(c.func) or "") in ("id", "hash") for c in calls_in(kw.value))
                        n93 += 1
                        r.ob("R9.3", f"{rel}::{enclosing_function(n)} sort key `{norm_src(kw.value)}`", not bad, "sort key is id()/hash()", loc(rel, n))
    if n93 == 0:
        raise AnalysisError("R9.3 found no ordering site; the `x.key > y.key` anchors vanished")

    # ------------------------------------------------------------------ R9.8 id()/hash() values in text
    n98 = 0
    for rel in files:
        seen98 = set()
        for c, sk, fdef in process_dependent_text(repo.tree(rel)):
            k98 = (c.lineno, c.col_offset)
            if k98 in seen98:
                continue
            seen98.add(k98)
            n98 += 1
            r.ob("R9.8", f"{rel}::{fdef.name} `{norm_src(c)}` reaches text", False,
                 f"the value of `{norm_src(c)}` is formatted into a string (`{norm_src(sk)[:120]}`): hash() of strings depends on PYTHONHASHSEED and id() on the allocator, "
                 "so a name or text built from it differs between processes", loc(rel, c))
    probe = ast.parse("def make(ref, kind):\n    if len(ref) > 50:\n        ref = f'{kind}_{hash(ref) & 0xFFFFFFFF:08x}'\n    h = id(ref) % 1000\n    return ref + '_' + str(h)\n")
    for par_ in ast.walk(probe):
        for ch_ in ast.iter_child_nodes(par_):
            ch_._parent = par_
    if len({(c.lineno, c.col_offset) for c, _, _ in process_dependent_text(probe)}) != 2:
        raise AnalysisError("R9.8 self-check failed: the detector does not see hash()/id() flowing into text in the built-in example")
    r.ob("R9.8", "no id()/hash() value is formatted into text (detector self-check passed)", True, "", loc("expr.py", repo.tree("expr.py")))
    # ------------------------------------------------------------------ R9.5 caches inside the caller's parameters mapping
    # `Context.parameters` is the caller's object (kept when non-empty): containers stored into it outlive the context and are seen
    # by every later context that is given the same mapping.  They are keyed by expression keys; those bottom out in symbol keys
    # ("symbol", name, Type), so entries of different contexts stay apart only because types of different contexts never compare
    # equal.  Rule: as long as such caches exist, Type.__eq__ compares the context by identity (or the cache key carries it).
    caches = []
    for rel in ("context.py",):
        for n in ast.walk(repo.tree(rel)):
            if isinstance(n, ast.Assign):
                for t in n.targets:
                    if isinstance(t, ast.Subscript) and (dotted(t.value) or "").endswith(".parameters") and isinstance(t.slice, ast.Constant) \
                            and (isinstance(n.value, (ast.Dict, ast.Set, ast.List)) or (isinstance(n.value, ast.Call) and dotted(n.value.func) in ("dict", "set", "list", "collections.defaultdict", "defaultdict"))):
                        # a container (re)created in __init__ is fresh for every context
                        if not str(enclosing_function(n)).endswith("__init__"):
                            caches.append((rel, n, t.slice.value))
    te = repo.func("typesystem.py", "Type.__eq__")
    by_identity = any(
        isinstance(c, ast.Compare) and len(c.ops) == 1 and isinstance(c.ops[0], ast.Is)
        and {dotted(c.left), dotted(c.comparators[0])} == {f"{te.args.args[0].arg}.context", f"{te.args.args[1].arg}.context"}
        for c in ast.walk(te)
    )
    for rel, n, name in caches:
        # is the cache key made context-unique by other means?  (a key that mentions the context object or its id)
        f_ = enclosing_function(n)
        r.ob("R9.5", f"{rel}::{f_} cache `{name}` kept in the caller's parameters mapping", by_identity,
             f"`{norm_src(n)}` stores a container in the caller's parameters mapping, which later contexts given the same mapping see; its "
             "entries are keyed by expression keys, and Type.__eq__ no longer compares the context by identity, so the key of `x: T` in one "
             "context equals the key of `x: T` in another: same-dtype facts and dtype-index expressions of an earlier trace leak into a later "
             "one and the emitted text depends on what was generated before", loc(rel, n))
    if len(caches) < 2:
        raise AnalysisError(f"R9.5: only {len(caches)} parameter-mapping caches recognised in context.py (expected dtype_index_cache, same_dtype_cache)")
    # ... and the keys themselves: the key of an *operation* is (kind, two-level keys of its operands).  If those are built from
    # `intkey` - a per-context construction counter - two contexts that share a parameters mapping produce equal keys for unrelated
    # expressions, whatever Type.__eq__ does for symbols.
    cs_ = repo.func("expr.py", "Expr._compute_serialized")
    tl_ = repo.func("expr.py", "Expr._two_level_intkey")
    uses_tl = any(isinstance(x, ast.Attribute) and x.attr == "_two_level_intkey" for x in ast.walk(cs_))
    counter_based = any(isinstance(x, ast.Attribute) and x.attr == "intkey" for x in ast.walk(tl_))
    has_ctx = any(isinstance(x, ast.Attribute) and x.attr == "context" for fn_ in (cs_, tl_) for x in ast.walk(fn_))
    r.ob("R9.5", "expr.py::Expr.key of an operation is unique across the contexts that may share a parameters mapping", not (uses_tl and counter_based) or has_ctx,
         "the caches kept in the caller's parameters mapping are keyed by `expr.key`; for an operation that is (kind, operand intkeys), and intkey is a per-context "
         "construction counter: a later Context given the same mapping finds entries of an earlier one under the keys of its own, unrelated expressions", loc("expr.py", tl_))

    # the parameters mapping is configuration: outside Context itself nothing writes to it (a default written while one function is
    # traced is read by the next function traced on the same context, or on any context given the same mapping)
    n_pw = 0
    for rel in files:
        if rel == "context.py":
            continue
        for n in parameter_writes(repo, rel):
            n_pw += 1
            r.ob("R9.5", f"{rel}::{enclosing_function(n)} writes into the parameters mapping", False,
                 f"`{norm_src(n)[:100]}` stores a value in the context's parameters while tracing: later traces on the same context (or on any context "
                 "given the same mapping) read it, so their result depends on what was traced before", loc(rel, n))
    r.ob("R9.5", "only context.py writes into a parameters mapping", n_pw == 0, "", loc("context.py", repo.tree("context.py")))

    # ------------------------------------------------------------------ R9.7 one-shot iterators at module / class level
    # map(), zip(), filter(), iter(), reversed(), enumerate(), a generator expression and the itertools constructors return
    # iterators that are consumed by their first traversal; bound at module or class level and traversed inside a function, the
    # first call of the process sees the items and every later call sees none: behaviour depends on what ran before.
    ONE_SHOT = {"map", "zip", "filter", "iter", "reversed", "enumerate"}
    n97 = 0
    for rel in files:
        tree = repo.tree(rel)
        scopes = [(tree, "module")] + [(c, f"class {c.name}") for c in ast.walk(tree) if isinstance(c, ast.ClassDef)]
        it_mods, it_names = {"itertools"}, set()
        for imp in ast.walk(tree):
            if isinstance(imp, ast.Import):
                it_mods |= {a.asname or a.name for a in imp.names if a.name == "itertools"}
            elif isinstance(imp, ast.ImportFrom) and imp.module == "itertools":
                it_names |= {a.asname or a.name for a in imp.names}
        for scope, sname in scopes:
            for st in scope.body:
                if not (isinstance(st, ast.Assign) and len(st.targets) == 1 and isinstance(st.targets[0], ast.Name)):
                    continue
                v = st.value
                fn = dotted(v.func) if isinstance(v, ast.Call) else None
                one_shot = isinstance(v, ast.GeneratorExp) or (fn is not None and (fn in ONE_SHOT or fn in it_names or fn.split(".")[0] in it_mods and "." in fn))
                if not one_shot:
                    continue
                name = st.targets[0].id
                users = []
                for fdef in ast.walk(tree):
                    if isinstance(fdef, (ast.FunctionDef, ast.AsyncFunctionDef)):
                        for n in ast.walk(fdef):
                            if isinstance(n, (ast.For, ast.comprehension)) and any(isinstance(x, ast.Name) and x.id == name for x in ast.walk(n.iter)):
                                users.append((fdef, n))
                            elif isinstance(n, ast.Call) and dotted(n.func) in ("next", "list", "tuple", "sorted", "set", "sum", "any", "all", "max", "min") \
                                    and any(isinstance(a, ast.Name) and a.id == name for a in n.args):
                                users.append((fdef, n))
                n97 += 1
                r.ob("R9.7", f"{rel} {sname}-level one-shot iterator `{name}`", not users,
                     f"`{norm_src(st)}` binds an iterator that its first traversal exhausts, and `{users[0][0].name if users else ''}` traverses it: the first "
                     "call in a process sees the items, every later call sees an empty sequence, so what is generated depends on what was generated before",
                     loc(rel, st))
    r.info("R9.7", f"{n97} module/class-level bindings of one-shot iterators found") if hasattr(r, "info") else None
    probe = ast.parse("import itertools\n_pairs = itertools.permutations(('a', 'b'), 2)\ndef f():\n    for a, b in _pairs:\n        pass\n")
    if not any(isinstance(s_, ast.Assign) and isinstance(s_.value, ast.Call) and (dotted(s_.value.func) or "").startswith("itertools.") for s_ in probe.body):
        raise AnalysisError("R9.7 self-check failed")
    r.ob("R9.7", "no module/class-level one-shot iterator is traversed inside a function (detector self-check passed)", True, "", loc("rewrite.py", repo.tree("rewrite.py")))

    # ------------------------------------------------------------------ R9.6 raw bytes of scalars in generated names
    # The in-memory image of a numpy scalar may contain padding of unspecified content (longdouble: 6 of 16 bytes on x86-64):
    # a name built from `.tobytes()` must be cut to the value-carrying bytes, whose number follows from finfo (nexp, nmant).
    ti = repo.func("expr.py", "toidentifier")
    n_raw = 0
    for n in ast.walk(ti):
        if isinstance(n, ast.Call) and isinstance(n.func, ast.Attribute) and n.func.attr in ("tobytes", "tostring"):
            n_raw += 1
            par = getattr(n, "_parent", None)
            cut = isinstance(par, ast.Subscript) and par.value is n and isinstance(par.slice, ast.Slice) and par.slice.upper is not None and par.slice.step is None
            from_finfo = False
            if cut:
                up = par.slice.upper
                names = {x.id for x in ast.walk(up) if isinstance(x, ast.Name)}
                src = " ".join(norm_src(st.value) for st in ast.walk(ti) if isinstance(st, ast.Assign) and any(isinstance(t, ast.Name) and t.id in names for t in st.targets))
                src += " " + norm_src(up)
                from_finfo = ("nmant" in src and "nexp" in src) or "itemsize" not in src and "finfo" in src and "bits" in src
            r.ob("R9.6", "expr.py::toidentifier raw bytes of a numpy scalar are cut to the value-carrying bytes", cut and from_finfo,
                 f"`{norm_src(par if cut else n)}`: the whole in-memory image of the scalar enters the generated name; numpy.longdouble has padding "
                 "bytes of unspecified content, so the name of e.g. longdouble(0.5) differs from process to process", loc("expr.py", n))
    if n_raw < 1:
        raise AnalysisError("R9.6: toidentifier no longer encodes numpy floats through tobytes(); the rule needs to be re-anchored")
    return r


def _singleton_guard(node, settext):
    n = getattr(node, "_parent", None)
    while n is not None and not isinstance(n, ast.FunctionDef):
        if isinstance(n, ast.If):
            t = norm_src(n.test)
            if t in (f"len({settext}) == 1", f"1 == len({settext})"):
                return True
        n = getattr(n, "_parent", None)
    return False


def _mutated_in(f, name):
    for n in ast.walk(f):
        if isinstance(n, ast.Subscript) and isinstance(n.ctx, (ast.Store, ast.Del)) and dotted(n.value) == name:
            return True
        if isinstance(n, ast.AugAssign) and (dotted(n.target) == name or (isinstance(n.target, ast.Subscript) and dotted(n.target.value) == name)):
            return True
        if isinstance(n, ast.Call) and isinstance(n.func, ast.Attribute) and n.func.attr in MUTATORS and dotted(n.func.value) == name:
            return True
    return False


def _attr_mutated_in(f, attr):
    for n in ast.walk(f):
        tgt = None
        if isinstance(n, ast.Subscript) and isinstance(n.ctx, (ast.Store, ast.Del)):
            tgt = n.value
        elif isinstance(n, ast.Call) and isinstance(n.func, ast.Attribute) and n.func.attr in MUTATORS:
            tgt = n.func.value
        if isinstance(tgt, ast.Attribute) and tgt.attr == attr:
            return True
    return False


def _stored_on_self(f, name):
    for n in ast.walk(f):
        if isinstance(n, ast.Assign) and isinstance(n.value, ast.Name) and n.value.id == name:
            if any(isinstance(t, ast.Attribute) for t in n.targets):
                return True
    return False


def _flows_to_sink(f, names, attr=None):
    """Flow-insensitive taint: do values derived from `names` (or from attribute `attr`) reach a sink call / return?"""
    tainted = set(names)

    def mentions(e):
        for n in ast.walk(e):
            if isinstance(n, ast.Name) and n.id in tainted:
                return True
            if attr is not None and isinstance(n, ast.Attribute) and n.attr == attr:
                return True
        return False

    if not any(mentions(st) for st in f.body):
        return False
    for _ in range(4):
        for n in ast.walk(f):
            if isinstance(n, ast.Assign) and mentions(n.value):
                for t in n.targets:
                    for nm in ast.walk(t):
                        if isinstance(nm, ast.Name):
                            tainted.add(nm.id)
            elif isinstance(n, ast.AugAssign) and mentions(n.value) and isinstance(n.target, ast.Name):
                tainted.add(n.target.id)
    for n in ast.walk(f):
        if isinstance(n, ast.Call):
            last = (dotted(n.func) or "").split(".")[-1]
            if last in SINK_CALLS:
                for a in list(n.args) + [k.value for k in n.keywords]:
                    if mentions(a):
                        return True
    return False
