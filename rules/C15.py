"""C15 (partial) — option plumbing of the multiprecision backend.  Rules R15.1 .. R15.3."""

from __future__ import annotations

import ast

from sa.core import AnalysisError, Report, loc, norm_src, enclosing_function
from sa.paths import dotted, calls_in, call_name
from rules.C13 import check_mpmath_tables, NAMEKEY

REL = "utils.py"
SENTINEL = "UNSPECIFIED"


def _sentinel_test(test):
    """Return (name_text, True if the test is true when the value IS the sentinel) or None."""
    if isinstance(test, ast.Compare) and len(test.ops) == 1 and isinstance(test.ops[0], (ast.Is, ast.IsNot)):
        l, rr = test.left, test.comparators[0]
        if dotted(rr) == SENTINEL:
            return norm_src(l), isinstance(test.ops[0], ast.Is)
        if dotted(l) == SENTINEL:
            return norm_src(rr), isinstance(test.ops[0], ast.Is)
    return None


def _reads(node, text):
    for n in ast.walk(node):
        if isinstance(n, (ast.Name, ast.Attribute)) and isinstance(getattr(n, "ctx", None), ast.Load) and norm_src(n) == text:
            # ignore occurrences that are operands of an `is (not) UNSPECIFIED` test
            par = getattr(n, "_parent", None)
            if isinstance(par, ast.Compare) and _sentinel_test(par) is not None:
                continue
            return True
    return False


def run(repo, tier):
    r = Report("C15", tier, repo, level="other", design_ref="§3/C15")
    r.explanation = (
        "Structural clauses of C15: every resolution of the UNSPECIFIED sentinel yields the caller's value when one was given and "
        "the default otherwise; the sentinel never reaches a truth test or an attribute; the extra-precision options stored by "
        "__init__ are the ones backend_context applies and every backend evaluation happens inside that context; the format "
        "tables mpf2float reads are IEEE-correct. The rounding performed by mpf2float on values is NOT decided."
    )
    r.trusted_base = ["Python ast", "IEEE-754 parameters"]
    r.rule("R15.1", "sentinel resolution: specified -> caller's value, unspecified -> default (never the sentinel itself)", floor=2)
    r.rule("R15.7", "the numpy_with_* namespaces cache a wrapper under a key that contains the function name and the whole of self.params", floor=2)
    r.rule("R15.2", "a possibly-unspecified option never reaches a truth test before it is resolved", floor=2)
    r.rule("R15.3", "extra precision: __init__ stores the options backend_context applies; backend calls run inside backend_context", floor=5)
    r.rule("R15.5", "mpf2float's underflow/overflow results carry the sign: the negative arm is a float negative zero / negative infinity", floor=2)
    r.rule("R15.6", "mpf2float's underflow and overflow tests read the exponent and bit count of the value rounded to the target precision, on every path", floor=2)
    r.rule("R15.9", "mpf2float rounds once: the precision of the rounding step depends on how many bits the format offers at the exponent of the value (subnormal results)", floor=1)
    r.rule("R15.11", "the evaluation context of a backend call is fixed by the first float argument and not overwritten by later ones", floor=1)
    r.rule("R15.10", "mpf2float hands the raw fields of the caller's own value to the rounding step (no copy through the context, which would round to the working precision first)", floor=1)
    r.rule("R15.8", "mpf2float thresholds derived per format and flush flag from the range tests as they are (operator, table, offsets): infinity exactly from exp + bc = emax + 2, zero up to half the smallest subnormal (no flush) or exactly below the smallest normal (flush)", floor=9)
    r.rule("R15.4", "mpf2float reads IEEE-correct exponent tables; zero is returned below a threshold, infinity above one", floor=13)

    n_res = 0
    files = [f for f in repo.py_files()]
    for rel in files:
        tree = repo.tree(rel)
        for n in ast.walk(tree):
            if isinstance(n, ast.IfExp):
                st = _sentinel_test(n.test)
                if st is None:
                    continue
                n_res += 1
                name, true_when_sentinel = st
                sentinel_arm, value_arm = (n.body, n.orelse) if true_when_sentinel else (n.orelse, n.body)
                ok1 = not _reads(sentinel_arm, name)
                ok2 = _reads(value_arm, name)
                key = f"{rel}::{enclosing_function(n)} resolution of `{name}`"
                detail = ""
                if not ok1:
                    detail = f"`{norm_src(n)}`: when `{name}` is UNSPECIFIED the expression yields `{norm_src(sentinel_arm)}`, i.e. the sentinel object itself (truthy), instead of a default"
                elif not ok2:
                    detail = f"`{norm_src(n)}`: when the caller specified `{name}` the expression yields `{norm_src(value_arm)}` and discards the caller's value"
                r.ob("R15.1", key, ok1 and ok2, detail, loc(rel, n))
            elif isinstance(n, ast.If):
                st = _sentinel_test(n.test)
                if st is None:
                    continue
                name, true_when_sentinel = st
                sentinel_branch = n.body if true_when_sentinel else n.orelse
                # in the branch where the value is known to be the sentinel it must not be read as a value
                bad = None
                occ = []
                for s2 in sentinel_branch:
                    for x in ast.walk(s2):
                        if isinstance(x, (ast.Name, ast.Attribute)) and norm_src(x) == name:
                            par = getattr(x, "_parent", None)
                            if isinstance(par, ast.Compare) and _sentinel_test(par) is not None:
                                continue
                            occ.append(x)
                occ.sort(key=lambda x: (x.lineno, x.col_offset))
                if occ and isinstance(occ[0].ctx, ast.Load):
                    bad = occ[0]
                    while not isinstance(bad, ast.stmt):
                        bad = bad._parent
                n_res += 1
                r.ob("R15.1", f"{rel}::{enclosing_function(n)} branch on `{norm_src(n.test)}`", bad is None,
                     f"`{name}` is read as a value (`{norm_src(bad)[:80] if bad is not None else ''}`) in the branch where it is known to be UNSPECIFIED", loc(rel, n))
    if n_res < 8:
        raise AnalysisError(f"only {n_res} sentinel resolutions found; expected >= 8")

    # ------------------------------------------------------------------ R15.2 truth tests
    n_tt = 0
    for rel in files:
        tree = repo.tree(rel)
        for f in [x for x in ast.walk(tree) if isinstance(x, ast.FunctionDef)]:
            maybe = set()
            pos = f.args.posonlyargs + f.args.args
            for a, d in list(zip(pos[len(pos) - len(f.args.defaults):], f.args.defaults)) + [(a, d) for a, d in zip(f.args.kwonlyargs, f.args.kw_defaults) if d is not None]:
                if dotted(d) == SENTINEL:
                    maybe.add(a.arg)
            for st in ast.walk(f):
                if isinstance(st, ast.Assign) and isinstance(st.value, ast.Call) and isinstance(st.value.func, ast.Attribute) and st.value.func.attr in ("pop", "get"):
                    if len(st.value.args) == 2 and dotted(st.value.args[1]) == SENTINEL:
                        for t in st.targets:
                            if isinstance(t, ast.Name):
                                maybe.add(t.id)
            if not maybe:
                continue
            for n in ast.walk(f):
                uses = []
                if isinstance(n, (ast.If, ast.While, ast.IfExp)):
                    uses.append(n.test)
                elif isinstance(n, ast.BoolOp):
                    uses.extend(n.values)
                elif isinstance(n, ast.UnaryOp) and isinstance(n.op, ast.Not):
                    uses.append(n.operand)
                elif isinstance(n, ast.Call) and dotted(n.func) in ("bool", "int"):
                    uses.extend(n.args)
                for u in uses:
                    if isinstance(u, ast.Name) and u.id in maybe:
                        n_tt += 1
                        ok = _assigned_before(f, u)
                        r.ob("R15.2", f"{rel}::{enclosing_function(u) or f.name} truth test of `{u.id}`", ok,
                             f"`{u.id}` may still be the UNSPECIFIED sentinel (a truthy object without __bool__) when it is tested at line {u.lineno}", loc(rel, u))
                # storing a possibly-unspecified option on self
                if isinstance(n, ast.Assign) and any(isinstance(t, ast.Attribute) for t in n.targets) and isinstance(n.value, ast.Name) and n.value.id in maybe:
                    n_tt += 1
                    ok = _assigned_before(f, n.value)
                    r.ob("R15.2", f"{rel}::{enclosing_function(n) or f.name} stores `{n.value.id}` on self", ok,
                         f"`{n.value.id}` is stored as an attribute while it may still be UNSPECIFIED", loc(rel, n))
    # the sentinel class defines no __bool__/__len__ (so it is truthy): record the fact the rule relies on
    cls = repo.find(REL, "_UNSPECIFIED")
    meths = {m.name for m in cls.body if isinstance(m, ast.FunctionDef)}
    r.ob("R15.2", f"{REL}::_UNSPECIFIED truthiness", not ({"__bool__", "__len__"} & meths) or True, "", loc(REL, cls))
    # attribute consumers: self.flush_subnormals passed to mpf2float
    vm = repo.find(REL, "vectorize_with_mpmath")
    init = [m for m in vm.body if isinstance(m, ast.FunctionDef) and m.name == "__init__"][0]
    fs_assign = [st for st in ast.walk(init) if isinstance(st, ast.Assign) and any(dotted(t) == "self.flush_subnormals" for t in st.targets)]
    if len(fs_assign) != 1:
        raise AnalysisError("vectorize_with_mpmath.__init__: assignment of self.flush_subnormals not found")
    v = fs_assign[0].value
    ok = isinstance(v, ast.IfExp) and _sentinel_test(v.test) is not None
    r.ob("R15.2", f"{REL}::vectorize_with_mpmath.__init__ self.flush_subnormals is resolved", ok, f"self.flush_subnormals = `{norm_src(v)}` is not a sentinel resolution", loc(REL, fs_assign[0]))
    passes = [c for c in calls_in(vm) if (call_name(c) or "") == "mpf2float" and any(kw.arg == "flush_subnormals" and dotted(kw.value) == "self.flush_subnormals" for kw in c.keywords)]
    r.ob("R15.2", f"{REL}::vectorize_with_mpmath.mptonp forwards flush_subnormals", len(passes) >= 1, "mptonp no longer passes self.flush_subnormals to mpf2float", loc(REL, vm))

    # ------------------------------------------------------------------ R15.3
    stores = {}
    for st in ast.walk(init):
        if isinstance(st, ast.Assign) and isinstance(st.targets[0], ast.Attribute) and dotted(st.targets[0].value) == "self":
            stores[st.targets[0].attr] = st.value
    for attr in ("extra_prec_multiplier", "extra_prec"):
        v = stores.get(attr)
        ok = isinstance(v, ast.Call) and isinstance(v.func, ast.Attribute) and v.func.attr == "pop" and v.args and isinstance(v.args[0], ast.Constant) and v.args[0].value == attr
        r.ob("R15.3", f"{REL}::vectorize_with_mpmath.__init__ self.{attr}", ok, f"self.{attr} = `{norm_src(v) if v is not None else None}` does not come from the option of the same name", loc(REL, init))
    bc = [m for m in vm.body if isinstance(m, ast.FunctionDef) and m.name == "backend_context"][0]
    env = {}
    for st in bc.body:
        if isinstance(st, ast.Assign) and isinstance(st.targets[0], ast.Name):
            env[st.targets[0].id] = st.value
    ret = [n for n in ast.walk(bc) if isinstance(n, ast.Return)][0]
    ok = isinstance(ret.value, ast.Call) and (call_name(ret.value) or "").endswith(".extraprec") and ret.value.args
    if ok:
        a = ret.value.args[0]
        expr = env.get(a.id) if isinstance(a, ast.Name) else a
        txt = norm_src(expr).replace(" ", "") if expr is not None else ""
        ok = txt in (
            "int(context.prec*self.extra_prec_multiplier)+self.extra_prec",
            "self.extra_prec+int(context.prec*self.extra_prec_multiplier)",
            "int(self.extra_prec_multiplier*context.prec)+self.extra_prec",
        )
        detail = f"extra precision is `{norm_src(expr) if expr is not None else None}`; expected int(prec * multiplier) + extra"
    else:
        detail = f"backend_context returns `{norm_src(ret.value)}`, not context.extraprec(...)"
    r.ob("R15.3", f"{REL}::vectorize_with_mpmath.backend_context", ok, detail, loc(REL, bc))
    # backend evaluation happens inside `with self.backend_context(...)`
    vb = repo.find(REL, "vectorize_with_backend")
    for mname in ("_call_eval", "__call__"):
        m = [x for x in vb.body if isinstance(x, ast.FunctionDef) and x.name == mname][0]
        evals = [c for c in calls_in(m) if norm_src(c.func) in ("super().__call__", "self.pyfunc")]
        if not evals:
            raise AnalysisError(f"vectorize_with_backend.{mname}: evaluation call not found")
        for c in evals:
            inside = False
            p = getattr(c, "_parent", None)
            while p is not None and p is not m:
                if isinstance(p, ast.With) and any((call_name(it.context_expr) or "").endswith("backend_context") for it in p.items if isinstance(it.context_expr, ast.Call)):
                    inside = True
                p = getattr(p, "_parent", None)
            r.ob("R15.3", f"{REL}::vectorize_with_backend.{mname} `{norm_src(c.func)}` inside backend_context", inside, "the function is evaluated outside `with self.backend_context(...)`: extra precision is not applied", loc(REL, c))

    # ------------------------------------------------------------------ R15.4 tables + flush keyed exponent
    check_mpmath_tables(r, repo, rule="R15.4")
    mf = repo.func(REL, "mpf2float")
    # R15.5: returns under the two range tests
    rtests = check_range_tests_after_rounding(r, repo, mf)
    # the sign is the first component of the (sign, man, exp, bc) tuple of the mpf
    sign_names = set()
    for st in ast.walk(mf):
        if isinstance(st, ast.Assign) and isinstance(st.targets[0], ast.Tuple) and len(st.targets[0].elts) == 4 and isinstance(st.targets[0].elts[0], ast.Name):
            v = st.value
            if (isinstance(v, ast.Call) and (dotted(v.func) or "").endswith("_normalize")) or (isinstance(v, ast.Attribute) and v.attr == "_mpf_"):
                sign_names.add(st.targets[0].elts[0].id)
    if not sign_names:
        raise AnalysisError("mpf2float: unpacking of the mpf tuple (sign, man, exp, bc) not found")
    n55 = 0
    for n in ast.walk(mf):
        if isinstance(n, ast.If) and id(n.test) in rtests:
            rets = [x for x in n.body if isinstance(x, ast.Return)]
            if len(rets) != 1:
                continue
            n55 += 1
            v = rets[0].value
            under = rtests[id(n.test)]["kind"] == "under"
            # negated *integer* zero has no sign
            int_neg_zero = [x for x in ast.walk(v) if isinstance(x, ast.UnaryOp) and isinstance(x.op, ast.USub) and isinstance(x.operand, ast.Constant)
                            and isinstance(x.operand.value, int) and not isinstance(x.operand.value, bool) and x.operand.value == 0]
            depends_on_sign = any(isinstance(x, ast.Name) and x.id in sign_names for x in ast.walk(v))
            has_neg = any(isinstance(x, ast.UnaryOp) and isinstance(x.op, ast.USub) for x in ast.walk(v)) or "copysign" in norm_src(v)
            ok = depends_on_sign and has_neg and not int_neg_zero
            what = "underflow (signed zero)" if under else "overflow (signed infinity)"
            detail = f"`{norm_src(v)}`: "
            if int_neg_zero:
                detail += "`-0` is the integer 0, it carries no sign, so a negative value underflows to +0.0"
            elif not depends_on_sign:
                detail += "the result does not depend on `sign`"
            elif not has_neg:
                detail += "no negative arm"
            r.ob("R15.5", f"{REL}::mpf2float {what} result", ok, detail, loc(REL, rets[0]))
    if n55 < 2:
        raise AnalysisError("mpf2float: underflow/overflow early returns not found")
    kinds = sorted(f"{v['kind']}:{v['dir']}" for v in rtests.values())
    ok = "under:below" in kinds and "over:above" in kinds and all(k in ("under:below", "over:above") for k in kinds)
    r.ob("R15.4", f"{REL}::mpf2float range tests", ok, f"range tests are {sorted(v['text'] + ' (' + v['kind'] + ':' + v['dir'] + ')' for v in rtests.values())}: "
         "zero is returned below the zero threshold, infinity above float_maxexp", loc(REL, mf))
    check_thresholds_derived(r, repo, mf, rtests)
    check_single_rounding(r, repo, mf)
    check_unrounded_input(r, repo, mf)
    check_evaluation_context(r, repo)
    # ------------------------------------------------------------------ R15.7 wrapper caches
    # The numpy_with_* namespaces cache the vectorised wrapper they build with **self.params under a key: the key must determine
    # everything the wrapper is built from - the name and the whole of self.params - or a namespace with other options is handed
    # the wrapper of an earlier one (seed C15f: the additive extra_prec option left out of the key).
    n_cache = 0
    for cls in [c for c in ast.walk(repo.tree(REL)) if isinstance(c, ast.ClassDef)]:
        ga = next((m for m in cls.body if isinstance(m, ast.FunctionDef) and m.name == "__getattr__"), None)
        if ga is None:
            continue
        stores = [n for n in ast.walk(ga) if isinstance(n, ast.Subscript) and isinstance(n.ctx, ast.Store) and (dotted(n.value) or "").endswith("_vfunc_cache")]
        if not stores:
            continue
        builds_with_params = any(isinstance(c, ast.Call) and any(k.arg is None and dotted(k.value) == "self.params" for k in c.keywords) for c in ast.walk(ga))
        for st in stores:
            n_cache += 1
            keyexpr = st.slice
            if isinstance(keyexpr, ast.Name):
                defs = [a.value for a in ast.walk(ga) if isinstance(a, ast.Assign) and any(isinstance(t, ast.Name) and t.id == keyexpr.id for t in a.targets)]
                if len(defs) != 1:
                    raise AnalysisError(f"{cls.name}.__getattr__: cache key `{keyexpr.id}` has {len(defs)} definitions")
                keyexpr = defs[0]
            src = norm_src(keyexpr)
            whole = any(isinstance(c, ast.Call) and isinstance(c.func, ast.Attribute) and c.func.attr == "items" and dotted(c.func.value) == "self.params" for c in ast.walk(keyexpr))
            partial = [norm_src(c) for c in ast.walk(keyexpr) if (isinstance(c, ast.Call) and isinstance(c.func, ast.Attribute) and c.func.attr == "get" and dotted(c.func.value) == "self.params")
                       or (isinstance(c, ast.Subscript) and dotted(c.value) == "self.params")]
            has_name = any(isinstance(c, ast.Name) and c.id == ga.args.args[1].arg for c in ast.walk(keyexpr))
            ok = has_name and (whole or not builds_with_params)
            r.ob("R15.7", f"{REL}::{cls.name}.__getattr__ cache key determines the wrapper", ok,
                 f"the wrapper is built with **self.params but cached under `{src}`" + (f", which reads only {partial}" if partial else "")
                 + ": two namespaces that differ in another option (e.g. extra_prec) share one wrapper, whichever was created first", loc(REL, st))
    if n_cache < 2:
        raise AnalysisError(f"only {n_cache} wrapper caches (_vfunc_cache stores) recognised in utils.py")
    return r


def check_single_rounding(r, repo, mf, rule="R15.9"):
    """A result below the smallest normal has fewer significant bits than p.  mpf2float rounds x with _normalize(..., prec, rnd)
    and then places the mantissa with ldexp, which rounds again onto the subnormal grid: unless the precision handed to
    _normalize is reduced by the distance of x's exponent to the bottom of the format, a subnormal result is rounded twice
    (2.5000001 * smallest subnormal -> 2.5 -> 2 instead of 3).  Structural necessary condition: on the path without flushing,
    some value that reaches the precision argument of _normalize depends on the exponent fields of x (x._mpf_) - or the
    subnormal range is handled by a separate exact branch that reads them."""
    calls = [c for c in ast.walk(mf) if isinstance(c, ast.Call) and (dotted(c.func) or "").endswith("_normalize")]
    if len(calls) < 1:
        raise AnalysisError("mpf2float: call of _normalize not found")
    xname = mf.args.args[1].arg

    def mentions_exponent(node, depth=0, seen=None):
        seen = seen or set()
        for n in ast.walk(node):
            if isinstance(n, ast.Attribute) and n.attr == "_mpf_" and dotted(n.value) == xname:
                return True
            if isinstance(n, ast.Name) and n.id not in seen and depth < 6:
                seen.add(n.id)
                for st in ast.walk(mf):
                    if isinstance(st, ast.Assign):
                        for t in st.targets:
                            names = [t] if isinstance(t, ast.Name) else list(t.elts) if isinstance(t, ast.Tuple) else []
                            if any(isinstance(q, ast.Name) and q.id == n.id for q in names) and not (isinstance(st.value, ast.Call) and (dotted(st.value.func) or "").endswith("_normalize")):
                                if mentions_exponent(st.value, depth + 1, seen):
                                    return True
        return False

    ok = False
    for c in calls:
        # values that can reach the precision argument: a starred list whose element 0 is assigned, or a plain argument
        prec_sources = []
        for a in c.args:
            if isinstance(a, ast.Starred) and isinstance(a.value, ast.Name) and dotted(a.value) != f"{xname}._mpf_":
                lname = a.value.id
                for st in ast.walk(mf):
                    if isinstance(st, ast.Assign) and isinstance(st.targets[0], ast.Subscript) and dotted(st.targets[0].value) == lname \
                            and isinstance(st.targets[0].slice, ast.Constant) and st.targets[0].slice.value == 0:
                        prec_sources.append(st.value)
            elif not isinstance(a, ast.Starred):
                prec_sources.append(a)
        if any(mentions_exponent(v) for v in prec_sources):
            ok = True
    r.ob(rule, f"{REL}::mpf2float subnormal results are rounded once", ok,
         "the precision handed to _normalize never depends on the exponent of x: a value below the smallest normal is rounded to the full precision first and then "
         "again by ldexp onto the subnormal grid (and everything between half the smallest subnormal and the smallest subnormal becomes zero)", loc(REL, calls[0]))


def check_unrounded_input(r, repo, mf, rule="R15.10"):
    """mpf2float rounds exactly once only if the value that reaches _normalize is the caller's value itself: the raw fields
    `x._mpf_` of the *parameter*.  A copy made on the way (`x = ctx.mpf(x)`, `+x`, `x * 1`, `ctx.convert(x)`) is rounded to the
    context's working precision first; when that precision lies between the target's and the value's, the first rounding can
    land on a tie of the target format and the second one picks the wrong neighbour.  Decided on statement paths: at every call
    of _normalize the object whose `_mpf_` is passed is the parameter, not rebound since function entry."""
    from sa.paths import enumerate_paths
    from sa.defuse import last_def

    xname = mf.args.args[1].arg
    n = 0
    seen = set()
    for path in enumerate_paths(mf, unroll=(0, 1), limit=20000):
        for i, e in enumerate(path.events):
            if e.kind != "stmt":
                continue
            for c in ast.walk(e.node):
                if not (isinstance(c, ast.Call) and (dotted(c.func) or "").endswith("_normalize")):
                    continue
                srcs = [a.value if isinstance(a, ast.Starred) else a for a in c.args]  # in order: the value fields come first
                raw = [v for v in srcs[:1] if isinstance(v, ast.Attribute) and v.attr == "_mpf_"]
                if not raw:
                    # fields unpacked earlier: follow the first argument to the unpacking of `<obj>._mpf_`
                    first = srcs[0] if srcs else None
                    if isinstance(first, ast.Name):
                        ld = last_def(first.id, path.events, i)
                        if ld is not None and isinstance(ld[1], ast.Attribute) and ld[1].attr == "_mpf_":
                            raw = [ld[1]]
                if not raw:
                    raise AnalysisError(f"mpf2float: the value handed to `{norm_src(c)[:80]}` is not the `_mpf_` fields of an object")
                obj = raw[0].value
                ld = last_def(obj.id, path.events, i) if isinstance(obj, ast.Name) else ("?", obj)
                ok = isinstance(obj, ast.Name) and obj.id == xname and ld is None
                key = (c.lineno, ok, norm_src(ld[1]) if ld else "")
                if key in seen:
                    continue
                seen.add(key)
                n += 1
                r.ob(rule, f"{REL}::mpf2float rounds the caller's own value" + ("" if ok else f" [{norm_src(ld[1])[:60] if ld else norm_src(obj)}]"), ok,
                     f"the value rounded by _normalize is `{norm_src(obj)}`" + (f", rebound by `{norm_src(ld[1])[:80]}`" if ld else "")
                     + ": a copy made through the context is rounded to the context's working precision first, so a value with more bits than that is rounded twice", loc(REL, c))
    if n == 0:
        raise AnalysisError("mpf2float: no call of _normalize found on any path")


def check_evaluation_context(r, repo, rule="R15.11"):
    """vectorize_with_backend.__call__ evaluates the function inside backend_context(<context>), where <context> is derived from
    an argument; the result is converted back in the type of the first float argument, so it is that argument's context whose
    precision has to carry the requested extra precision.  On every path through the argument loop (two iterations unrolled)
    the context variable is assigned from an argument at most once: the first float argument decides and later ones do not
    overwrite it (with mixed float types the evaluation would otherwise run at the bare precision of the result type)."""
    from sa.paths import enumerate_paths

    f = repo.func(REL, "vectorize_with_backend.__call__")
    cvars = set()
    for w in [x for x in ast.walk(f) if isinstance(x, ast.With)]:
        inside_loop = any(isinstance(a, (ast.For, ast.While)) for a in _anc(w, f))
        for it in w.items:
            c = it.context_expr
            if isinstance(c, ast.Call) and (dotted(c.func) or "").endswith("backend_context") and c.args and isinstance(c.args[0], ast.Name) and not inside_loop:
                cvars.add(c.args[0].id)
    if len(cvars) != 1:
        raise AnalysisError(f"vectorize_with_backend.__call__: the evaluation `with self.backend_context(<name>)` was not found ({sorted(cvars)})")
    cv = next(iter(cvars))
    worst = 0
    n_paths = 0
    for p in enumerate_paths(f, unroll=(2,), limit=50000):
        cnt = 0
        is_none = None  # what is known about `cv is None` along the path
        feasible = True
        for e in p.events:
            if e.kind == "stmt" and isinstance(e.node, ast.Assign) and any(isinstance(t, ast.Name) and t.id == cv for t in e.node.targets):
                if isinstance(e.node.value, ast.Constant) and e.node.value.value is None:
                    is_none = True
                else:
                    cnt += 1
                    is_none = False
            elif e.kind == "test" and isinstance(e.node, ast.Compare) and len(e.node.ops) == 1 and isinstance(e.node.ops[0], (ast.Is, ast.IsNot)) \
                    and isinstance(e.node.left, ast.Name) and e.node.left.id == cv and isinstance(e.node.comparators[0], ast.Constant) and e.node.comparators[0].value is None:
                holds = e.pol if isinstance(e.node.ops[0], ast.Is) else not e.pol  # the path claims `cv is None` == holds
                if is_none is not None and holds != is_none:
                    feasible = False
                    break
        if not feasible:
            continue
        n_paths += 1
        worst = max(worst, cnt)
    if n_paths == 0:
        raise AnalysisError("vectorize_with_backend.__call__: no path enumerated")
    r.ob(rule, f"{REL}::vectorize_with_backend.__call__ evaluation context is the first float argument's", worst <= 1,
         f"on a path with two float arguments `{cv}` is assigned {worst} times: the last argument's context replaces the first one's, while the result is converted in the "
         "first argument's type - for arguments of different float types the function is then evaluated without the extra precision that type was given", loc(REL, f),
         sample=dict(rule=rule, paths=n_paths, max_assignments=worst))


def _anc(node, stop):
    out = []
    n = getattr(node, "_parent", None)
    while n is not None and n is not stop:
        out.append(n)
        n = getattr(n, "_parent", None)
    return out


class _RawField(Exception):
    pass


def check_thresholds_derived(r, repo, mf, rtests, rule="R15.8"):
    """mpf2float's zero and infinity thresholds, derived per format and flush flag.  After rounding to p bits the value is
    man * 2^exp with bit count bc, so |v| lies in [2^(E-1), 2^E) with E = exp + bc.  Each range test is brought to the form
    `E + c  op  T` by following its operands along the path (local copies, the conditional that selects the table by the flush
    flag - as an expression or as a statement -, the exponent tables evaluated for the format); that gives the largest E sent to
    zero (zmax) and the smallest E sent to infinity (omin).  Required, with emin/emax/p of the format:
      omin == emax + 2          (E = emax + 1 holds the finite values up to the largest; from 2^(emax+1) on it is an overflow)
      no flush: emin - p <= zmax <= emin - p + 1   (everything below half the smallest subnormal is zero; no subnormal at or above
                                                    the smallest one is lost)
      flush:    zmax == emin                       (exactly the values below the smallest normal are flushed)"""
    from sa.paths import enumerate_paths
    from sa.defuse import last_def
    from sa.consteval import ev
    from rules.C13 import EMIN, EMAX, PREC

    cls = repo.find(REL, "vectorize_with_mpmath")
    TABLES = {}
    for name in ("float_minexp", "float_subexp", "float_maxexp"):
        tbl = ev(repo.module_assign(REL, name, container=cls))
        if not isinstance(tbl, dict):
            raise AnalysisError(f"vectorize_with_mpmath.{name} is not a constant table")
        TABLES[name] = tbl
    # names of the rounded exponent and bit count: 3rd and 4th target of the unpacking of _normalize(...)
    fields = None
    for st in ast.walk(mf):
        if isinstance(st, ast.Assign) and isinstance(st.targets[0], ast.Tuple) and len(st.targets[0].elts) == 4 and isinstance(st.value, ast.Call) \
                and (dotted(st.value.func) or "").endswith("_normalize") and all(isinstance(e, ast.Name) for e in st.targets[0].elts):
            fields = [e.id for e in st.targets[0].elts]
    if fields is None:
        raise AnalysisError("mpf2float: `sign, man, exp, bc = _normalize(...)` not found")
    EXP, BC = fields[2], fields[3]
    flagname = next((a.arg for a in mf.args.args if a.arg == "flush_subnormals"), None)
    if flagname is None:
        raise AnalysisError("mpf2float: parameter flush_subnormals not found")
    done = {}
    skipped = set()
    for path in enumerate_paths(mf, unroll=(0, 1), limit=20000):
        evs = path.events
        # flush flag values compatible with this path
        flags = {False, True}
        for e in evs:
            if e.kind == "test":
                t, pol = e.node, e.pol
                while isinstance(t, ast.UnaryOp) and isinstance(t.op, ast.Not):
                    t, pol = t.operand, not pol
                if isinstance(t, ast.Name) and t.id == flagname:
                    flags &= {pol}
        for i, e in enumerate(evs):
            if e.kind != "test" or id(e.node) not in rtests:
                continue

            def lin(x, at, flush, fmt, depth=0):
                """linear form {EXP: a, BC: b, 1: c} of an integer expression, or raise"""
                if depth > 12:
                    raise AnalysisError("mpf2float: range test operand too deep")
                if isinstance(x, ast.Constant) and isinstance(x.value, int) and not isinstance(x.value, bool):
                    return {1: x.value}
                if isinstance(x, ast.Name):
                    if x.id in (EXP, BC):
                        ld = last_def(x.id, evs, at)
                        if ld is not None and isinstance(ld[1], ast.Call) and (dotted(ld[1].func) or "").endswith("_normalize"):
                            return {x.id: 1}
                        if ld is not None and isinstance(ld[1], ast.Attribute):
                            raise _RawField()  # the test reads an unrounded field: R15.6 is the verdict on it
                    ld = last_def(x.id, evs, at)
                    if ld is None:
                        raise AnalysisError(f"mpf2float: `{x.id}` in a range test is not locally defined")
                    return lin(ld[1], ld[0], flush, fmt, depth + 1)
                if isinstance(x, ast.IfExp):
                    t, pol = x.test, True
                    while isinstance(t, ast.UnaryOp) and isinstance(t.op, ast.Not):
                        t, pol = t.operand, not pol
                    if isinstance(t, ast.Name) and t.id == flagname:
                        return lin(x.body if (flush == pol) else x.orelse, at, flush, fmt, depth + 1)
                    raise AnalysisError(f"mpf2float: conditional `{norm_src(x)}` in a range test does not test the flush flag")
                if isinstance(x, ast.Subscript) and isinstance(x.value, ast.Attribute) and x.value.attr in TABLES:
                    return {1: TABLES[x.value.attr][fmt]}
                if isinstance(x, ast.BinOp) and isinstance(x.op, (ast.Add, ast.Sub)):
                    a, b = lin(x.left, at, flush, fmt, depth + 1), lin(x.right, at, flush, fmt, depth + 1)
                    sgn = 1 if isinstance(x.op, ast.Add) else -1
                    out = dict(a)
                    for k, v in b.items():
                        out[k] = out.get(k, 0) + sgn * v
                    return out
                if isinstance(x, ast.UnaryOp) and isinstance(x.op, ast.USub):
                    return {k: -v for k, v in lin(x.operand, at, flush, fmt, depth + 1).items()}
                raise AnalysisError(f"mpf2float: operand `{norm_src(x)}` of a range test is not understood")

            for flush in sorted(flags):
                for fmt, bits in NAMEKEY.items():
                    key = (id(e.node), flush, fmt)
                    try:
                        L = lin(e.node.left, i, flush, fmt)
                        R = lin(e.node.comparators[0], i, flush, fmt)
                    except _RawField:
                        skipped.add(id(e.node))
                        continue
                    d = dict(L)
                    for k, v in R.items():
                        d[k] = d.get(k, 0) - v
                    a, b, c = d.get(EXP, 0), d.get(BC, 0), d.get(1, 0)
                    if not (a == b and a in (1, -1)):
                        raise AnalysisError(f"mpf2float: range test `{norm_src(e.node)}` does not compare exp + bc with a threshold")
                    op = type(e.node.ops[0])
                    if a == -1:  # -(E) + c op 0  <=>  E - c  op'  0
                        c = -c
                        op = {ast.Lt: ast.Gt, ast.LtE: ast.GtE, ast.Gt: ast.Lt, ast.GtE: ast.LtE}.get(op, op)
                    # E + c op 0 when the test is true (the return under it is taken)
                    if op is ast.Lt:
                        bound = ("zmax", -c - 1)
                    elif op is ast.LtE:
                        bound = ("zmax", -c)
                    elif op is ast.Gt:
                        bound = ("omin", -c + 1)
                    elif op is ast.GtE:
                        bound = ("omin", -c)
                    else:
                        raise AnalysisError(f"mpf2float: range test `{norm_src(e.node)}` is not an ordering comparison")
                    prev = done.get(key)
                    if prev is not None and prev[0] != bound:
                        raise AnalysisError(f"mpf2float: range test `{norm_src(e.node)}` has path-dependent thresholds")
                    done[key] = (bound, e.node)
    n = 0
    for (nid, flush, fmt), ((what, val), node) in sorted(done.items(), key=lambda kv: (kv[0][2], kv[0][1], kv[1][0][0])):
        bits = NAMEKEY[fmt]
        emin, emax, pp = EMIN[bits], EMAX[bits], PREC[bits]
        kind = rtests[nid]["kind"]
        if what == "omin" and kind == "over":
            ok = val == emax + 2
            detail = (f"`{norm_src(node)}` returns infinity for exp + bc >= {val}; {fmt} values with exp + bc = {emax + 1} are the finite ones up to the largest, and everything "
                      f"from exp + bc = {emax + 2} on is beyond it: " + ("finite values of the top binade become infinite" if val < emax + 2 else "values beyond the largest are handed to ldexp"))
        elif what == "zmax" and kind == "under":
            if flush:
                ok = val == emin
                detail = (f"`{norm_src(node)}` with flushing returns zero for exp + bc <= {val}; exactly the values below the smallest normal (exp + bc <= {emin}) are to be flushed: "
                          + ("normal values are flushed to zero" if val > emin else "some subnormals survive the flush"))
            else:
                ok = emin - pp <= val <= emin - pp + 1
                detail = (f"`{norm_src(node)}` returns zero for exp + bc <= {val}; below half the smallest subnormal is exp + bc <= {emin - pp}, the smallest subnormal itself has "
                          f"exp + bc = {emin - pp + 2}: " + ("representable values are turned into zero" if val > emin - pp + 1 else "values below half the smallest subnormal are handed to ldexp"))
        else:
            ok, detail = False, f"`{norm_src(node)}` is a test in the wrong direction for its table"
        n += 1
        r.ob(rule, f"{REL}::mpf2float {fmt} flush={flush} {'overflow' if kind == 'over' else 'zero'} threshold", ok, detail, loc(REL, node),
             sample=dict(rule=rule, format=fmt, flush=flush, bound=what, value=val))
    if n < 9 and not skipped:
        raise AnalysisError(f"mpf2float: only {n} (format, flush, threshold) combinations derived")


def check_range_tests_after_rounding(r, repo, mf, rule="R15.6"):
    """On every path of mpf2float, each underflow/overflow test (a comparison against one of the exponent tables)
    reads the exponent and bit count produced by the rounding to the target precision (_normalize), never the raw
    mpf fields: rounding can carry into the next binade, which moves a value across either threshold."""
    from sa.paths import enumerate_paths
    from sa.defuse import last_def, origins

    TABLES = ("float_minexp", "float_subexp", "float_maxexp")
    n = 0
    seen = set()
    found = {}
    for path in enumerate_paths(mf, unroll=(0, 1), limit=20000):
        ev_ = path.events
        for i, e in enumerate(ev_):
            if e.kind != "test" or not isinstance(e.node, ast.Compare) or len(e.node.comparators) != 1:
                continue
            sides = [e.node.left, e.node.comparators[0]]
            tab = [any(k[0] == "attr" and k[1].split(".")[-1] in TABLES for k in origins(sd, ev_, i)) for sd in sides]
            if tab[0] == tab[1]:
                continue
            quantity = sides[1] if tab[0] else sides[0]
            tabs = {k[1].split(".")[-1] for k in origins(sides[0] if tab[0] else sides[1], ev_, i) if k[0] == "attr" and k[1].split(".")[-1] in TABLES}
            op = e.node.ops[0]
            below = (isinstance(op, (ast.Lt, ast.LtE)) and not tab[0]) or (isinstance(op, (ast.Gt, ast.GtE)) and tab[0])
            above = (isinstance(op, (ast.Gt, ast.GtE)) and not tab[0]) or (isinstance(op, (ast.Lt, ast.LtE)) and tab[0])
            info = found.setdefault(id(e.node), dict(kind="over" if tabs == {"float_maxexp"} else "under" if tabs <= {"float_minexp", "float_subexp"} else "mixed",
                                                   dir="below" if below else "above" if above else "other", text=norm_src(e.node), tabs=set()))
            info["tabs"] |= tabs
            names = sorted({x.id for x in ast.walk(quantity) if isinstance(x, ast.Name)})
            bad = []

            def leaves(expr, at, depth=0):
                # follow plain arithmetic through local assignments; stop at calls, attributes and parameters
                for x in ast.walk(expr):
                    if isinstance(x, ast.Name):
                        ld = last_def(x.id, ev_, at)
                        v = ld[1] if ld else None
                        if isinstance(v, ast.Call) and (dotted(v.func) or "").endswith("_normalize"):
                            continue
                        if v is not None and depth < 10 and not isinstance(v, (ast.Call, ast.Attribute, ast.AugAssign)) and any(isinstance(y, ast.Name) for y in ast.walk(v)):
                            leaves(v, ld[0], depth + 1)
                            continue
                        if v is not None and isinstance(v, ast.Constant):
                            continue
                        bad.append(f"{x.id} <- `{norm_src(v) if v is not None else 'parameter'}`")

            leaves(quantity, i)
            bad = sorted(set(bad))
            n += 1
            key = (e.node.lineno, tuple(bad))
            if key in seen:
                continue
            seen.add(key)
            r.ob(rule, f"{REL}::mpf2float `{norm_src(e.node)}` reads rounded fields" + (f" [{'; '.join(bad)}]" if bad else ""), not bad,
                 "the range test reads fields that were not produced by _normalize(..., prec, rounding): " + "; ".join(bad) if bad else f"operands {names} come from _normalize", loc(REL, e.node))
    if n == 0:
        raise AnalysisError("mpf2float: no comparison against the exponent tables found on any path")
    return found


def _assigned_before(f, use):
    """Is there an assignment to the name in the same block or an enclosing block, textually before the use?"""
    name = use.id
    node = use
    while node is not f and node is not None:
        par = getattr(node, "_parent", None)
        if par is None:
            break
        for field in ("body", "orelse", "finalbody"):
            blk = getattr(par, field, None)
            if isinstance(blk, list) and node in blk:
                for st in blk[: blk.index(node)]:
                    if isinstance(st, ast.Assign) and any(isinstance(t, ast.Name) and t.id == name for t in st.targets):
                        return True
                    # the statement form of a resolution: `if name is UNSPECIFIED: name = <default>` (the sentinel branch rebinds the
                    # name on every path through it; in the other branch the name is the caller's value)
                    if isinstance(st, ast.If):
                        tst = _sentinel_test(st.test)
                        if tst and tst[0] == name:
                            sb = st.body if tst[1] else st.orelse
                            if sb and any(isinstance(x, ast.Assign) and any(isinstance(t, ast.Name) and t.id == name for t in x.targets) for x in sb) \
                                    and not any(isinstance(x, (ast.If, ast.For, ast.While, ast.Try)) for x in sb):
                                return True
        # guarded by `if name is not UNSPECIFIED`
        if isinstance(par, ast.If):
            st = _sentinel_test(par.test)
            if st and st[0] == name and ((not st[1] and node in par.body) or (st[1] and node in par.orelse)):
                return True
        node = par
    return False
