"""C10 — error-free transformations conform to proven forms.  Rules R10.1 (dataflow conformance), R10.2 (constants), R10.3 (wrappers)."""

from __future__ import annotations

import ast
import os

from sa.core import AnalysisError, Report, loc, norm_src, VERIF
from sa.consteval import ev
from sa.kernels import Extractor, IN, CONST, normal, show, Unsupported, lift, is_term
from sa.paths import dotted, calls_in, call_name
from sa.numconst import local_env, eval_for_format, BITS, PREC, EMAX, dtype_switch

FPA = "floating_point_algorithms.py"
ALG = "algorithms.py"
UT = "utils.py"
AP = "apmath.py"


class RefRepo:
    """Minimal repo-like view of the reference catalogue file."""

    def __init__(self):
        p = os.path.join(VERIF, "sa", "oracles", "eft_reference.py")
        self.tree = ast.parse(open(p).read())
        self.funcs = {n.name: n for n in self.tree.body if isinstance(n, ast.FunctionDef)}

    def func(self, rel, name):
        return self.funcs[name]

    def has(self, rel, name):
        return name in self.funcs


def nf(v):
    """Normal form of a kernel result (tuple of terms)."""
    if not is_term(v) and isinstance(v, (tuple, list)):
        return tuple(nf(x) for x in v)
    return normal(lift(v))


def _owner_function(node):
    n = node
    while n is not None and not isinstance(n, (ast.FunctionDef, ast.AsyncFunctionDef)):
        n = getattr(n, "_parent", None)
    if n is None:
        raise AnalysisError("expression outside any function")
    return n


def run(repo, tier):
    r = Report("C10", tier, repo, level="other", design_ref="§3/C10")
    r.explanation = (
        "Conformance of every copy of the error-free transformations to a catalogue of proven forms: the source of each kernel is "
        "interpreted symbolically (straight-line dataflow with concrete option flags, sibling kernels inlined), reduced to a normal "
        "form under identities exact in IEEE round-to-nearest arithmetic, and compared with the normal form of the catalogued "
        "algorithm (Knuth 2Sum, Dekker Fast2Sum, Veltkamp split, Dekker product) on the same inputs; plus splitter constants "
        "2^ceil(p/2)+1 at all definition sites and the option plumbing of the apmath wrappers. Exactness itself is the cited theorem, "
        "not re-proved; domains (overflow/underflow) are not decided."
    )
    r.trusted_base = ["Python ast", "sa/oracles/eft_reference.py (catalogue with citations)", "exactness of the normalising identities in IEEE-754 RN arithmetic"]
    r.assumptions = [
                "identities hold up to the sign of an exactly cancelling sum",
        "assume_fma=True paths are not analysed (they presuppose a hardware FMA mapping)",
    ]
    r.rule("R10.1", "each kernel copy is dataflow-equal (normal form) to its catalogued proven algorithm for every option combination", floor=40)
    r.rule("R10.2", "splitter constants equal 2^ceil(p/2)+1 (N = 2^ceil(p/2), invN = 1/N, x_max per docstring) at every definition site", floor=20)
    r.rule("R10.3", "apmath wrappers forward their options to the right keyword of the fpa kernels", floor=8)

    ref = Extractor(RefRepo())
    ex = Extractor(repo)
    x, y = IN("x"), IN("y")
    ctx = ("opaque", "ctx")
    C = IN("C")

    def same(key, got, want, where, what):
        try:
            g, w = nf(got), nf(want)
        except Unsupported as e:
            raise AnalysisError(f"{key}: {e}")
        ok = g == w
        detail = ""
        if not ok:
            gs = _show_result(got)
            ws = _show_result(want)
            detail = f"{what}: the kernel computes {gs}; the proven form is {ws}"
        r.ob("R10.1", key, ok, detail, where, sample=dict(rule="R10.1", key=key, computes=_show_result(got)[:240]))

    def run_kernel(rel, fname, args, kwargs=None):
        try:
            return ex.call(rel, fname, args, kwargs or {})
        except Unsupported as e:
            raise AnalysisError(f"{rel}::{fname}({kwargs}): kernel shape not understood: {e}")

    # ------------------------------------------------------------------ 2Sum family
    for fast in (False, True):
        for fix in (False, True):
            got = run_kernel(FPA, "add_2sum", [ctx, x, y], dict(fast=fast, fix_overflow=fix))
            refname = ("fast_two_sum" if fast else "two_sum") + ("_fix_overflow" if fix else "")
            want = ref.call("", refname, ([ctx] if fix else []) + [x, y])
            same(f"{FPA}::add_2sum fast={fast} fix_overflow={fix}", got, want, loc(FPA, repo.func(FPA, "add_2sum")), "2Sum/Fast2Sum")
        got = run_kernel(ALG, "add_2sum", [x, y], dict(fast=fast))
        want = ref.call("", "fast_two_sum" if fast else "two_sum", [x, y])
        same(f"{ALG}::add_2sum fast={fast}", got, want, loc(ALG, repo.func(ALG, "add_2sum")), "2Sum/Fast2Sum")
        for n in (1, 2, 3, 4, 5):
            seq = [IN(f"x{i}") for i in range(n)]
            want = ref.call("", "sum_fast_two_sum" if fast else "sum_two_sum", [seq])
            if n == 1:
                continue  # type(seq[0])(0) vs 0: compare only the high part below
            got = run_kernel(ALG, "sum_2sum", [seq], dict(fast=fast))
            same(f"{ALG}::sum_2sum fast={fast} n={n}", got, want, loc(ALG, repo.func(ALG, "sum_2sum")), "cascaded 2Sum")
            got = run_kernel(UT, "sum_fast2sum" if fast else "sum_2sum", [seq])
            same(f"{UT}::{'sum_fast2sum' if fast else 'sum_2sum'} n={n}", got, want, loc(UT, repo.func(UT, "sum_fast2sum" if fast else "sum_2sum")), "cascaded 2Sum")
    same(f"{UT}::add_2sum", run_kernel(UT, "add_2sum", [x, y]), ref.call("", "two_sum", [x, y]), loc(UT, repo.func(UT, "add_2sum")), "2Sum")
    same(f"{UT}::add_fast2sum", run_kernel(UT, "add_fast2sum", [x, y]), ref.call("", "fast_two_sum", [x, y]), loc(UT, repo.func(UT, "add_fast2sum")), "Fast2Sum")
    same(f"{UT}::double_2sum", run_kernel(UT, "double_2sum", [x]), ref.call("", "two_sum", [x, x]), loc(UT, repo.func(UT, "double_2sum")), "2Sum(x, x)")
    same(f"{UT}::double_fast2sum", run_kernel(UT, "double_fast2sum", [x]), ref.call("", "fast_two_sum", [x, x]), loc(UT, repo.func(UT, "double_fast2sum")), "Fast2Sum(x, x)")

    # ------------------------------------------------------------------ Veltkamp split
    same(f"{ALG}::split_veltkamp", run_kernel(ALG, "split_veltkamp", [ctx, C, x]), ref.call("", "veltkamp", [x, C]), loc(ALG, repo.func(ALG, "split_veltkamp")), "Veltkamp split")
    same(f"{UT}::split_veltkamp C given", run_kernel(UT, "split_veltkamp", [x], dict(C=C)), ref.call("", "veltkamp", [x, C]), loc(UT, repo.func(UT, "split_veltkamp")), "Veltkamp split")
    got = run_kernel(UT, "split_veltkamp", [x])
    # default constant: whatever constant term the kernel built must be used consistently
    cdef = _first_const_factor(got)
    same(f"{UT}::split_veltkamp default C", got, ref.call("", "veltkamp", [x, cdef]), loc(UT, repo.func(UT, "split_veltkamp")), "Veltkamp split")
    # fpa.split_veltkamp: unscaled with given C, unscaled default (C = N), scaled
    f_sv = repo.func(FPA, "split_veltkamp")
    same(f"{FPA}::split_veltkamp scale=False C given", run_kernel(FPA, "split_veltkamp", [ctx, x], dict(C=C, scale=False)), ref.call("", "veltkamp", [x, C]), loc(FPA, f_sv), "Veltkamp split")
    # the default splitter is the catalogue's constant 2^s + 1 (parameter "C"), not the scaling factor N = 2^s: with a power-of-two
    # splitter the head word can take p - s + 1 bits (float32: x = 1 + 2^-12 keeps all 13 bits), and the Dekker product of two
    # such heads is no longer exact
    same(f"{FPA}::split_veltkamp scale=False default C", run_kernel(FPA, "split_veltkamp", [ctx, x], dict(scale=False)), ref.call("", "veltkamp", [x, CONST("C")]), loc(FPA, f_sv),
         "Veltkamp split with the default C = 2^s + 1")
    for cgiven in (False, True):
        kw = dict(scale=True)
        cc = CONST("C")
        if cgiven:
            kw["C"] = C
            cc = C
        want = ref.call("", "veltkamp_scaled", [ctx, x, cc, CONST("N"), CONST("invN"), CONST("x_max")])
        same(f"{FPA}::split_veltkamp scale=True {'C given' if cgiven else 'default C'}", run_kernel(FPA, "split_veltkamp", [ctx, x], kw), want, loc(FPA, f_sv), "scaled Veltkamp split")

    # ------------------------------------------------------------------ Dekker product
    xh, xl, yh, yl = IN("xh"), IN("xl"), IN("yh"), IN("yl")
    wants = [ref.call("", "dekker_product", [x, y, xh, xl, yh, yl]), ref.call("", "dekker_product_alt", [x, y, xh, xl, yh, yl])]
    got = run_kernel(FPA, "mul_dw", [ctx, x, y, xh, xl, yh, yl])
    _same_any(r, f"{FPA}::mul_dw", got, wants, loc(FPA, repo.func(FPA, "mul_dw")), "Dekker product")
    wants_sq = [ref.call("", "dekker_product", [x, x, xh, xl, xh, xl])]
    got = run_kernel(ALG, "square_dekker", [ctx, x, xh, xl])
    _same_any(r, f"{ALG}::square_dekker", got, wants_sq, loc(ALG, repo.func(ALG, "square_dekker")), "Dekker square")
    # composed products
    def composed(vx, vy):
        return [ref.call("", nm, [x, y, vx[0], vx[1], vy[0], vy[1]]) for nm in ("dekker_product", "dekker_product_alt")]
    for cgiven in (True, False):
        kw = dict(C=C) if cgiven else {}
        got = run_kernel(UT, "multiply_dekker", [x, y], kw)
        cc = C if cgiven else _first_const_factor(run_kernel(UT, "split_veltkamp", [x]))
        vx, vy = ref.call("", "veltkamp", [x, cc]), ref.call("", "veltkamp", [y, cc])
        _same_any(r, f"{UT}::multiply_dekker {'C given' if cgiven else 'default C'}", got, composed(vx, vy), loc(UT, repo.func(UT, "multiply_dekker")), "Dekker product of two Veltkamp splits with one splitter")
        got = run_kernel(UT, "square_dekker", [x], kw)
        vx = ref.call("", "veltkamp", [x, cc])
        wants2 = [ref.call("", nm, [x, x, vx[0], vx[1], vx[0], vx[1]]) for nm in ("dekker_product", "dekker_product_alt")]
        _same_any(r, f"{UT}::square_dekker {'C given' if cgiven else 'default C'}", got, wants2, loc(UT, repo.func(UT, "square_dekker")), "Dekker square")
    f_md = repo.func(FPA, "mul_dekker")
    for scale in (False, True):
        for cgiven in (False, True):
            kw = dict(scale=scale, fix_overflow=False, assume_fma=False)
            cc = CONST("C")
            if cgiven:
                kw["C"] = C
                cc = C
            got = run_kernel(FPA, "mul_dekker", [ctx, x, y], kw)
            if scale:
                vx = ref.call("", "veltkamp_scaled", [ctx, x, cc, CONST("N"), CONST("invN"), CONST("x_max")])
                vy = ref.call("", "veltkamp_scaled", [ctx, y, cc, CONST("N"), CONST("invN"), CONST("x_max")])
            else:
                vx, vy = ref.call("", "veltkamp", [x, cc]), ref.call("", "veltkamp", [y, cc])
            _same_any(r, f"{FPA}::mul_dekker scale={scale} {'C given' if cgiven else 'default C'}", got, composed(vx, vy), loc(FPA, f_md), "Dekker product of two Veltkamp splits (same C, same scale)")
    # fix_overflow: select(|xh*yh| > largest, (x*y, 0), exact pair), symmetric in the sign of the product
    check_mul_dekker_overflow(r, repo, ex, ref, "R10.1")

    # ------------------------------------------------------------------ R10.2 constants
    from sa.numconst import check_getters
    check_getters(r, repo, "R10.2")
    want_C = {b: 2 ** ((PREC[b] + 1) // 2) + 1 for b in BITS}
    want_N = {b: 2 ** ((PREC[b] + 1) // 2) for b in BITS}
    # algorithms.get_veltkamp_splitter_constant
    g = repo.func(ALG, "get_veltkamp_splitter_constant")
    env = {}
    found = False
    for st in g.body:
        if isinstance(st, ast.Assign) and isinstance(st.targets[0], ast.Name) and isinstance(st.value, ast.Call) and (call_name(st.value) or "").endswith("constant"):
            env[st.targets[0].id] = st.value.args[0]
        if isinstance(st, ast.Return):
            v = st.value
            while isinstance(v, ast.Call) and isinstance(v.func, ast.Attribute) and v.func.attr == "reference":
                v = v.func.value
            sw, why = dtype_switch(v)
            found = True
            if sw is None:
                r.ob("R10.2", f"{ALG}::get_veltkamp_splitter_constant dtype switch", False, why, loc(ALG, st))
                continue
            for b, node in sw.items():
                val = ev(env[node.id]) if isinstance(node, ast.Name) and node.id in env else None
                r.ob("R10.2", f"{ALG}::get_veltkamp_splitter_constant float{b}", val == want_C[b],
                     f"`{norm_src(env.get(getattr(node, 'id', ''), node))}` = {val}; the splitter for p={PREC[b]} is 2^ceil(p/2)+1 = {want_C[b]}", loc(ALG, node))
    if not found:
        raise AnalysisError("algorithms.get_veltkamp_splitter_constant: return select not found")
    # formula sites with p (and maxexp)
    def formulas(rel, fname, names):
        f = repo.func(rel, fname)
        out = {}
        has_calc = any(isinstance(n, ast.FunctionDef) and n.name.startswith("calc_") for n in ast.walk(f))
        for n in ast.walk(f):
            if isinstance(n, ast.keyword) and n.arg in names and not has_calc:
                out[n.arg] = n.value
            if isinstance(n, ast.FunctionDef) and n.name.startswith("calc_"):
                rets = [x for x in ast.walk(n) if isinstance(x, ast.Return)]
                if rets:
                    out[n.name[5:]] = rets[0].value
        return out
    def strip_dtype(node):
        # dtype(expr) -> expr
        if isinstance(node, ast.Call) and dotted(node.func) == "dtype" and node.args:
            return node.args[0]
        return node
    wants = {
        "C": lambda b: want_C[b],
        "N": lambda b: want_N[b],
        "invN": lambda b: 0.5 ** ((PREC[b] + 1) // 2),
        "x_max": lambda b: 2 ** (EMAX[b] + 1 - PREC[b] // 2) * (2 ** (PREC[b] // 2) - 1),
    }
    for rel, fname in ((FPA, "_split_veltkamp_parameters"), (FPA, "get_veltkamp_splitter_parameters")):
        fm = formulas(rel, fname, set(wants))
        for nm, fn in wants.items():
            if nm not in fm:
                raise AnalysisError(f"{rel}::{fname}: formula for {nm} not found")
            for b in BITS:
                owner = _owner_function(fm[nm])
                outer = repo.func(rel, fname)
                env = local_env(owner, b, scopes=[outer] if owner is not outer else None)
                val = eval_for_format(fm[nm], b, owner, env)
                r.ob("R10.2", f"{rel}::{fname} {nm} float{b}", val == fn(b), f"`{norm_src(fm[nm])}` for float{b} (p={PREC[b]}, maxexp={EMAX[b] + 1}) gives {val}; expected {fn(b)}", loc(rel, fm[nm]))
    # utils.get_veltkamp_splitter_constant: s = (p+1)//2 ; x(2**s + 1)
    u = repo.func(UT, "get_veltkamp_splitter_constant")
    ret = [n for n in ast.walk(u) if isinstance(n, ast.Return)][0].value
    arg = ret.args[0] if isinstance(ret, ast.Call) and ret.args else ret
    for b in BITS:
        val = eval_for_format(arg, b, u, local_env(u, b))
        r.ob("R10.2", f"{UT}::get_veltkamp_splitter_constant float{b}", val == want_C[b], f"`{norm_src(arg)}` gives {val}, expected {want_C[b]}", loc(UT, u))
    # utils.split_veltkamp default: the value bound to the splitter parameter C when it is None
    sv = repo.func(UT, "split_veltkamp")
    cdefs = [n for n in ast.walk(sv) if isinstance(n, ast.Assign) and len(n.targets) == 1 and dotted(n.targets[0]) == "C"]
    if len(cdefs) != 1:
        raise AnalysisError(f"utils.split_veltkamp: expected one default assignment of the parameter C, found {len(cdefs)}")
    cnode = cdefs[0].value
    cexpr = cnode.args[0] if isinstance(cnode, ast.Call) and cnode.args and not (dotted(cnode.func) or "").endswith("get_veltkamp_splitter_constant") else cnode
    for b in BITS:
        cval = eval_for_format(cexpr, b, sv, local_env(sv, b))
        r.ob("R10.2", f"{UT}::split_veltkamp default splitter float{b}", cval == want_C[b], f"default C = {cval}, expected {want_C[b]}", loc(UT, sv))

    # ------------------------------------------------------------------ R10.3 wrappers
    def kwmap(rel, fname, callee):
        f = repo.func(rel, fname)
        cs = [c for c in calls_in(f) if (call_name(c) or "").endswith(callee)]
        if len(cs) != 1:
            raise AnalysisError(f"{rel}::{fname}: expected one call of {callee}")
        return f, cs[0], {kw.arg: norm_src(kw.value) for kw in cs[0].keywords}, [norm_src(a) for a in cs[0].args]
    f, c, kws, pos = kwmap(AP, "two_sum", "fpa.add_2sum")
    r.ob("R10.3", f"{AP}::two_sum -> add_2sum(x, y)", pos[:3] == ["ctx", "x", "y"], f"positional {pos}", loc(AP, c))
    r.ob("R10.3", f"{AP}::two_sum fix_overflow", kws.get("fix_overflow") == "fix_overflow", f"fix_overflow={kws.get('fix_overflow')}", loc(AP, c))
    r.ob("R10.3", f"{AP}::two_sum fast", kws.get("fast") in ("assume_fma", "False"), f"fast={kws.get('fast')}: 2Sum must not silently become Fast2Sum (which needs |x| >= |y|)", loc(AP, c))
    f, c, kws, pos = kwmap(AP, "quick_two_sum", "fpa.add_2sum")
    r.ob("R10.3", f"{AP}::quick_two_sum -> add_2sum(a, b, fast=True)", pos[:3] == ["ctx", "a", "b"] and kws.get("fast") == "True", f"positional {pos}, fast={kws.get('fast')}", loc(AP, c))
    r.ob("R10.3", f"{AP}::quick_two_sum fix_overflow", kws.get("fix_overflow") == "fix_overflow", f"fix_overflow={kws.get('fix_overflow')}", loc(AP, c))
    f, c, kws, pos = kwmap(AP, "two_prod", "fpa.mul_dekker")
    r.ob("R10.3", f"{AP}::two_prod -> mul_dekker(x, y)", pos[:3] == ["ctx", "x", "y"], f"positional {pos}", loc(AP, c))
    for k in ("scale", "fix_overflow", "assume_fma", "dtype"):
        r.ob("R10.3", f"{AP}::two_prod {k}", kws.get(k) == k, f"{k}={kws.get(k)}", loc(AP, c))
    f, c, kws, pos = kwmap(AP, "split", "fpa.split_veltkamp")
    r.ob("R10.3", f"{AP}::split -> split_veltkamp(a, scale=True)", pos[:2] == ["ctx", "a"] and kws.get("scale") == "True", f"positional {pos}, {kws}", loc(AP, c))
    return r


def check_mul_dekker_overflow(r, repo, ex, ref, rule):
    x, y, C = IN("x"), IN("y"), IN("C")
    ctx = ("opaque", "ctx")
    f_md = repo.func(FPA, "mul_dekker")
    try:
        got = ex.call(FPA, "mul_dekker", [ctx, x, y], dict(scale=False, fix_overflow=True, assume_fma=False, C=C))
    except Unsupported as e:
        raise AnalysisError(f"{FPA}::mul_dekker(fix_overflow=True): kernel shape not understood: {e}")
    vx, vy = ref.call("", "veltkamp", [x, C]), ref.call("", "veltkamp", [y, C])
    want = ref.call("", "dekker_product_fix_overflow", [ctx, x, y, vx[0], vx[1], vy[0], vy[1]])
    want_alt = ref.call("", "dekker_product_fix_overflow_alt", [ctx, x, y, vx[0], vx[1], vy[0], vy[1]])
    g, w = nf(got), nf(want)
    ok = g == w or g == nf(want_alt)  # the two cross terms may be accumulated in either order
    r.ob(rule, f"{FPA}::mul_dekker fix_overflow=True", ok,
         f"with fix_overflow the kernel computes {_show_result(got)[:400]}; the guarded proven form is {_show_result(want)[:400]} "
         "(the guard must test |xh*yh| > largest so that products overflowing towards -inf also fall back to (x*y, 0))", loc(FPA, f_md))


def _show_result(v):
    if not is_term(v) and isinstance(v, (tuple, list)):
        return "(" + ", ".join(_show_result(x) for x in v) + ")"
    try:
        return show(lift(v))
    except Exception:
        return repr(v)


def _same_any(r, key, got, wants, where, what):
    try:
        g = nf(got)
        ws = [nf(w) for w in wants]
    except Unsupported as e:
        raise AnalysisError(f"{key}: {e}")
    ok = g in ws
    r.ob("R10.1", key, ok, "" if ok else f"{what}: the kernel computes {_show_result(got)}; the proven form is {_show_result(wants[0])}", where,
         sample=dict(rule="R10.1", key=key, computes=_show_result(got)[:240]))


def _first_const_factor(result):
    """Find the constant that multiplies the input in g = C * x (for kernels that build their own default C)."""
    found = []

    def walk(t):
        if not isinstance(t, tuple):
            return
        if t and t[0] == "op" and t[1] == "*":
            for a, b in ((t[2], t[3]), (t[3], t[2])):
                if a[0] == "const" and b[0] == "in":
                    found.append(a)
        for x in t[1:]:
            if isinstance(x, tuple):
                walk(x)

    for t in result if (not is_term(result) and isinstance(result, (tuple, list))) else [result]:
        walk(t)
    if not found:
        raise AnalysisError("default splitter constant not found in kernel")
    return found[0]
