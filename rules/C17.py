"""C17 (thin) — double-word ln 2 constants of argument_reduction_exponent.  Rule R17.1/R17.2."""

from __future__ import annotations

import ast
from fractions import Fraction

from sa.core import AnalysisError, Report, loc, norm_src
from sa.consteval import ev
from sa.paths import enumerate_paths, dotted, call_name
from sa.numconst import BITS, PREC, LN2, LN2INV, round_to, ulp, significant_bits, dtype_switch, LARGEST

REL = "floating_point_algorithms.py"
# |k| <= log(largest)/ln 2 plus the subnormal range when x comes from a log-range; generous bounds
KMAX = {64: 1075, 32: 150, 16: 25}


def run(repo, tier):
    r = Report("C17", tier, repo, level="other", design_ref="§3/C17")
    r.explanation = (
        "Thin structural clause of C17: the *active* double-word ln 2 constants of get_log2_doubleword_and_inverse (selected by "
        "constant-evaluating the `if 0/elif 1` chain) are rounded to each format in exact rational arithmetic and checked: "
        "hi+lo approximates ln 2 to within half an ulp of lo, hi is short enough for k*hi to be exact for every admissible k, "
        "ln2/ln2inv/ln2half literals are the correctly rounded values; the reduction formula k=floor(x*ln2inv+1/2), r=x-k*hi, "
        "c=-k*lo is matched structurally. Reconstruction bounds on inputs are NOT decided."
    )
    r.trusted_base = ["Python ast", "ln 2 and 1/ln 2 to 100 digits", "struct rounding of literals to binary16/32"]
    r.rule("R17.1", "double-word ln2: |hi+lo-ln2| <= ulp(lo)/2 and hi leaves enough trailing zero bits for exact k*hi", floor=9)
    r.rule("R17.2", "reduction formula: k = floor(x*ln2inv + 1/2), r = x - k*ln2hi, c = -k*ln2lo; scalar constants correctly rounded", floor=5)

    f = repo.func(REL, "get_log2_doubleword_and_inverse")
    paths = [p for p in enumerate_paths(f) if p.exit == "return"]
    if not paths:
        raise AnalysisError("get_log2_doubleword_and_inverse: no returning path (all branches of the if-chain disabled?)")
    # all feasible paths must agree on the constants (hasattr branch only adds references)
    seen = None
    for p in paths:
        env = {}
        sel = {}
        scal = {}
        for e in p.events:
            if e.kind != "stmt" or not isinstance(e.node, ast.Assign) or not isinstance(e.node.targets[0], ast.Name):
                continue
            nm = e.node.targets[0].id
            v = e.node.value
            while isinstance(v, ast.Call) and isinstance(v.func, ast.Attribute) and v.func.attr == "reference":
                v = v.func.value
            if isinstance(v, ast.Call) and (call_name(v) or "").endswith("constant") and v.args:
                c = ev(v.args[0])
                if isinstance(c, (int, float)):
                    env[nm] = (c, v.args[0])
                    if nm in ("ln2", "ln2inv", "ln2half"):
                        scal[nm] = (c, v.args[0])
            elif isinstance(v, ast.Call) and (call_name(v) or "").endswith("select"):
                sw, why = dtype_switch(v)
                if sw is None:
                    r.ob("R17.1", f"{REL}::get_log2_doubleword_and_inverse {nm} dtype switch", False, why, loc(REL, e.node))
                    continue
                sel[nm] = {b: env.get(dotted(n)) for b, n in sw.items()}
        if "ln2hi" not in sel or "ln2lo" not in sel:
            raise AnalysisError("get_log2_doubleword_and_inverse: ln2hi/ln2lo selects not found")
        sig = {b: (sel["ln2hi"][b][0], sel["ln2lo"][b][0]) for b in BITS}
        if seen is not None and sig != seen:
            raise AnalysisError("paths through get_log2_doubleword_and_inverse disagree on the constants")
        if seen is not None:
            continue
        seen = sig
        for b in BITS:
            hi_lit, hi_node = sel["ln2hi"][b]
            lo_lit, lo_node = sel["ln2lo"][b]
            hi, lo = round_to(b, hi_lit), round_to(b, lo_lit)
            err = abs(hi + lo - LN2)
            bound = ulp(b, lo) / 2
            r.ob(
                "R17.1", f"{REL}::ln2 double-word float{b} accuracy", err <= bound and hi > 0 and lo > 0,
                f"float{b}: hi={hi_lit!r} lo={lo_lit!r}: |hi+lo-ln2| = {float(err):.3e} exceeds ulp(lo)/2 = {float(bound):.3e}", loc(REL, hi_node),
                sample=dict(rule="R17.1", bits=b, hi=hi_lit, lo=lo_lit, abs_err=float(err), half_ulp_lo=float(bound)),
            )
            sb = significant_bits(hi)
            need = KMAX[b].bit_length()
            r.ob(
                "R17.1", f"{REL}::ln2hi float{b} short enough for exact k*hi", sb + need <= PREC[b],
                f"float{b}: ln2hi={hi_lit!r} uses {sb} significand bits; with |k| <= {KMAX[b]} ({need} bits) the product k*hi needs {sb + need} > {PREC[b]} bits and is rounded",
                loc(REL, hi_node),
            )
            r.ob("R17.1", f"{REL}::ln2hi float{b} literal is exactly representable", round_to(b, hi_lit) == Fraction(hi_lit) if b == 64 else significant_bits(round_to(b, hi_lit)) <= PREC[b],
                 "", loc(REL, hi_node))
        # scalar constants
        want = {"ln2": LN2, "ln2inv": LN2INV, "ln2half": LN2 / 2}
        for nm, true in want.items():
            if nm not in scal:
                raise AnalysisError(f"get_log2_doubleword_and_inverse: constant {nm} not found")
            lit, node = scal[nm]
            for b in BITS:
                v = round_to(b, lit)
                ok = abs(v - true) <= ulp(b, true) / 2
                r.ob("R17.2", f"{REL}::{nm} float{b} correctly rounded", ok, f"{nm}={lit!r} rounds to {float(v)!r} in float{b}; |error| = {float(abs(v - true)):.3e} > half ulp", loc(REL, node))
    # return order
    ret = paths[0].exit_node.value
    names = [dotted(e) for e in ret.elts] if isinstance(ret, ast.Tuple) else []
    r.ob("R17.2", f"{REL}::get_log2_doubleword_and_inverse return order", names == ["ln2", "ln2hi", "ln2lo", "ln2inv", "ln2half"], f"returns {names}", loc(REL, ret))

    g = repo.func(REL, "argument_reduction_exponent")
    env = {}
    unpack = None
    for st in g.body:
        if isinstance(st, ast.Assign):
            t = st.targets[0]
            if isinstance(t, ast.Name):
                env[t.id] = norm_src(st.value)
            elif isinstance(t, ast.Tuple):
                unpack = ([dotted(e) for e in t.elts], norm_src(st.value))
    ok = unpack is not None and unpack[0] == ["ln2", "ln2hi", "ln2lo", "ln2inv", "ln2half"] and unpack[1].startswith("get_log2_doubleword_and_inverse(")
    r.ob("R17.2", f"{REL}::argument_reduction_exponent unpacks constants in order", ok, f"unpack is {unpack}", loc(REL, g))
    k_ok = env.get("k", "").replace(" ", "") in ("ctx.floor(x*ln2inv+half)", "ctx.floor(ln2inv*x+half)", "ctx.floor(half+x*ln2inv)")
    r.ob("R17.2", f"{REL}::argument_reduction_exponent k", k_ok and env.get("half", "").startswith("ctx.constant(0.5"), f"k = {env.get('k')}, half = {env.get('half')}", loc(REL, g))
    r_ok = env.get("r", "").replace(" ", "") in ("x-k*ln2hi", "x-ln2hi*k")
    c_ok = env.get("c", "").replace(" ", "") in ("-k*ln2lo", "-(k*ln2lo)", "-ln2lo*k", "-(ln2lo*k)")
    r.ob("R17.2", f"{REL}::argument_reduction_exponent r = x - k*ln2hi", r_ok, f"r = {env.get('r')}", loc(REL, g))
    r.ob("R17.2", f"{REL}::argument_reduction_exponent c = -k*ln2lo", c_ok, f"c = {env.get('c')}", loc(REL, g))
    rets = [n for n in ast.walk(g) if isinstance(n, ast.Return)]
    r.ob("R17.2", f"{REL}::argument_reduction_exponent returns (k, r, c)", len(rets) == 1 and norm_src(rets[0].value) in ("(k, r, c)", "k, r, c"), f"returns {norm_src(rets[0].value) if rets else None}", loc(REL, g))
    return r
