"""C17 — argument reduction: exponential reduction decided by k-partition (R17.2, R17.5); trigonometric last step and shortcut (R17.3, R17.4)."""

from __future__ import annotations

import ast
from fractions import Fraction

from sa.core import AnalysisError, Report, loc, norm_src
from sa.consteval import ev
from sa.paths import enumerate_paths, dotted, call_name
from sa.numconst import BITS, PREC, LN2, LN2INV, round_to, ulp, significant_bits, dtype_switch, LARGEST

REL = "floating_point_algorithms.py"
# |k| <= log(largest)/ln 2 plus the subnormal range when x comes from a log-range; generous bounds
KMAX = {64: 1075, 32: 150, 16: 25}


def check_trig_recombination(r, repo, rule="R17.3"):
    """Trigonometric reduction, last step: under exact-arithmetic semantics - every + and * exact, the 2Sum pair (s, e)
    summarised by its contract e = a + b - s - the returned double-word remainder r + t equals (y + t) * (P_hi + P_lo), where
    (k, y, t) is the result of the multiword product modulo 4 and (P_hi, P_lo) the double-word pi/2.  A wrong sign or a
    dropped term in the recombination breaks the polynomial identity.  The body is interpreted by sa/absint.py on exact
    polynomials; nothing numeric is evaluated."""
    from sa.absint import Interp, Closure, Unsupported as IUnsupported, PyRaise
    from rules.C12 import Poly

    class Cond:
        __absint_host__ = True

        def __init__(self, op, a, b):
            self.op, self.a, self.b = op, a, b

        def __repr__(self):
            return f"{self.a!r} {self.op} {self.b!r}"

    class RV(Poly):
        __absint_host__ = True

        def __abs__(self):
            return RV({("|" + repr(self) + "|",): 1})

        def _mk(op):
            def f(self, o):
                return Cond(op, self, o)
            return f

        __lt__, __le__, __gt__, __ge__ = _mk("<"), _mk("<="), _mk(">"), _mk(">=")

        def __hash__(self):
            return id(self)

    def lift(p):
        return RV(p.t) if isinstance(p, Poly) and not isinstance(p, RV) else p

    class Ctx:
        __absint_host__ = True

        def constant(self, v, like=None):
            from fractions import Fraction
            if isinstance(v, RV):
                return v
            return RV({(): Fraction(v)}) if isinstance(v, (int, float)) else RV({(f"const:{v}",): 1})

        def select(self, c, a, b):
            # the reduction proper is the arm taken when |x| is not small; the other arm returns x itself
            selects.append((c, a, b))
            return b

    selects = []
    g = repo.func(REL, "argument_reduction_trigonometric_impl")
    params = [a.arg for a in g.args.args]
    if len(params) != 3:
        raise AnalysisError("argument_reduction_trigonometric_impl: expected parameters (ctx, dtype, x)")
    K, Y, Tt, PH, PL = (RV({(n,): 1}) for n in ("k", "y", "t", "P_hi", "P_lo"))
    fresh = [0]

    def add_2sum(ctx, a, b, *rest, **kw):
        fresh[0] += 1
        s_ = RV({(f"s{fresh[0]}",): 1})
        return (s_, lift(a + b - s_))

    I = Interp(repo)
    I.globals_cache[(REL, "add_2sum")] = add_2sum
    W = [RV({(f"W{i}",): 1}) for i in range(3)]
    split_args, mul_args = [], []

    def split_tripleword(ctx, x, **kw):
        split_args.append(x)
        return ("x_tw",)

    def mul_mw_mod4(ctx, a, b, **kw):
        mul_args.append((a, list(b) if isinstance(b, (list, tuple)) else b))
        return (K, Y, Tt)

    I.globals_cache[(REL, "split_tripleword")] = split_tripleword
    I.globals_cache[(REL, "mul_mw_mod4")] = mul_mw_mod4
    I.ext_calls = {
        "functional_algorithms.utils.get_two_over_pi_multiword": lambda *a, **k: list(W),
        "functional_algorithms.utils.get_pi_over_two_multiword": lambda *a, **k: [PH, PL],
    }
    from sa.absint import ModRef
    env_dtype = ModRef("ext", "numpy.float64")
    try:
        out = I.call(Closure(g, {}, I, REL, bound_self=None), [Ctx(), env_dtype, RV({("x",): 1})])
    except (IUnsupported, PyRaise, TypeError) as e:
        raise AnalysisError(f"argument_reduction_trigonometric_impl is not interpretable: {getattr(e, 'what', e)}")
    if not (isinstance(out, tuple) and len(out) == 3):
        raise AnalysisError(f"argument_reduction_trigonometric_impl returns {out!r}, expected (k, r, t)")
    k_, r_, t_ = out
    ok_k = isinstance(k_, Poly) and k_ == K
    r.ob(rule, f"{REL}::argument_reduction_trigonometric_impl returns the quadrant of the multiword product", ok_k, f"first result is {k_!r}", loc(REL, g))
    ok_args = (
        len(mul_args) == 1 and mul_args[0][0] == ("x_tw",) and len(split_args) == 1 and isinstance(split_args[0], Poly) and Poly.__eq__(split_args[0], RV({("x",): 1}))
        and isinstance(mul_args[0][1], list) and len(mul_args[0][1]) == len(W) and all(isinstance(b_, Poly) and Poly.__eq__(b_, w_) for b_, w_ in zip(mul_args[0][1], W))
    )
    r.ob(rule, f"{REL}::argument_reduction_trigonometric_impl multiplies the triple-word split of x by every word of the multiword 2/pi, in order", ok_args,
         f"mul_mw_mod4 is applied to {mul_args!r}; split_tripleword is applied to {split_args!r}; expected the split of x and the words {W!r}", loc(REL, g))
    try:
        total = r_ + t_
        want = (Y + Tt) * (PH + PL)
        ok = total == want
        detail = f"r + t = {total!r}; expected (y + t) * (P_hi + P_lo) = {want!r}" + ("" if ok else f"; difference {total - want!r}")
    except TypeError as e:
        ok, detail = False, str(e)
    r.ob(rule, f"{REL}::argument_reduction_trigonometric_impl remainder r + t == (y + t) * pi/2 (exact-arithmetic identity)", ok, detail, loc(REL, g))
    # R17.4: the shortcut that returns x itself (k is still the genuine quadrant) is sound only for |x| below the first octant
    # boundary, on both sides of zero: its guard must be a test of |x| against (head word of pi/2) / 2
    from fractions import Fraction
    X = RV({("x",): 1})
    absx = abs(X)
    shortcuts = [(c, a, b) for c, a, b in selects if isinstance(a, Poly) and (Poly.__eq__(a, X) or not a.t)]
    if len(shortcuts) < 2:
        raise AnalysisError("argument_reduction_trigonometric_impl: the small-argument selections of r and t were not found")
    absatom = next(iter(absx.t))[0]

    def ratio(pl, atom):
        """pl == q * atom -> q, else None"""
        if isinstance(pl, Poly) and list(pl.t) == [(atom,)]:
            return pl.t[(atom,)]
        return None

    for c, a, b in shortcuts:
        which = "r = x" if a.t else "t = 0"
        key = f"{REL}::argument_reduction_trigonometric_impl shortcut `{which}` guarded by |x| <= (pi/2 head word) / 2"
        if not isinstance(c, Cond):
            raise AnalysisError(f"argument_reduction_trigonometric_impl: the guard of `{which}` is not a comparison ({c!r})")
        op, lhs, rhs = c.op, c.a, c.b
        if op in (">", ">="):
            op, lhs, rhs = {">": "<", ">=": "<="}[op], rhs, lhs
        atoms = {a_ for side in (lhs, rhs) if isinstance(side, Poly) for mon in side.t for a_ in mon}
        if "x" in atoms and absatom not in atoms:
            r.ob("R17.4", key, False,
                 f"the shortcut `{which}` is taken when `{lhs!r} {op} {rhs!r}`, a test of x itself, not of |x|: every negative argument takes the "
                 "shortcut and gets r = x together with the quadrant k of the genuine reduction", loc(REL, g))
            continue
        qa = ratio(lhs, absatom)
        # the bound may use the head word alone or the double word: b_hi * P_hi + b_lo * P_lo (P_lo is below an ulp of P_hi)
        qb = qlo = None
        if isinstance(rhs, Poly) and set(rhs.t) <= {("P_hi",), ("P_lo",)} and ("P_hi",) in rhs.t:
            qb, qlo = rhs.t[("P_hi",)], rhs.t.get(("P_lo",), 0)
        if qa is None or qb is None or qa <= 0:
            raise AnalysisError(f"argument_reduction_trigonometric_impl: guard `{lhs!r} {op} {rhs!r}` of `{which}` is not of the form a*|x| < b*P_hi (+ b'*P_lo)")
        cfac, clo = Fraction(qb) / Fraction(qa), Fraction(qlo) / Fraction(qa)
        ok4 = 0 < cfac <= Fraction(1, 2) and 0 <= clo <= Fraction(1, 2)
        r.ob("R17.4", key, ok4,
             f"the shortcut `{which}` is taken for |x| < {cfac} * P_hi" + (f" + {clo} * P_lo" if clo else "") + ": beyond pi/4 the genuine reduction has k != 0, so "
             "r = x (or t = 0: the low word of the remainder, which carries it next to a multiple of pi/2) is returned where the reduction proper is needed",
             loc(REL, g))


def check_exponent_bounds(r, b, hi, lo, inv, where, rule="R17.5"):
    """Derive the two numeric claims of the exponential reduction for one format from the verified dataflow
    (k = floor(fl(fl(x*INV) + 1/2)), r = fl(x - k*HI), c = -fl(k*LO)) by partitioning the domain by the value of k.

    For a fixed integer k the set of inputs that produce it is confined by monotonicity of rounding:
      fl(t) < k + 1  =>  t < k + 1            (k + 1 is a float)        =>  fl(q) < k + 1/2  =>  q < k + 1/2,
      fl(t) >= k     =>  t >= k - u|k|        (half the gap below k)    =>  fl(q) >= B = k - 1/2 - u|k|  =>  q >= B - 2u|B| - tiny,
    with q = x*INV exactly.  On that interval: k*HI is exact when the significands of k and HI fit in p bits (else one rounding is charged), the subtraction is exact
    by Sterbenz when fl(k*HI)/2 <= x <= 2 fl(k*HI) (else one rounding u|r| is charged), c = -k*LO*(1+d), |d| <= u (plus half a subnormal quantum when it can underflow).  All arithmetic is
    exact rational; the claim is checked for every k the domain |x| < log(largest) admits."""
    from sa.numconst import EMAX, EMIN
    p = PREC[b]
    u = Fraction(1, 2 ** p)
    tiny = Fraction(2) ** (EMIN[b] - p + 1)
    L2 = hi + lo
    xdom = (EMAX[b] + 1) * LN2  # log(largest) < (emax + 1) ln 2
    kdom = int(xdom * inv * (1 + 2 * u) + Fraction(1, 2)) + 1
    bound_rc = Fraction(55, 100) * LN2
    worst_rc, worst_rec, nk, nster = (Fraction(0), None), (Fraction(0), None), 0, 0
    fails = []
    if inv <= 0:
        fails.append(f"the multiplier {float(inv)!r} is not positive: k does not follow x")
        kdom = -1
    elif 2 * kdom + 1 >= 2 ** p:
        fails.append(f"k ranges up to {kdom}: k + 1/2 is not a float{b} number")
        kdom = -1
    nprod = 0
    for k in range(-kdom, kdom + 1):
        B = k - Fraction(1, 2) - u * abs(k)
        q_lo = B - 2 * u * abs(B) - tiny
        q_hi = k + Fraction(1, 2)
        x_lo, x_hi = max(q_lo / inv, -xdom), min(q_hi / inv, xdom)
        if x_lo > x_hi:
            continue
        nk += 1
        if k == 0:
            r_err = c_err = Fraction(0)  # r = x - 0, c = -0
        else:
            # the product k*HI: exact when the significands fit, else one rounding
            if significant_bits(hi) + abs(k).bit_length() <= p:
                p_err = Fraction(0)
                nprod += 1
            else:
                p_err = u * abs(k * hi)
            m_lo, m_hi = k * hi - p_err, k * hi + p_err  # the float fl(k*HI) lies here
            # Sterbenz: y/2 <= x <= 2y for floats x, y of one sign makes x - y exact
            if (x_lo > 0 and m_lo > 0 and m_hi / 2 <= x_lo and x_hi <= 2 * m_lo) or (x_hi < 0 and m_hi < 0 and -m_lo / 2 <= -x_hi and -x_lo <= -2 * m_hi):
                r_err = p_err
                nster += 1
            else:
                r_err = p_err + u * (max(abs(x_lo - m_hi), abs(x_hi - m_lo), abs(x_lo - m_lo), abs(x_hi - m_hi)))
            c_err = u * abs(k * lo) + (tiny / 2 if abs(k * lo) * (1 - u) < Fraction(2) ** EMIN[b] else 0)
        rc_lo = x_lo - k * L2 - c_err - r_err
        rc_hi = x_hi - k * L2 + c_err + r_err
        m = max(abs(rc_lo), abs(rc_hi))
        if m > worst_rc[0]:
            worst_rc = (m, k)
        if m > bound_rc:
            fails.append(f"k={k}: |r + c| can reach {float(m):.6g} > 0.55 ln 2 = {float(bound_rc):.6g} for x in [{float(x_lo)!r}, {float(x_hi)!r}]")
        rec = abs(k) * abs(LN2 - L2) + c_err + r_err
        xmin = 0 if x_lo <= 0 <= x_hi else min(abs(x_lo), abs(x_hi))
        ux = ulp(b, xmin) if xmin else tiny
        ratio = rec / ux
        if ratio > worst_rec[0]:
            worst_rec = (ratio, k)
        if rec > ux:
            fails.append(f"k={k}: |k ln2 + (r + c) - x| can reach {float(rec):.3e} > ulp(x) = {float(ux):.3e} at |x| = {float(xmin)!r}")
    r.ob(
        rule, f"{REL}::argument_reduction_exponent float{b}: |r + c| <= 0.55 ln 2 and reconstruction within 1 ulp of x, for every k", not fails,
        f"float{b}: " + "; ".join(fails[:3]) + (f" (and {len(fails) - 3} more k)" if len(fails) > 3 else ""), where,
        sample=dict(rule=rule, bits=b, hi=float(hi), lo=float(lo), inv=float(inv), abs_err_hi_plus_lo=float(abs(L2 - LN2)), hi_significand_bits=significant_bits(hi), k_values=nk, k_range=[-kdom, kdom], subtraction_exact_by_sterbenz=nster, product_exact=nprod,
                    max_abs_r_plus_c=float(worst_rc[0]), at_k=worst_rc[1], bound=float(bound_rc),
                    max_reconstruction_error_in_ulp_of_x=float(worst_rec[0]), at_k_rec=worst_rec[1]),
    )


def check_product_mod4(r, repo, rule="R17.6", ylens=(1, 2, 4)):
    """Trigonometric reduction, the multiword product modulo 4: mul_mw_mod4(x, y) is interpreted (sa/absint.py) on symbolic words
    under exact-arithmetic semantics - + - * exact polynomials, the 2Sum pair summarised by its contract, trunc(.) and round(.)
    fresh *integer* unknowns, `K % 4` = K - 4m with m a fresh integer.  The three results must satisfy
        k + r + rest  ==  sum_ij x_i*y_j  -  4 * (an integer combination of the integer unknowns),
    the first result must be a value reduced modulo 4 (that is what confines it to {0, 1, 2, 3}), and the second must be
    `total - round(total)` (that is what confines the fractional part to [-1/2, 1/2]).  A partial product that is skipped or
    counted twice, an error term of a 2Sum that is dropped, or a multiple-of-4 removal that is not a multiple of 4 breaks it."""
    from sa.absint import Interp, Closure, Unsupported as IUnsupported, PyRaise
    from rules.C12 import Poly

    g = repo.func(REL, "mul_mw_mod4")
    for ny in ylens:
        fresh = [0]
        ints, mods, rounds = set(), [], []

        class RV(Poly):
            __absint_host__ = True

            def __float__(self):
                return float("nan")

            def __hash__(self):
                return id(self)

            def __mod__(self, o):
                o = Poly.lift(o)
                if o is None or set(o.t) != {()}:
                    return NotImplemented
                fresh[0] += 1
                nm = f"m{fresh[0]}"
                ints.add(nm)
                out = lift(self - RV({(nm,): o.t[()]}))
                mods.append((out, self, o.t[()]))
                return out

        def lift(p_):
            return RV(p_.t) if isinstance(p_, Poly) and not isinstance(p_, RV) else p_

        def newint(prefix):
            fresh[0] += 1
            nm = f"{prefix}{fresh[0]}"
            ints.add(nm)
            return RV({(nm,): Fraction(1)})

        class Ctx:
            __absint_host__ = True

            def constant(self, v, like=None):
                return v if isinstance(v, RV) else RV({(): Fraction(v)})

            def trunc(self, v):
                return newint("n")

            def round(self, v):
                k_ = newint("K")
                rounds.append((k_, v))
                return k_

        def add_2sum(ctx, a, b, *rest, **kw):
            fresh[0] += 1
            s_ = RV({(f"s{fresh[0]}",): Fraction(1)})
            return (s_, lift(Poly.lift(a) + Poly.lift(b) - s_))

        I = Interp(repo)
        I.globals_cache[(REL, "add_2sum")] = add_2sum
        xs = [RV({(f"x{i}",): Fraction(1)}) for i in range(3)]
        ys = [RV({(f"y{j}",): Fraction(1)}) for j in range(ny)]
        try:
            out = I.call(Closure(g, {}, I, REL, bound_self=None), [Ctx(), list(xs), list(ys)])
        except (IUnsupported, PyRaise, TypeError) as e:
            raise AnalysisError(f"mul_mw_mod4 is not interpretable: {getattr(e, 'what', e)}")
        if not (isinstance(out, tuple) and len(out) == 3 and all(isinstance(o, Poly) for o in out)):
            raise AnalysisError(f"mul_mw_mod4 returns {out!r}, expected (k, r, rest)")
        k_, y_, rest_ = out
        want = Poly({})
        for a in xs:
            for b_ in ys:
                want = want + a * b_
        diff = want - (k_ + y_ + rest_)
        bad = {mon: c for mon, c in diff.t.items() if not (len(mon) == 1 and mon[0] in ints and Fraction(c) % 4 == 0)}
        r.ob(rule, f"{REL}::mul_mw_mod4 [3 x {ny} words] k + r + rest == sum of all partial products modulo 4", not bad,
             f"sum x_i*y_j - (k + r + rest) = {diff!r}: the terms {Poly(bad)!r} are not multiples of 4 of integer unknowns ({sorted(ints)})", loc(REL, g),
             sample=dict(rule=rule, words=[3, ny], partial_products=3 * ny, integer_unknowns=len(ints)))
        is_mod = any(o is k_ or Poly.__eq__(o, k_) for o, _, m in mods if m == 4)
        r.ob(rule, f"{REL}::mul_mw_mod4 [3 x {ny} words] the quadrant is reduced modulo 4", is_mod,
             f"the first result is {k_!r}, not a value of the form (integer) % 4: it can leave {{0, 1, 2, 3}}", loc(REL, g))
        is_frac = any(Poly.__eq__(y_, Poly.lift(v) - kk) for kk, v in rounds)
        r.ob(rule, f"{REL}::mul_mw_mod4 [3 x {ny} words] the fraction is total - round(total)", is_frac,
             f"the second result is {y_!r}, not `v - round(v)` for a rounded v: it is not confined to [-1/2, 1/2]", loc(REL, g))


def _dtype_table(node, bits):
    """value selected by `{numpy.float16: a, numpy.float32: b, numpy.float64: c}[<dtype>]` for one format, else None"""
    if isinstance(node, ast.Subscript) and isinstance(node.value, ast.Dict):
        for k, v in zip(node.value.keys, node.value.values):
            if k is not None and (dotted(k) or "").split(".")[-1] == f"float{bits}":
                val = ev(v, {})
                return val if isinstance(val, int) and not isinstance(val, bool) else None
    return None


def _single_assignment(func, name):
    hits = [st for st in ast.walk(func) if isinstance(st, ast.Assign) and len(st.targets) == 1 and isinstance(st.targets[0], ast.Name) and st.targets[0].id == name]
    return hits[0].value if len(hits) == 1 else None


def check_partial_products_exact(r, repo, c1_for, rule="R17.7"):
    """Cross-module agreement behind the exact-arithmetic reading of R17.6: the words of the triple-word split of x and the
    words of the multiword 2/pi must be short enough for every partial product x_i * w_j to be a float.  A Veltkamp split with
    C = 2^s + 1 leaves a head word of p - s bits and a tail of at most s bits (which the second split only shortens); the
    multiword 2/pi is cut into words of `prec` bits by utils.mpf2multiword (R13.5).  So p - s + prec <= p and s + prec <= p."""
    UT = "utils.py"
    g = repo.func(REL, "argument_reduction_trigonometric_impl")
    f = repo.func(UT, "get_two_over_pi_multiword")
    params = [a.arg for a in f.args.args]
    # the word length handed to mpf2multiword inside the getter
    calls = [c for c in ast.walk(f) if isinstance(c, ast.Call) and (call_name(c) or "").split(".")[-1] == "mpf2multiword"]
    if len(calls) != 1:
        raise AnalysisError("utils.get_two_over_pi_multiword: expected one call of mpf2multiword")
    parg = next((k.value for k in calls[0].keywords if k.arg == "p"), calls[0].args[2] if len(calls[0].args) > 2 else None)
    if not (isinstance(parg, ast.Name) and parg.id in params):
        raise AnalysisError("utils.get_two_over_pi_multiword: the word length passed to mpf2multiword is not the function's own parameter")
    pname, ppos = parg.id, params.index(parg.id)
    default = _single_assignment(f, pname)
    # the call site in the reduction: does it pass a word length of its own?
    sites = [c for c in ast.walk(g) if isinstance(c, ast.Call) and (call_name(c) or "").split(".")[-1] == "get_two_over_pi_multiword"]
    if len(sites) != 1:
        raise AnalysisError("argument_reduction_trigonometric_impl: expected one call of get_two_over_pi_multiword")
    site = sites[0]
    passed = next((k.value for k in site.keywords if k.arg == pname), site.args[ppos] if len(site.args) > ppos else None)
    if passed is not None and isinstance(passed, ast.Constant) and passed.value is None:
        passed = None
    for b in BITS:
        if passed is None:
            prec = _dtype_table(default, b) if default is not None else None
            src = "the getter's default table"
        else:
            node = passed
            if isinstance(node, ast.Name):
                node = _single_assignment(g, node.id)
            prec = (node.value if isinstance(node, ast.Constant) and isinstance(node.value, int) else _dtype_table(node, b)) if node is not None else None
            src = "the reduction's own argument"
        if prec is None:
            raise AnalysisError(f"word length of the multiword 2/pi for float{b} is not a per-format table entry ({src})")
        c1 = c1_for(b)
        sbits = (c1 - 1).bit_length() - 1 if c1 == int(c1) and c1 > 1 else None
        if sbits is None or 2 ** sbits + 1 != c1:
            raise AnalysisError(f"tripleword splitter constant for float{b} is {c1!r}, not of the form 2^s + 1")
        pp = PREC[b]
        head, tail = pp - sbits, sbits
        ok = head + prec <= pp and tail + prec <= pp
        r.ob(rule, f"{REL}::argument_reduction_trigonometric_impl float{b}: partial products of the split of x and the multiword 2/pi are exact", ok,
             f"float{b}: the first split constant 2^{sbits} + 1 leaves words of {head} and <= {tail} bits; words of 2/pi have {prec} bits ({src}); "
             f"a product needs up to {max(head, tail) + prec} > {pp} bits and is rounded, its error is lost to the reduction", loc(REL, g),
             sample=dict(rule=rule, bits=b, split_at=sbits, head_bits=head, tail_bits=tail, two_over_pi_word_bits=prec, source=src))


def check_two_over_pi_budget(r, repo, rule="R17.8"):
    """Trigonometric reduction, truncation budget of the multiword 2/pi.  get_two_over_pi_multiword evaluates 2/pi at a working
    precision of `max_prec` bits (a per-format table) before it is cut into words, and no word of the format can carry a bit
    below the smallest subnormal: the reduction multiplies x by T_m = 2/pi rounded to m = min(max_prec, -log2(smallest subnormal))
    bits.  The product is otherwise exact (R17.6, R17.7), so x*(2/pi - T_m) goes straight into the remainder: an argument whose
    remainder has c leading zero bits needs it below one ulp of that remainder (10 ulp in float16).  Decided in exact rational
    arithmetic on frozen witness arguments of graded cancellation inside the stated domain (sa/oracles/trig_witness.py; on these
    the term agrees with the measured error of the real function to within half an ulp): per format and binade, every witness
    must keep |x*(2/pi - T_m)| * pi/2 <= (tol + 1) * ulp(remainder)."""
    from sa.oracles.trig_witness import TWO_OVER_PI as T, WITNESSES, DOMAIN_J
    from sa.numconst import EMIN, EMAX

    UT = "utils.py"
    f = repo.func(UT, "get_two_over_pi_multiword")
    withs = [w for w in ast.walk(f) if isinstance(w, ast.With)]
    wp = [it.context_expr for w in withs for it in w.items if isinstance(it.context_expr, ast.Call) and (call_name(it.context_expr) or "").endswith("workprec")]
    if len(wp) != 1 or len(wp[0].args) != 1:
        raise AnalysisError("utils.get_two_over_pi_multiword: `with ctx.workprec(<bits>)` not found")
    inside = [c for c in ast.walk(withs[0]) if isinstance(c, ast.Call) and (call_name(c) or "").split(".")[-1] == "mpf2multiword"]
    if not inside:
        raise AnalysisError("utils.get_two_over_pi_multiword: 2/pi is not cut into words inside the working-precision block")
    arg = wp[0].args[0]
    node = _single_assignment(f, arg.id) if isinstance(arg, ast.Name) else arg
    for b in BITS:
        mp_ = node.value if isinstance(node, ast.Constant) and isinstance(node.value, int) else _dtype_table(node, b) if node is not None else None
        if mp_ is None:
            raise AnalysisError(f"utils.get_two_over_pi_multiword: working precision for float{b} is not a per-format table entry")
        pp = PREC[b]
        finest = -(EMIN[b] - pp + 1)
        m_eff = min(mp_, finest)
        Tm = Fraction(round(T * 2 ** m_eff), 2 ** m_eff)
        tail = abs(T - Tm)
        tol = 10 if b == 16 else 1
        by_binade = {}
        for e, c, m in WITNESSES[b]:
            if e + 1 > EMAX[b] + 1 - DOMAIN_J[b]:
                continue
            x = Fraction(m) * Fraction(2) ** (e - (pp - 1))
            y = x * T
            d = y - round(y)
            rem = abs(d) / T  # |remainder| = |d| * pi/2
            err = x * tail / T / ulp(b, rem)
            by_binade.setdefault(e, []).append((c, err, m))
        for e, rows in sorted(by_binade.items()):
            bad = sorted((c, err, m) for c, err, m in rows if err > tol + 1)
            worst = max(rows, key=lambda t: t[1])
            if bad:
                c0, err0, m0 = bad[0]
                key = f"{UT}::get_two_over_pi_multiword float{b} arguments in [2^{e}, 2^{e + 1}): the bound is lost from {c0} bits of cancellation"
                detail = (f"2/pi is evaluated at {mp_} bits ({m_eff} usable in float{b}); for x = {m0} * 2^{e - (pp - 1)} (x * 2/pi within 2^-{c0} of an integer) the neglected tail "
                          f"alone moves the remainder by {float(err0):.3g} ulp (allowed {tol}); {len(bad)} of {len(rows)} witnesses of this binade fail, the worst by {float(worst[1]):.3g} ulp")
            else:
                key = f"{UT}::get_two_over_pi_multiword float{b} arguments in [2^{e}, 2^{e + 1}): the bound is kept on every witness"
                detail = ""
            r.ob(rule, key, not bad, detail, loc(UT, wp[0]),
                 sample=dict(rule=rule, bits=b, binade=e, working_precision=mp_, usable_bits=m_eff, witnesses=len(rows), failing=len(bad),
                             worst_truncation_error_ulp=float(worst[1]), at_cancellation_bits=worst[0]))


def run(repo, tier):
    r = Report("C17", tier, repo, level="other", design_ref="§3/C17")
    r.explanation = (
        "The exponential reduction is decided for every input: the dataflow of argument_reduction_exponent is extracted and matched "
        "against k = floor(x*INV + 1/2), r = x - k*HI, c = -(k*LO) (R17.2); the constants that occupy INV/HI/LO are resolved per format "
        "(`if 0/elif 1` chain folded, dtype switch on `largest` evaluated) and rounded exactly; then, for every integer k the domain "
        "|x| < log(largest) admits, the set of x producing that k is enclosed using monotonicity of rounding, and |r + c| <= 0.55 ln 2 "
        "and |k ln 2 + (r + c) - x| <= ulp(x) are checked in exact rational arithmetic (R17.5). Trigonometric reduction: only the last "
        "step (R17.3) and the shortcut guard (R17.4) are decided; its numeric bound (a Payne-Hanek product with a multiword 2/pi) is not."
    )
    r.trusted_base = ["Python ast", "ln 2 to 100 digits", "struct rounding of literals to binary16/32", "sa/kernels.py extraction, sa/absint.py interpretation"]
    r.assumptions = [
        "every operation of the reduction is one IEEE-754 operation in the format of x, rounded to nearest (monotone), without flush-to-zero; floor/trunc/round are exact",
        "R17.3/R17.6: identities hold under exact-arithmetic semantics of + - *; R17.7 discharges exactness for the partial products only",
        "the words of the multiword 2/pi have at most `prec` significant bits (R13.5 decides the slicing in utils.mpf2multiword)",
    ]
    r.rule("R17.3", "trigonometric reduction: the returned double-word remainder equals (y + t) * (pi/2 double-word) as an exact-arithmetic polynomial identity (2Sum summarised by its contract); the product modulo 4 is applied to the split of x and the whole multiword 2/pi", floor=3)
    r.rule("R17.4", "trigonometric reduction: the no-reduction shortcut (r = x, t = 0) is guarded by |x| < (head word of pi/2) / 2, symmetric in the sign of x", floor=2)
    r.rule("R17.5", "exponential reduction, derived per format by partitioning the domain by k (exact rational bounds from monotone rounding, Sterbenz, one rounding of k*ln2lo): |r + c| <= 0.55 ln 2 and |k ln2 + (r + c) - x| <= ulp(x) for every admissible x", floor=3)
    r.rule("R17.6", "trigonometric reduction, multiword product modulo 4 (exact-arithmetic identity on symbolic words, 2Sum by contract, trunc/round as integer unknowns): k + r + rest == sum of all partial products minus a multiple of 4; k is reduced modulo 4; r = total - round(total)", floor=9)
    r.rule("R17.7", "trigonometric reduction, premise of R17.6: per format, (bits of a word of the triple-word split of x) + (bits of a word of the multiword 2/pi) <= p, so every partial product is exact; the word lengths are read from the splitter constants and from the table that reaches mpf2multiword", floor=3)
    r.rule("R17.8", "trigonometric reduction, truncation budget: with 2/pi rounded to the bits the getter evaluates (and the format can hold), the neglected tail times x stays within the tolerance in ulp of the remainder on every frozen witness argument of the stated domain, per format and binade (exact rational arithmetic)", floor=9)
    r.rule("R17.2", "reduction formula (dataflow): k = floor(x*INV + 1/2), r = x - k*HI, c = -k*LO with one constant in each place", floor=3)

    from sa.kernels import Extractor, IN, CONST, normal as knf, show, lift, is_term, Unsupported as KUnsupported

    ex = Extractor(repo)
    x = IN("x")
    g = repo.func(REL, "argument_reduction_exponent")
    try:
        got = ex.call(REL, "argument_reduction_exponent", [("opaque", "ctx"), x], {})
    except KUnsupported as e:
        raise AnalysisError(f"argument_reduction_exponent: dataflow not understood: {e}")
    if not (isinstance(got, (tuple, list)) and not is_term(got) and len(got) == 3):
        raise AnalysisError(f"argument_reduction_exponent: expected a 3-tuple (k, r, c), got {got!r}")
    kt, rt, ct = (lift(t) for t in got)

    def subterms(t, out):
        if is_term(t):
            out.append(t)
            for a in t[1:]:
                if isinstance(a, tuple):
                    subterms(a, out)
        return out

    def replace(t, old, new_):
        if t == old:
            return new_
        if is_term(t):
            return tuple(replace(a, old, new_) if isinstance(a, tuple) else a for a in t)
        return t

    def top_constants(t):
        """maximal sub-terms built only from constants and selects on `largest` (the dtype switch)"""
        out = []

        def pure(u):
            return all(v[0] in ("const", "select", "cmp") for v in subterms(u, []))

        def walk(u):
            if is_term(u) and u[0] in ("const", "select") and pure(u):
                out.append(u)
                return
            if is_term(u):
                for a in u[1:]:
                    if isinstance(a, tuple):
                        walk(a)

        walk(t)
        return out

    # ---- k = floor(x * INV + 1/2)
    consts = [c for c in top_constants(kt) if c != ("const", "0.5")]
    if len(consts) != 1:
        r.ob("R17.2", f"{REL}::argument_reduction_exponent k", False, f"k = {show(kt)}: not of the form floor(x * ln2inv + 1/2)", loc(REL, g))
        INV = None
    else:
        INV = consts[0]
        want_k = ("fn", "floor", ("op", "+", ("op", "*", x, INV), ("const", "0.5")))
        r.ob("R17.2", f"{REL}::argument_reduction_exponent k", knf(kt) == knf(want_k), f"k = {show(kt)}; expected floor(x * ln2inv + 1/2)", loc(REL, g))
    K = IN("k")
    r2, c2 = replace(rt, kt, K), replace(ct, kt, K)
    hi_c = top_constants(r2)
    lo_c = top_constants(c2)
    HI = hi_c[0] if len(hi_c) == 1 else None
    LO = lo_c[0] if len(lo_c) == 1 else None
    ok_r = HI is not None and knf(r2) == knf(("op", "-", x, ("op", "*", K, HI)))
    ok_c = LO is not None and knf(c2) == knf(("neg", ("op", "*", K, LO)))
    r.ob("R17.2", f"{REL}::argument_reduction_exponent r = x - k*ln2hi", ok_r, f"r = {show(r2)[:300]} (k stands for the first result)", loc(REL, g))
    r.ob("R17.2", f"{REL}::argument_reduction_exponent c = -k*ln2lo", ok_c, f"c = {show(c2)[:300]} (k stands for the first result)", loc(REL, g))

    def value_for(term, b):
        """numeric literal selected for format b by a dtype switch on `largest`"""
        t = term
        while t[0] == "select":
            cnd = t[1]
            if not (cnd[0] == "cmp" and cnd[2] == ("const", "largest") and cnd[3][0] == "const"):
                raise AnalysisError(f"dtype switch condition not understood: {show(cnd)}")
            thr = float(cnd[3][1])
            lhs = float(LARGEST[b])
            truth = {">": lhs > thr, ">=": lhs >= thr, "<": lhs < thr, "<=": lhs <= thr}[cnd[1]]
            t = t[2] if truth else t[3]
        if t[0] != "const":
            raise AnalysisError(f"constant expected, got {show(t)}")
        return float(t[1])

    if HI is not None and LO is not None and INV is not None and ok_r and ok_c:
        for b in BITS:
            check_exponent_bounds(r, b, round_to(b, value_for(HI, b)), round_to(b, value_for(LO, b)), round_to(b, value_for(INV, b)), loc(REL, g))
    check_trig_recombination(r, repo)
    check_product_mod4(r, repo)
    check_two_over_pi_budget(r, repo)
    try:
        c12 = ex.call(REL, "get_tripleword_splitter_constants", [("opaque", "ctx"), CONST("largest")], {})
    except KUnsupported as e:
        raise AnalysisError(f"get_tripleword_splitter_constants: {e}")
    if is_term(c12) or len(c12) != 2:
        raise AnalysisError("get_tripleword_splitter_constants: expected (C1, C2)")
    check_partial_products_exact(r, repo, lambda b: int(value_for(lift(c12[0]), b)))
    return r
