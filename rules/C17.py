"""C17 (thin) — double-word ln 2 constants of argument_reduction_exponent.  Rule R17.1/R17.2."""

from __future__ import annotations

import ast
from fractions import Fraction

from sa.core import AnalysisError, Report, loc, norm_src
from sa.consteval import ev
from sa.paths import enumerate_paths, dotted, call_name
from sa.numconst import BITS, PREC, LN2, LN2INV, round_to, ulp, significant_bits, dtype_switch, LARGEST

REL = "floating_point_algorithms.py"
# |k| <= log(largest)/ln 2 plus the subnormal range when x comes from a log-range; generous bounds
KMAX = {64: 1075, 32: 150, 16: 25}


def check_trig_recombination(r, repo, rule="R17.3"):
    """Trigonometric reduction, last step: under exact-arithmetic semantics - every + and * exact, the 2Sum pair (s, e)
    summarised by its contract e = a + b - s - the returned double-word remainder r + t equals (y + t) * (P_hi + P_lo), where
    (k, y, t) is the result of the multiword product modulo 4 and (P_hi, P_lo) the double-word pi/2.  A wrong sign or a
    dropped term in the recombination breaks the polynomial identity.  The body is interpreted by sa/absint.py on exact
    polynomials; nothing numeric is evaluated."""
    from sa.absint import Interp, Closure, Unsupported as IUnsupported, PyRaise
    from rules.C12 import Poly

    class Cond:
        __absint_host__ = True

        def __init__(self, op, a, b):
            self.op, self.a, self.b = op, a, b

        def __repr__(self):
            return f"{self.a!r} {self.op} {self.b!r}"

    class RV(Poly):
        __absint_host__ = True

        def __abs__(self):
            return RV({("|" + repr(self) + "|",): 1})

        def _mk(op):
            def f(self, o):
                return Cond(op, self, o)
            return f

        __lt__, __le__, __gt__, __ge__ = _mk("<"), _mk("<="), _mk(">"), _mk(">=")

        def __hash__(self):
            return id(self)

    def lift(p):
        return RV(p.t) if isinstance(p, Poly) and not isinstance(p, RV) else p

    class Ctx:
        __absint_host__ = True

        def constant(self, v, like=None):
            from fractions import Fraction
            if isinstance(v, RV):
                return v
            return RV({(): Fraction(v)}) if isinstance(v, (int, float)) else RV({(f"const:{v}",): 1})

        def select(self, c, a, b):
            # the reduction proper is the arm taken when |x| is not small; the other arm returns x itself
            selects.append((c, a, b))
            return b

    selects = []
    g = repo.func(REL, "argument_reduction_trigonometric_impl")
    params = [a.arg for a in g.args.args]
    if len(params) != 3:
        raise AnalysisError("argument_reduction_trigonometric_impl: expected parameters (ctx, dtype, x)")
    K, Y, Tt, PH, PL = (RV({(n,): 1}) for n in ("k", "y", "t", "P_hi", "P_lo"))
    fresh = [0]

    def add_2sum(ctx, a, b, *rest, **kw):
        fresh[0] += 1
        s_ = RV({(f"s{fresh[0]}",): 1})
        return (s_, lift(a + b - s_))

    I = Interp(repo)
    I.globals_cache[(REL, "add_2sum")] = add_2sum
    I.globals_cache[(REL, "split_tripleword")] = lambda ctx, x, **kw: ("x_tw",)
    I.globals_cache[(REL, "mul_mw_mod4")] = lambda ctx, a, b, **kw: (K, Y, Tt)
    I.ext_calls = {
        "functional_algorithms.utils.get_two_over_pi_multiword": lambda *a, **k: [1.0],
        "functional_algorithms.utils.get_pi_over_two_multiword": lambda *a, **k: [PH, PL],
    }
    from sa.absint import ModRef
    env_dtype = ModRef("ext", "numpy.float64")
    try:
        out = I.call(Closure(g, {}, I, REL, bound_self=None), [Ctx(), env_dtype, RV({("x",): 1})])
    except (IUnsupported, PyRaise, TypeError) as e:
        raise AnalysisError(f"argument_reduction_trigonometric_impl is not interpretable: {getattr(e, 'what', e)}")
    if not (isinstance(out, tuple) and len(out) == 3):
        raise AnalysisError(f"argument_reduction_trigonometric_impl returns {out!r}, expected (k, r, t)")
    k_, r_, t_ = out
    ok_k = isinstance(k_, Poly) and k_ == K
    r.ob(rule, f"{REL}::argument_reduction_trigonometric_impl returns the quadrant of the multiword product", ok_k, f"first result is {k_!r}", loc(REL, g))
    try:
        total = r_ + t_
        want = (Y + Tt) * (PH + PL)
        ok = total == want
        detail = f"r + t = {total!r}; expected (y + t) * (P_hi + P_lo) = {want!r}" + ("" if ok else f"; difference {total - want!r}")
    except TypeError as e:
        ok, detail = False, str(e)
    r.ob(rule, f"{REL}::argument_reduction_trigonometric_impl remainder r + t == (y + t) * pi/2 (exact-arithmetic identity)", ok, detail, loc(REL, g))
    # R17.4: the shortcut that returns x itself (k is still the genuine quadrant) is sound only for |x| below the first octant
    # boundary, on both sides of zero: its guard must be a test of |x| against (head word of pi/2) / 2
    from fractions import Fraction
    X = RV({("x",): 1})
    absx = abs(X)
    shortcuts = [(c, a, b) for c, a, b in selects if isinstance(a, Poly) and (Poly.__eq__(a, X) or not a.t)]
    if len(shortcuts) < 2:
        raise AnalysisError("argument_reduction_trigonometric_impl: the small-argument selections of r and t were not found")
    absatom = next(iter(absx.t))[0]

    def ratio(pl, atom):
        """pl == q * atom -> q, else None"""
        if isinstance(pl, Poly) and list(pl.t) == [(atom,)]:
            return pl.t[(atom,)]
        return None

    for c, a, b in shortcuts:
        which = "r = x" if a.t else "t = 0"
        key = f"{REL}::argument_reduction_trigonometric_impl shortcut `{which}` guarded by |x| <= (pi/2 head word) / 2"
        if not isinstance(c, Cond):
            raise AnalysisError(f"argument_reduction_trigonometric_impl: the guard of `{which}` is not a comparison ({c!r})")
        op, lhs, rhs = c.op, c.a, c.b
        if op in (">", ">="):
            op, lhs, rhs = {">": "<", ">=": "<="}[op], rhs, lhs
        atoms = {a_ for side in (lhs, rhs) if isinstance(side, Poly) for mon in side.t for a_ in mon}
        if "x" in atoms and absatom not in atoms:
            r.ob("R17.4", key, False,
                 f"the shortcut `{which}` is taken when `{lhs!r} {op} {rhs!r}`, a test of x itself, not of |x|: every negative argument takes the "
                 "shortcut and gets r = x together with the quadrant k of the genuine reduction", loc(REL, g))
            continue
        qa = ratio(lhs, absatom)
        # the bound may use the head word alone or the double word: b_hi * P_hi + b_lo * P_lo (P_lo is below an ulp of P_hi)
        qb = qlo = None
        if isinstance(rhs, Poly) and set(rhs.t) <= {("P_hi",), ("P_lo",)} and ("P_hi",) in rhs.t:
            qb, qlo = rhs.t[("P_hi",)], rhs.t.get(("P_lo",), 0)
        if qa is None or qb is None or qa <= 0:
            raise AnalysisError(f"argument_reduction_trigonometric_impl: guard `{lhs!r} {op} {rhs!r}` of `{which}` is not of the form a*|x| < b*P_hi (+ b'*P_lo)")
        cfac, clo = Fraction(qb) / Fraction(qa), Fraction(qlo) / Fraction(qa)
        ok4 = 0 < cfac <= Fraction(1, 2) and 0 <= clo <= Fraction(1, 2)
        r.ob("R17.4", key, ok4,
             f"the shortcut `{which}` is taken for |x| < {cfac} * P_hi" + (f" + {clo} * P_lo" if clo else "") + ": beyond pi/4 the genuine reduction has k != 0, so "
             "r = x (or t = 0: the low word of the remainder, which carries it next to a multiple of pi/2) is returned where the reduction proper is needed",
             loc(REL, g))


def run(repo, tier):
    r = Report("C17", tier, repo, level="other", design_ref="§3/C17")
    r.explanation = (
        "Thin structural clause of C17: the *active* double-word ln 2 constants of get_log2_doubleword_and_inverse (selected by "
        "constant-evaluating the `if 0/elif 1` chain) are rounded to each format in exact rational arithmetic and checked: "
        "hi+lo approximates ln 2 to within half an ulp of lo, hi is short enough for k*hi to be exact for every admissible k, "
        "ln2/ln2inv/ln2half literals are the correctly rounded values; the reduction formula k=floor(x*ln2inv+1/2), r=x-k*hi, "
        "c=-k*lo is matched structurally. Reconstruction bounds on inputs are NOT decided."
    )
    r.trusted_base = ["Python ast", "ln 2 and 1/ln 2 to 100 digits", "struct rounding of literals to binary16/32"]
    r.rule("R17.1", "double-word ln2: |hi+lo-ln2| <= ulp(lo)/2 and hi leaves enough trailing zero bits for exact k*hi", floor=9)
    r.rule("R17.3", "trigonometric reduction: the returned double-word remainder equals (y + t) * (pi/2 double-word) as an exact-arithmetic polynomial identity (2Sum summarised by its contract)", floor=2)
    r.rule("R17.4", "trigonometric reduction: the no-reduction shortcut (r = x, t = 0) is guarded by |x| < (head word of pi/2) / 2, symmetric in the sign of x", floor=2)
    r.rule("R17.2", "reduction formula: k = floor(x*ln2inv + 1/2), r = x - k*ln2hi, c = -k*ln2lo; scalar constants correctly rounded", floor=5)

    from sa.kernels import Extractor, IN, CONST, normal as knf, show, lift, is_term, Unsupported as KUnsupported

    ex = Extractor(repo)
    x = IN("x")
    g = repo.func(REL, "argument_reduction_exponent")
    try:
        got = ex.call(REL, "argument_reduction_exponent", [("opaque", "ctx"), x], {})
    except KUnsupported as e:
        raise AnalysisError(f"argument_reduction_exponent: dataflow not understood: {e}")
    if not (isinstance(got, (tuple, list)) and not is_term(got) and len(got) == 3):
        raise AnalysisError(f"argument_reduction_exponent: expected a 3-tuple (k, r, c), got {got!r}")
    kt, rt, ct = (lift(t) for t in got)

    def subterms(t, out):
        if is_term(t):
            out.append(t)
            for a in t[1:]:
                if isinstance(a, tuple):
                    subterms(a, out)
        return out

    def replace(t, old, new_):
        if t == old:
            return new_
        if is_term(t):
            return tuple(replace(a, old, new_) if isinstance(a, tuple) else a for a in t)
        return t

    def top_constants(t):
        """maximal sub-terms built only from constants and selects on `largest` (the dtype switch)"""
        out = []

        def pure(u):
            return all(v[0] in ("const", "select", "cmp") for v in subterms(u, []))

        def walk(u):
            if is_term(u) and u[0] in ("const", "select") and pure(u):
                out.append(u)
                return
            if is_term(u):
                for a in u[1:]:
                    if isinstance(a, tuple):
                        walk(a)

        walk(t)
        return out

    # ---- k = floor(x * INV + 1/2)
    consts = [c for c in top_constants(kt) if c != ("const", "0.5")]
    if len(consts) != 1:
        r.ob("R17.2", f"{REL}::argument_reduction_exponent k", False, f"k = {show(kt)}: not of the form floor(x * ln2inv + 1/2)", loc(REL, g))
        INV = None
    else:
        INV = consts[0]
        want_k = ("fn", "floor", ("op", "+", ("op", "*", x, INV), ("const", "0.5")))
        r.ob("R17.2", f"{REL}::argument_reduction_exponent k", knf(kt) == knf(want_k), f"k = {show(kt)}; expected floor(x * ln2inv + 1/2)", loc(REL, g))
    K = IN("k")
    r2, c2 = replace(rt, kt, K), replace(ct, kt, K)
    hi_c = top_constants(r2)
    lo_c = top_constants(c2)
    HI = hi_c[0] if len(hi_c) == 1 else None
    LO = lo_c[0] if len(lo_c) == 1 else None
    ok_r = HI is not None and knf(r2) == knf(("op", "-", x, ("op", "*", K, HI)))
    ok_c = LO is not None and knf(c2) == knf(("neg", ("op", "*", K, LO)))
    r.ob("R17.2", f"{REL}::argument_reduction_exponent r = x - k*ln2hi", ok_r, f"r = {show(r2)[:300]} (k stands for the first result)", loc(REL, g))
    r.ob("R17.2", f"{REL}::argument_reduction_exponent c = -k*ln2lo", ok_c, f"c = {show(c2)[:300]} (k stands for the first result)", loc(REL, g))

    def value_for(term, b):
        """numeric literal selected for format b by a dtype switch on `largest`"""
        t = term
        while t[0] == "select":
            cnd = t[1]
            if not (cnd[0] == "cmp" and cnd[2] == ("const", "largest") and cnd[3][0] == "const"):
                raise AnalysisError(f"dtype switch condition not understood: {show(cnd)}")
            thr = float(cnd[3][1])
            lhs = float(LARGEST[b])
            truth = {">": lhs > thr, ">=": lhs >= thr, "<": lhs < thr, "<=": lhs <= thr}[cnd[1]]
            t = t[2] if truth else t[3]
        if t[0] != "const":
            raise AnalysisError(f"constant expected, got {show(t)}")
        return float(t[1])

    if HI is not None and LO is not None:
        for b in BITS:
            hi_lit, lo_lit = value_for(HI, b), value_for(LO, b)
            hi, lo = round_to(b, hi_lit), round_to(b, lo_lit)
            err = abs(hi + lo - LN2)
            bound = ulp(b, lo) / 2
            r.ob(
                "R17.1", f"{REL}::ln2 double-word float{b} accuracy", err <= bound and hi > 0 and lo > 0,
                f"float{b}: hi={hi_lit!r} lo={lo_lit!r}: |hi+lo-ln2| = {float(err):.3e} exceeds ulp(lo)/2 = {float(bound):.3e}", loc(REL, g),
                sample=dict(rule="R17.1", bits=b, hi=hi_lit, lo=lo_lit, abs_err=float(err), half_ulp_lo=float(bound)),
            )
            sb = significant_bits(hi)
            need = KMAX[b].bit_length()
            r.ob(
                "R17.1", f"{REL}::ln2hi float{b} short enough for exact k*hi", sb + need <= PREC[b],
                f"float{b}: ln2hi={hi_lit!r} uses {sb} significand bits; with |k| <= {KMAX[b]} ({need} bits) the product k*hi needs {sb + need} > {PREC[b]} bits and is rounded",
                loc(REL, g),
            )
            r.ob("R17.1", f"{REL}::ln2hi float{b} literal is exactly representable", round_to(b, hi_lit) == Fraction(hi_lit) if b == 64 else significant_bits(round_to(b, hi_lit)) <= PREC[b],
                 "", loc(REL, g))
    if INV is not None:
        for b in BITS:
            lit = value_for(INV, b)
            v = round_to(b, lit)
            ok = abs(v - LN2INV) <= ulp(b, LN2INV) / 2
            r.ob("R17.2", f"{REL}::1/ln2 float{b} correctly rounded", ok, f"the multiplier {lit!r} rounds to {float(v)!r} in float{b}; |error vs 1/ln 2| = {float(abs(v - LN2INV)):.3e} > half ulp", loc(REL, g))
    check_trig_recombination(r, repo)
    # every other scalar the constants function returns that is (close to) ln 2 or ln 2 / 2 must be correctly rounded too
    f = repo.func(REL, "get_log2_doubleword_and_inverse")
    try:
        allc = ex.call(REL, "get_log2_doubleword_and_inverse", [("opaque", "ctx"), CONST("largest")], {})
    except KUnsupported as e:
        raise AnalysisError(f"get_log2_doubleword_and_inverse: {e}")
    for pos, t in enumerate(allc if not is_term(allc) else [allc]):
        t = lift(t)
        if t[0] != "const":
            continue
        try:
            lit = float(t[1])
        except ValueError:
            continue
        for nm, true in (("ln 2", LN2), ("ln 2 / 2", LN2 / 2), ("1 / ln 2", LN2INV)):
            if abs(Fraction(lit) - true) <= true / 1000:
                for b in BITS:
                    v = round_to(b, lit)
                    ok = abs(v - true) <= ulp(b, true) / 2
                    r.ob("R17.2", f"{REL}::get_log2_doubleword_and_inverse result #{pos} ({nm}) float{b} correctly rounded", ok,
                         f"{lit!r} rounds to {float(v)!r} in float{b}; |error| = {float(abs(v - true)):.3e} > half ulp", loc(REL, f))
    return r
