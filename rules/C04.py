"""C04 — rewriting preserves denotation.  Rules R4.1 (tables), R4.2 (wiring), R4.3 (rewrite rules on a finite model),
R4.7 (sign/finiteness inference).  See DESIGN.md §3/C04."""

from __future__ import annotations

import ast
import itertools
import math
import os

from sa.core import AnalysisError, Report, loc, norm_src
from sa.consteval import ev
from sa.paths import dotted, calls_in, call_name
from sa.domfacts import dominating_facts
from sa.absint import Interp, ACtx, AExpr, AType, ModRef, Unsupported, PyRaise, show_expr
from sa.exprsem import evaluate, Undefined, same_value

REL = "rewrite.py"
COLS = ("ge", "gt", "le", "lt", "eq", "ne")
PYOP = {"ge": lambda x, y: x >= y, "gt": lambda x, y: x > y, "le": lambda x, y: x <= y, "lt": lambda x, y: x < y, "eq": lambda x, y: x == y, "ne": lambda x, y: x != y}
MIRROR = {"ge": "le", "gt": "lt", "le": "ge", "lt": "gt", "eq": "eq", "ne": "ne"}

# ---- the float lattice (lenient): ordered representative points
POINTS = [
    ("neginf", -math.inf), ("-largest", -8.0), ("-big", -4.0), ("-one", -1.0), ("-mid", -0.5), ("-eps", -0.25), ("-tiny", -0.2), ("-smallest", -0.125),
    ("-sub", -0.1), ("-smallest_subnormal", -0.0625), ("zero", 0.0), ("smallest_subnormal", 0.0625), ("sub", 0.1), ("smallest", 0.125), ("tiny", 0.2),
    ("eps", 0.25), ("mid", 0.5), ("one", 1.0), ("big", 4.0), ("largest", 8.0), ("posinf", math.inf),
]
PV = dict(POINTS)
CLASSES = {
    "positive": [v for _, v in POINTS if v > 0],
    "nonnegative": [v for _, v in POINTS if v >= 0],
    "negative": [v for _, v in POINTS if v < 0],
    "nonpositive": [v for _, v in POINTS if v <= 0],
    "finite": [v for _, v in POINTS if not math.isinf(v)],
}
CONSTPT = {"posinf": PV["posinf"], "neginf": PV["neginf"], "largest": PV["largest"], "eps": PV["eps"], "smallest": PV["smallest"],
           "smallest_subnormal": PV["smallest_subnormal"], 1: 1.0, 0: 0.0}


def members(k):
    if k in CLASSES:
        return CLASSES[k]
    if k in CONSTPT:
        return [CONSTPT[k]]
    return None


def check_row(r, name, key, row, where, rule="R4.1"):
    a, b = members(key[0]), members(key[1])
    if a is None or b is None:
        raise AnalysisError(f"{name}[{key}]: key element not modelled by the lattice oracle")
    if not (isinstance(row, tuple) and len(row) == 6):
        raise AnalysisError(f"{name}[{key}]: row is not a 6-tuple")
    for col, cell in zip(COLS, row):
        if cell is None:
            r.ob(rule, f"{REL}::{name}[{key!r}][{col}]", True, "", where)
            continue
        truth = {PYOP[col](x, y) for x in a for y in b}
        ok = truth == {bool(cell)}
        cex = ""
        if not ok:
            for x in a:
                for y in b:
                    if PYOP[col](x, y) != bool(cell):
                        nx = [n for n, v in POINTS if v == x][0]
                        ny = [n for n, v in POINTS if v == y][0]
                        cex = f"x={nx}, y={ny}"
                        break
                if cex:
                    break
        r.ob(rule, f"{REL}::{name}[{key!r}]", ok,
             f"cell `{col}` says `x {col} y` is always {cell} for x in {key[0]!r}, y in {key[1]!r}; counterexample {cex}", where,
             sample=dict(rule=rule, table=name, key=repr(key), column=col, cell=cell))


# --------------------------------------------------------------------------- scenarios for R4.3


def gen_scenarios(ctx, tier, bits=None, reduced=False):
    """Yield (label, expr) — finite family of expression shapes covering every rule of the Rewriter.

    bits: None for untyped float symbols, 32/64 for numpy-typed symbols (constant folding then runs in the modelled dtype)."""
    sfx = "" if bits is None else str(bits)
    ft = AType("float", bits)
    a, b, c = ctx.symbol("a" + sfx, ft), ctx.symbol("b" + sfx, ft), ctx.symbol("c" + sfx, ft)
    p, q = ctx.symbol("p", AType("boolean")), ctx.symbol("q", AType("boolean"))
    z = ctx.symbol("z", AType("complex"))
    a64, a32 = ctx.symbol("w", AType("float", 64)), ctx.symbol("n", AType("float", 32))
    M = ctx.make
    K = lambda v, like=a: ctx.constant(v, like)  # noqa
    consts = [0, 1, -1, 2, 0.5, 0.0, 1.0]
    named = ["posinf", "neginf", "largest", "smallest", "eps", "smallest_subnormal"]
    UN = ["negative", "positive", "absolute", "sqrt", "square", "sign"]
    BIN = ["add", "subtract", "multiply", "divide", "minimum", "maximum"]
    CMP = ["lt", "le", "gt", "ge", "eq", "ne"]
    atoms = [a, b]
    # level-1 terms
    t1 = []
    for u in UN:
        for x in atoms + [K(0), K(1), K(-1), K(2.0)]:
            t1.append(M(u, (x,)))
    for k in BIN:
        for x, y in [(a, b), (a, a), (a, K(0)), (K(0), a), (a, K(1)), (K(1), a), (K(2), K(3.0)), (a, K(-1)), (K(0.0), a), (a, K(1.0))]:
            t1.append(M(k, (x, y)))
    for t in t1:
        yield "arith-1", t
    if reduced:
        for k in CMP:
            for n1 in named + [0, 1, 2.5, -1]:
                for n2 in named + [0, 1]:
                    yield "cmp-const", M(k, (K(n1), K(n2)))
            for s_ in [M("absolute", (a,)), M("square", (a,)), M("sqrt", (M("absolute", (a,)),)), M("negative", (M("absolute", (b,)),)), a]:
                for rhs in [K(0), K(1), K(0.0), b] + [K(nm) for nm in named]:
                    yield "cmp-signed", M(k, (s_, rhs))
                    yield "cmp-signed", M(k, (rhs, s_))
            yield "select", M("select", (M(k, (a, b)), a, b))
            yield "select", M("select", (M(k, (a, K(0))), K(1), K(2)))
        for v in [0, 1, -1, 2, 4.0, -1.5, 0.0, 0.25, 9.0, 0.1, 3, "largest", "eps", "pi", "nan", "undefined", "posinf", "smallest_subnormal"]:
            for u in UN + ["log", "log1p", "log2", "log10", "conjugate"]:
                yield "const-unary", M(u, (K(v),))
            if isinstance(v, str):
                continue
            for w in [0, 1, -1, 2, 3, 0.1, 0.0]:
                for k in BIN:
                    yield "const-binary", M(k, (K(v), K(w)))
        return
    # nested unary (idempotent / involution rules) and sign-carrying compositions
    t2 = []
    for u in UN:
        for t in t1:
            if t.kind in UN or t.kind in ("multiply", "add", "divide", "subtract"):
                t2.append(M(u, (t,)))
    for t in t2:
        yield "arith-2", t
    signed = [M("absolute", (a,)), M("square", (a,)), M("sqrt", (M("absolute", (a,)),)), M("negative", (M("absolute", (b,)),)), M("multiply", (a, a)),
              M("add", (M("absolute", (a,)), M("square", (b,)))), M("negative", (M("square", (a,)),)), M("absolute", (M("square", (a,)),)),
              M("sqrt", (M("square", (a,)),)), M("sqrt", (M("add", (M("multiply", (a, a)), M("multiply", (b, b)))),)),
              M("multiply", (M("absolute", (a,)), M("negative", (M("absolute", (b,)),)))), M("add", (M("absolute", (a,)), K(1))),
              M("subtract", (M("negative", (M("absolute", (a,)),)), K(1))), M("divide", (M("absolute", (a,)), M("add", (M("absolute", (b,)), K(1))))),
              M("square", (M("absolute", (a,)),)), M("absolute", (M("absolute", (a,)),)), M("sqrt", (M("sqrt", (M("absolute", (a,)),)),)),
              M("positive", (M("absolute", (a,)),)), M("negative", (M("negative", (M("absolute", (a,)),)),)),
              M("subtract", (M("absolute", (a,)), M("negative", (M("absolute", (b,)),)))), M("add", (M("negative", (M("absolute", (a,)),)), M("negative", (M("square", (b,)),)))),
              ]
    cmp_rhs = [K(0), K(1), K(0.0), K(-1), b] + [K(nm) for nm in named]
    for k in CMP:
        for s in signed + [a]:
            for rhs in cmp_rhs:
                yield "cmp-signed", M(k, (s, rhs))
                yield "cmp-signed", M(k, (rhs, s))
        for s1 in signed[:8]:
            for s2 in signed[:8]:
                yield "cmp-signed2", M(k, (s1, s2))
        for n1 in named + [0, 1]:
            for n2 in named + [0, 1]:
                yield "cmp-const", M(k, (K(n1), K(n2)))
        yield "cmp-same", M(k, (a, a))
        yield "cmp-same", M(k, (M("add", (a, b)), M("add", (a, b))))
        # comparison distributes over select
        yield "cmp-select", M(k, (M("select", (M("lt", (a, b)), a, b)), c))
        yield "cmp-select", M(k, (c, M("select", (M("lt", (a, b)), a, b))))
        yield "cmp-select", M(k, (M("select", (M("lt", (a, b)), K(0), K(1))), K(0)))
    # logical
    conds = [M("lt", (a, b)), M("ge", (a, b)), M("eq", (a, b)), M("ne", (a, K(0))), p, q, ctx.constant(True), ctx.constant(False), M("gt", (M("absolute", (a,)), K(0)))]
    for x in conds:
        yield "logic", M("logical_not", (x,))
        yield "logic", M("logical_not", (M("logical_not", (x,)),))
        for y in conds:
            yield "logic", M("logical_and", (x, y))
            yield "logic", M("logical_or", (x, y))
            yield "logic", M("logical_or", (M("logical_and", (M("logical_not", (y,)), x)), y))
            yield "logic", M("logical_and", (M("logical_and", (x, y)), y))
            yield "logic", M("logical_and", (x, M("logical_and", (x, y))))
    # select
    for cnd in conds + [M(k, (a, b)) for k in CMP] + [M(k, (b, a)) for k in CMP]:
        for x, y in [(a, b), (b, a), (a, a), (c, a), (a, c), (K(1), K(2)), (M("add", (a, K(0))), b)]:
            yield "select", M("select", (cnd, x, y))
        yield "select-nested", M("select", (cnd, M("select", (M("lt", (a, c)), a, b)), b))
        yield "select-nested", M("select", (cnd, M("select", (M("lt", (a, c)), b, a)), b))
        yield "select-nested", M("select", (cnd, b, M("select", (M("lt", (a, c)), a, b))))
        yield "select-nested", M("select", (cnd, b, M("select", (M("lt", (a, c)), b, a))))
        yield "select-nested", M("select", (cnd, c, M("select", (M("lt", (a, c)), a, b))))
    # complex / casts / lists
    for t in [M("conjugate", (z,)), M("conjugate", (M("conjugate", (z,)),)), M("conjugate", (M("complex", (a, b)),)), M("real", (M("complex", (a, b)),)),
              M("imag", (M("complex", (a, b)),)), M("conjugate", (M("conjugate", (M("conjugate", (z,)),)),)),
              M("upcast", (M("downcast", (a64,)),)), M("downcast", (M("upcast", (a32,)),)), M("upcast", (M("upcast", (a32,)),)),
              M("downcast", (M("downcast", (a64,)),)), M("add", (M("upcast", (M("downcast", (a64,)),)), a64)),
              M("item", (M("list", (a, b, c)), ctx.constant(1))), M("item", (M("list", (a, b, c)), ctx.constant(0))), M("item", (M("list", (a, b, c)), ctx.constant(2))),
              M("log", (K(1),)), M("log1p", (K(0),)), M("log2", (K(1),)), M("log10", (K(1),)), M("sqrt", (K(0),)), M("sqrt", (K(1),)),
              M("log", (a,)), M("log1p", (a,)),
              ]:
        yield "misc", t
    # constants through every unary / binary rule (constant folding in the untyped float model)
    cvals = [0, 1, -1, 2, 4.0, -1.5, 0.0, 0.25, 9.0, True, False]
    for nm in named + ["pi", "nan", "undefined"]:
        for u in UN + ["log", "log1p", "log2", "log10", "conjugate"]:
            yield "const-unary", M(u, (K(nm),))
        for k in BIN:
            yield "const-binary", M(k, (K(nm), K(2)))
            yield "const-binary", M(k, (a, K(nm)))
    for v in cvals:
        for u in UN + ["log", "log1p", "log2", "log10", "conjugate"]:
            if isinstance(v, bool) and u != "logical_not":
                continue
            yield "const-unary", M(u, (K(v),))
        for w in cvals[:7]:
            if isinstance(v, bool) or isinstance(w, bool):
                continue
            for k in BIN:
                yield "const-binary", M(k, (K(v), K(w)))
            for k in CMP:
                yield "const-cmp", M(k, (K(v), K(w)))
    for v in (True, False):
        yield "const-logic", M("logical_not", (ctx.constant(v),))
        for w in (True, False):
            yield "const-logic", M("logical_and", (ctx.constant(v), ctx.constant(w)))
            yield "const-logic", M("logical_or", (ctx.constant(v), ctx.constant(w)))
        yield "const-select", M("select", (ctx.constant(v), a, b))
    zc = ctx.constant(complex(1.0, 2.0), z)
    for t in [M("conjugate", (zc,)), M("real", (zc,)), M("imag", (zc,)), M("conjugate", (ctx.constant(1.5, z),)), M("absolute", (K(-2.5),)),
              M("item", (M("list", (a, b)), ctx.constant(0))), M("sign", (M("sign", (a,)),)), M("absolute", (M("absolute", (a,)),)),
              M("positive", (M("positive", (a,)),)), M("logical_or", (M("logical_and", (M("lt", (a, b)), M("lt", (b, c)))), M("ge", (a, b))))]:
        yield "misc2", t
    if tier == "thorough":
        # a second layer: every binary arithmetic of two signed terms compared with zero, and selects guarded by them
        for k in BIN[:4]:
            for s1 in signed:
                for s2 in signed[:10]:
                    t = M(k, (s1, s2))
                    for cmp in CMP:
                        yield "cmp-deep", M(cmp, (t, K(0)))
                        yield "cmp-deep", M(cmp, (K(0), t))
        for u in UN:
            for s in signed:
                for cmp in CMP:
                    yield "cmp-deep", M(cmp, (M(u, (s,)), K(0)))
                    yield "cmp-deep", M(cmp, (M(u, (s,)), K(1)))
                    yield "cmp-deep", M("select", (M(cmp, (M(u, (s,)), K(0))), a, b))


VALS = {"float": [-2.0, -1.0, -0.5, 0.0, 0.5, 1.0, 2.0], "boolean": [False, True], "complex": [complex(1, 2), complex(-1, 0.5), complex(0, -1)],
        "float64": [-1.5, -0.5, 0.0, 0.5, 2.5, 0.1, 1.0000000009313226], "float32": [-1.0, 0.0, 1.0, 2.0, 0.5, -2.5]}


def symbols_of(e, acc=None):
    acc = {} if acc is None else acc
    if e.kind == "symbol":
        t = e.operands[1]
        acc[e.operands[0]] = f"{t.kind}{t.bits or ''}"
    else:
        for o in e.operands:
            if isinstance(o, AExpr):
                symbols_of(o, acc)
    return acc


def assignments(syms):
    names = sorted(s for s in syms if not s.startswith("_"))
    doms = [VALS[syms[n]] for n in names]
    for combo in itertools.product(*doms):
        env = dict(zip(names, combo))
        for s in syms:
            if s.startswith("_"):
                env[s] = 0.0
        yield env


# --------------------------------------------------------------------------- R4.7 inference soundness

OPCLASSES = ["ninf", "neg", "zero", "pos", "one", "pinf"]
REPS = {"ninf": [-math.inf], "neg": [-3.0, -2.0, -1.0, -0.5], "zero": [0.0], "pos": [0.5, 2.0, 3.0], "one": [1.0], "pinf": [math.inf]}
TRUTH = {
    "_is_nonnegative": lambda c: c in ("zero", "pos", "one", "pinf"),
    "_is_nonpositive": lambda c: c in ("ninf", "neg", "zero"),
    "_is_zero": lambda c: c == "zero",
    "_is_one": lambda c: c == "one",
    "_is_finite": lambda c: c in ("neg", "zero", "pos", "one"),
}
PROPS = ["_is_nonnegative", "_is_nonpositive", "_is_positive", "_is_negative", "_is_zero", "_is_nonzero", "_is_one", "_is_finite"]
PROP_HOLDS = {
    "_is_nonnegative": lambda v: v >= 0, "_is_nonpositive": lambda v: v <= 0, "_is_positive": lambda v: v > 0, "_is_negative": lambda v: v < 0,
    "_is_zero": lambda v: v == 0, "_is_nonzero": lambda v: v != 0, "_is_one": lambda v: v == 1, "_is_finite": lambda v: not math.isinf(v),
}
MASKS = {
    "all": set(TRUTH), "none": set(), "signs": {"_is_nonnegative", "_is_nonpositive"}, "nonneg": {"_is_nonnegative"}, "nonpos": {"_is_nonpositive"},
    "finite": {"_is_finite"}, "signs+finite": {"_is_nonnegative", "_is_nonpositive", "_is_finite"},
}
FLOAT_OPS = {
    "add": lambda x, y: x + y, "subtract": lambda x, y: x - y, "multiply": lambda x, y: x * y, "divide": lambda x, y: x / y,
    "negative": lambda x: -x, "positive": lambda x: +x, "absolute": lambda x: abs(x), "square": lambda x: x * x,
    "sqrt": lambda x: math.sqrt(x), "minimum": min, "maximum": max,
}


def fact_symbol(ctx, name, cls, mask):
    s = ctx.symbol(name)
    facts = {}
    for pr, fn in TRUTH.items():
        facts[pr] = fn(cls) if pr in MASKS[mask] else None
    e = ctx.make("symbol", (f"{name}:{cls}:{mask}", AType("float")))
    e.facts = facts
    return e


def _check_one(I, rwmod, e):
    """Return (out, bad) for one expression: bad is None when sound / unchanged / not decidable."""
    try:
        out = I.call(I.getattr(e, "rewrite", ""), [rwmod])
    except (Unsupported, PyRaise):
        return None, None
    if out is e or not isinstance(out, AExpr):
        return out, None
    syms = symbols_of(e)
    syms.update(symbols_of(out))
    try:
        for env in assignments(syms):
            try:
                v0 = evaluate(e, env)
            except Undefined:
                continue
            try:
                v1 = evaluate(out, env)
            except Undefined:
                return out, (env, v0, "undefined")
            if not same_value(v0, v1):
                return out, (env, v0, v1)
    except Unsupported:
        return out, None
    return out, None


def _minimal_failing(I, rwmod, e):
    best = None
    stack = [e]
    seen = set()
    while stack:
        x = stack.pop()
        if id(x) in seen:
            continue
        seen.add(id(x))
        out, bad = _check_one(I, rwmod, x)
        if bad is not None:
            if best is None or _size(x) < _size(best[0]):
                best = (x, out)
        for o in x.operands:
            if isinstance(o, AExpr) and o.kind not in ("symbol",):
                stack.append(o)
    return best


def _size(e):
    return 1 + sum(_size(o) for o in e.operands if isinstance(o, AExpr))


def _canon(e, out):
    """Text of `e -> out` with symbols renamed in order of appearance."""
    names = {}

    def go(x):
        if not isinstance(x, AExpr):
            return repr(x)
        if x.kind == "symbol":
            return names.setdefault(x.operands[0], f"s{len(names)}")
        if x.kind == "constant":
            return repr(x.operands[0]) if not isinstance(x.operands[0], AExpr) else f"const({go(x.operands[0])})"
        return f"{x.kind}({', '.join(go(o) for o in x.operands)})"

    return f"{go(e)} -> {go(out)}"


def run(repo, tier):
    r = Report("C04", tier, repo, level="other", design_ref="§3/C04")
    r.explanation = (
        "Soundness audit of the rewriter's local rules. (R4.1/R4.2) the three comparison-folding tables are read as literals and "
        "every reachable row is checked against the float lattice order; the relop methods' column wiring is checked. (R4.3) the "
        "source of Rewriter/Expr.rewrite/Context constructors is executed by an abstract interpreter (sa/absint.py) on a finite "
        "family of abstract expression shapes; each extracted rewrite (input shape -> output shape) is decided on a finite model "
        "(all assignments of small exact values incl. zero, booleans, complex, and two nested rounding grids for casts). (R4.7) "
        "the bodies of Expr._is_* are interpreted for every kind they mention over operand value classes x knowledge masks and "
        "compared with extended-real arithmetic on class representatives. No repository module is imported or run. Termination "
        "and exceptions for arbitrary DAGs, constant folding in target dtypes (numpy) and shapes outside the family are NOT decided."
    )
    r.trusted_base = ["Python ast", "sa/absint.py (abstract interpreter of the rule code)", "sa/exprsem.py (finite-model semantics of kinds)", "float lattice oracle (lenient)"]
    r.assumptions = ["NaN, overflow and underflow at any node put an assignment out of scope (as in C04)", "floats equal up to the sign of zero"]
    r.rule("R4.1", "every reachable row of the comparison folding tables is sound on the float lattice", floor=100)
    r.rule("R4.2", "each relop method passes its own relation, its column index and the mirrored column index to _compare", floor=6)
    r.rule("R4.3", "each rewrite extracted by abstract interpretation of the Rewriter preserves the value on every assignment of the finite model", floor=1000)
    r.rule("R4.7", "each True/False answer of Expr._is_* holds for every value of the operation on the operand classes (consumed facts only)", floor=500)

    # ------------------------------------------------------------------ R4.1 tables
    tree = repo.tree(REL)
    tables = {}
    for name in ("_constant_relop_constant", "_constant_relop_any", "_any_relop_any"):
        node = repo.module_assign(REL, name)
        v = ev(node)
        if not isinstance(v, dict):
            raise AnalysisError(f"{REL}: table {name} is not a literal dict")
        tables[name] = (v, node)
    # reachability of _constant_relop_any rows: the lookups are guarded by isinstance(<value>, number_types)
    cmpf = repo.func(REL, "Rewriter._compare")
    guarded = True
    lookups = [c for c in calls_in(cmpf) if isinstance(c.func, ast.Attribute) and c.func.attr == "get" and dotted(c.func.value) == "_constant_relop_any"]
    if len(lookups) < 2:
        raise AnalysisError("_compare: lookups in _constant_relop_any not found")
    for c in lookups:
        keyt = c.args[0]
        first = dotted(keyt.elts[0]) if isinstance(keyt, ast.Tuple) else None
        facts = dominating_facts(c, cmpf)
        has = any(pol and isinstance(t, ast.Call) and dotted(t.func) == "isinstance" and dotted(t.args[0]) == first and dotted(t.args[1]) == "number_types" for t, pol, _ in facts)
        guarded = guarded and has
    consumed_props = set()
    for key, row in tables["_constant_relop_constant"][0].items():
        check_row(r, "_constant_relop_constant", key, row, loc(REL, tables["_constant_relop_constant"][1]))
    n_dead = 0
    for key, row in tables["_constant_relop_any"][0].items():
        reachable = (not guarded) or isinstance(key[0], (int, float))
        if not reachable:
            n_dead += 1
            continue
        check_row(r, "_constant_relop_any", key, row, loc(REL, tables["_constant_relop_any"][1]))
        if any(c is not None for c in row):
            consumed_props.add(key[1])
    r.info("R4.1", f"_constant_relop_any: {n_dead} string-keyed rows are unreachable (lookup guarded by isinstance(value, number_types)) and not obligations")
    # the pair list of _compare
    pair_lists = [n for n in ast.walk(cmpf) if isinstance(n, ast.For) and isinstance(n.iter, ast.List) and n.iter.elts and isinstance(n.iter.elts[0], ast.Tuple)]
    pairs = None
    for pl in pair_lists:
        v = ev(pl.iter)
        if isinstance(v, list) and all(isinstance(x, tuple) and len(x) == 2 and x[0] in CLASSES for x in v):
            pairs = v
    if pairs is None:
        raise AnalysisError("_compare: list of (xprop, yprop) pairs not found")
    for key, row in tables["_any_relop_any"][0].items():
        if key in pairs:
            check_row(r, "_any_relop_any", key, row, loc(REL, tables["_any_relop_any"][1]))
            if any(c is not None for c in row):
                consumed_props.update(key)
    # the mirror loop
    loops = [st for st in tree.body if isinstance(st, ast.For)]
    for lp in loops:
        if "_constant_relop_any" in norm_src(lp.iter):
            tgt = lp.target
            names = [dotted(e) for e in tgt.elts[1].elts]
            st = lp.body[0]
            vals = [dotted(e) for e in st.value.elts]
            col_of = dict(zip(names, COLS))
            ok = [col_of.get(v) for v in vals] == [MIRROR[c] for c in COLS]
            r.ob("R4.1", f"{REL} mirror loop of _constant_relop_any", ok, f"mirrored row is built as {vals} from {names}: columns must map ge<->le, gt<->lt", loc(REL, lp))

    # ------------------------------------------------------------------ R4.2 wiring
    for k in COLS:
        f = repo.func(REL, f"Rewriter.{k}")
        rets = [n for n in ast.walk(f) if isinstance(n, ast.Return)]
        c = rets[0].value if rets else None
        if not (isinstance(c, ast.Call) and (call_name(c) or "").endswith("_compare") and len(c.args) == 4 and isinstance(c.args[1], ast.Lambda)):
            raise AnalysisError(f"Rewriter.{k}: `return self._compare(expr, lambda..., i, j)` not found")
        lam = c.args[1]
        body = lam.body
        ok_l = isinstance(body, ast.Compare) and len(body.ops) == 1 and {ast.GtE: "ge", ast.Gt: "gt", ast.LtE: "le", ast.Lt: "lt", ast.Eq: "eq", ast.NotEq: "ne"}.get(type(body.ops[0])) == k \
            and [a.arg for a in lam.args.args] == [dotted(body.left), dotted(body.comparators[0])]
        i, j = ev(c.args[2]), ev(c.args[3])
        r.ob("R4.2", f"{REL}::Rewriter.{k} relation", ok_l, f"lambda is `{norm_src(lam)}`", loc(REL, c))
        r.ob("R4.2", f"{REL}::Rewriter.{k} column index", i == COLS.index(k), f"relop_index={i}, the `{k}` column is {COLS.index(k)}", loc(REL, c))
        r.ob("R4.2", f"{REL}::Rewriter.{k} swapped column index", j == COLS.index(MIRROR[k]), f"swap_relop_index={j}, the mirrored relation `{MIRROR[k]}` is column {COLS.index(MIRROR[k])}", loc(REL, c))
    # which index is used on which side: the looked-up constant comes from operand 0 (left) or operand 1 (right) of the comparison
    cmpf = repo.func(REL, "Rewriter._compare")
    operand_pos = {}
    for st in ast.walk(cmpf):
        if isinstance(st, ast.Assign) and isinstance(st.targets[0], ast.Tuple) and norm_src(st.value) == "expr.operands" and len(st.targets[0].elts) == 2:
            for k_, e_ in enumerate(st.targets[0].elts):
                if isinstance(e_, ast.Name):
                    operand_pos[e_.id] = k_
    value_side = {}
    for st in ast.walk(cmpf):
        if isinstance(st, ast.Assign) and isinstance(st.targets[0], ast.Tuple) and isinstance(st.value, ast.Attribute) and st.value.attr == "operands" \
                and isinstance(st.value.value, ast.Name) and st.value.value.id in operand_pos and isinstance(st.targets[0].elts[0], ast.Name):
            value_side[st.targets[0].elts[0].id] = operand_pos[st.value.value.id]
    for c in lookups:
        keyt = c.args[0]
        first = dotted(keyt.elts[0])
        if first not in value_side:
            raise AnalysisError(f"Rewriter._compare: cannot tell which operand `{first}` is the constant value of")
        side = value_side[first]
        # the variable bound to table.get(...) is then indexed
        par = c._parent
        tgt = dotted(par.targets[0]) if isinstance(par, ast.Assign) else None
        idx = None
        blk = par._parent
        for n in ast.walk(blk):
            if isinstance(n, ast.Assign) and isinstance(n.value, ast.Subscript) and tgt is not None and dotted(n.value.value) == tgt:
                idx = dotted(n.value.slice)
        want = "relop_index" if side == 0 else "swap_relop_index"
        r.ob("R4.2", f"{REL}::Rewriter._compare {'left' if side == 0 else 'right'}-constant lookup uses {want}", idx == want, f"row indexed with `{idx}`", loc(REL, c))

    # ------------------------------------------------------------------ R4.3 rewrite rules on a finite model
    I = Interp(repo, max_steps=400_000_000)
    I.coverage = set()
    ctx = I.ctx
    rwmod = ModRef("module", REL)
    n_scen = n_rewritten = n_unsupported = n_checked_assign = 0
    unsupported = {}
    seen = set()
    def all_scenarios():
        yield from gen_scenarios(ctx, tier)
        for bits in (64, 32):
            yield from gen_scenarios(ctx, tier, bits=bits, reduced=(tier == "quick"))

    for label, e in all_scenarios():
        if id(e) in seen:
            continue
        seen.add(id(e))
        n_scen += 1
        try:
            out = I.call(I.getattr(e, "rewrite", ""), [rwmod])
        except Unsupported as ex:
            n_unsupported += 1
            unsupported[str(ex)[:60]] = unsupported.get(str(ex)[:60], 0) + 1
            continue
        except PyRaise as ex:
            r.ob("R4.3", f"rewrite of {show_expr(e)} raises", False, f"rewriting `{show_expr(e)}` raises {ex.what} (C04: terminates without raising)", f"{REL}")
            continue
        if out is e:
            r.ob("R4.3", f"[{label}] {show_expr(e)} unchanged", True, "", REL)
            continue
        n_rewritten += 1
        syms = symbols_of(e)
        syms.update(symbols_of(out) if isinstance(out, AExpr) else {})
        bad = None
        try:
            for env in assignments(syms):
                try:
                    v0 = evaluate(e, env)
                except Undefined:
                    continue
                n_checked_assign += 1
                try:
                    v1 = evaluate(out, env)
                except Undefined:
                    bad = (env, v0, "undefined")
                    break
                if not same_value(v0, v1):
                    bad = (env, v0, v1)
                    break
        except Unsupported as ex:
            n_unsupported += 1
            unsupported[str(ex)[:60]] = unsupported.get(str(ex)[:60], 0) + 1
            continue
        detail = ""
        key = f"[{label}] {show_expr(e)} -> {show_expr(out)}"
        if bad:
            env = {k: v for k, v in bad[0].items() if not k.startswith("_")}
            detail = f"`{show_expr(e)}` is rewritten to `{show_expr(out)}`; at {env} the original is {bad[1]!r}, the rewritten one {bad[2]!r}"
            # attribute the failure to the smallest sub-expression that is itself rewritten unsoundly
            small = _minimal_failing(I, rwmod, e)
            if small is not None:
                se, so = small
                key = "unsound rewrite " + _canon(se, so)
                if se is not e:
                    detail += f" (root cause: `{show_expr(se)}` -> `{show_expr(so)}`)"
        r.ob("R4.3", key, bad is None, detail, REL,
             sample=dict(rule="R4.3", original=show_expr(e), rewritten=show_expr(out)) if n_rewritten % 40 == 1 else None)
    r.info("R4.3", f"{n_scen} expression shapes interpreted, {n_rewritten} rewritten, {n_checked_assign} assignment checks, {n_unsupported} outside the interpreter's subset {unsupported}")
    # branch coverage of the Rewriter
    rw_cls = repo.find(REL, "Rewriter")
    branches = {(st.lineno, b) for st in ast.walk(rw_cls) if isinstance(st, ast.If) for b in (True, False)}
    hit = {(ln, b) for (rel, ln, b) in I.coverage if rel == REL} & branches
    missed = sorted(branches - hit)
    r.extra["rewriter_branches_total"] = len(branches)
    r.extra["rewriter_branches_exercised"] = len(hit)
    r.extra["rewriter_branches_not_exercised"] = [f"{REL}:{ln}:{'then' if b else 'else'}" for ln, b in missed][:80]
    r.info("R4.3", f"Rewriter branch coverage by the scenario family: {len(hit)}/{len(branches)} (not exercised branches are not decided; listed in evidence)")
    if len(hit) < 0.6 * len(branches):
        raise AnalysisError(f"scenario family exercises only {len(hit)}/{len(branches)} Rewriter branches")

    # ------------------------------------------------------------------ R4.7 inference
    r.info("R4.7", f"facts consumed by a reachable, non-None table cell: {sorted(consumed_props)}; answers about other facts are reported as unconsumed notes")
    consumed = {"_is_" + p for p in consumed_props}
    # derived facts feeding consumed ones
    if "_is_positive" in consumed or "_is_negative" in consumed:
        consumed |= {"_is_nonpositive", "_is_nonnegative"}
    I2 = Interp(repo, max_steps=400_000_000)
    ctx2 = I2.ctx
    exprcls = repo.find("expr.py", "Expr")
    kinds_mentioned = set()
    for m in exprcls.body:
        if isinstance(m, ast.FunctionDef) and m.name in PROPS:
            for n in ast.walk(m):
                if isinstance(n, ast.Constant) and isinstance(n.value, str) and n.value in FLOAT_OPS:
                    kinds_mentioned.add(n.value)
    if len(kinds_mentioned) < 8:
        raise AnalysisError(f"Expr._is_*: only {sorted(kinds_mentioned)} kinds recognised")
    masks = ["all", "signs", "none", "nonneg", "nonpos"] if tier == "quick" else list(MASKS)
    n_unconsumed = 0
    notes = {}
    for kind in sorted(kinds_mentioned):
        arity = 2 if kind in ("add", "subtract", "multiply", "divide", "minimum", "maximum") else 1
        combos = itertools.product(OPCLASSES, repeat=arity)
        for classes in combos:
            # result values over representatives
            results = []
            for reps in itertools.product(*[REPS[c] for c in classes]):
                try:
                    v = FLOAT_OPS[kind](*reps)
                except (ValueError, ZeroDivisionError, OverflowError):
                    continue
                if isinstance(v, float) and math.isnan(v):
                    continue
                results.append(v)
            if not results:
                continue
            for mask_combo in itertools.product(masks, repeat=arity):
                ops = tuple(fact_symbol(ctx2, f"o{i}", c, m) for i, (c, m) in enumerate(zip(classes, mask_combo)))
                if arity == 2 and kind in ("multiply", "divide") and classes[0] == classes[1] and mask_combo[0] == mask_combo[1]:
                    pass
                e = ctx2.make(kind, ops)
                for prop in PROPS:
                    e.props.clear()
                    try:
                        ans = I2.getattr(e, prop, "")
                    except (Unsupported, PyRaise) as ex:
                        raise AnalysisError(f"Expr.{prop} on {kind}: not interpretable: {ex}")
                    if ans is None:
                        continue
                    holds = {PROP_HOLDS[prop](v) for v in results}
                    ok = holds == {bool(ans)}
                    key = f"expr.py::Expr.{prop} kind={kind} operands={'/'.join(classes)}"
                    if kind == "divide" and classes[1] in ("ninf", "pinf") and prop in ("_is_positive", "_is_negative", "_is_nonnegative", "_is_nonpositive"):
                        key = "expr.py::Expr sign inference of divide with an infinite divisor (x / +-inf is 0, neither positive nor negative)"
                    if ok or prop in consumed:
                        cex = ""
                        if not ok:
                            for reps in itertools.product(*[REPS[c] for c in classes]):
                                try:
                                    v = FLOAT_OPS[kind](*reps)
                                except Exception:
                                    continue
                                if not (isinstance(v, float) and math.isnan(v)) and PROP_HOLDS[prop](v) != bool(ans):
                                    cex = f"{kind}{reps} = {v}"
                                    break
                        r.ob("R4.7", key, ok, f"answers {ans} although {cex}", loc("expr.py", repo.func("expr.py", f"Expr.{prop}")))
                    else:
                        n_unconsumed += 1
                        notes[f"{prop} {kind}({'/'.join(classes)})"] = ans
    # constants
    for val, truth in [(0, 0.0), (1, 1.0), (-1, -1.0), (2.5, 2.5), (-0.0, 0.0), ("posinf", math.inf), ("neginf", -math.inf), ("largest", 8.0), ("smallest", 0.125),
                       ("eps", 0.25), ("smallest_subnormal", 0.06), ("pi", 3.14), (True, 1.0), (False, 0.0)]:
        e = ctx2.constant(val, ctx2.symbol("x"))
        for prop in PROPS:
            e.props.clear()
            ans = I2.getattr(e, prop, "")
            if ans is None:
                continue
            ok = PROP_HOLDS[prop](truth) == bool(ans)
            if ok or prop in consumed:
                r.ob("R4.7", f"expr.py::Expr.{prop} constant {val!r}", ok, f"answers {ans} for the constant {val!r}", loc("expr.py", repo.func("expr.py", f"Expr.{prop}")))
            else:
                n_unconsumed += 1
                notes[f"{prop} constant {val!r}"] = ans
    if n_unconsumed:
        r.info("R4.7", f"{n_unconsumed} unsound answers about facts no reachable rewrite consumes (not violations), e.g. {dict(list(notes.items())[:6])}")
    return r
