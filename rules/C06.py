"""C06 — StableHLO / XLA-client rendering.  Rules R6.1 .. R6.5 (DESIGN.md §3/C06)."""

from __future__ import annotations

import ast

from sa.core import AnalysisError, Report, loc, norm_src, inline_locals
from sa.consteval import ev, NOTIMPL, NameRef
from sa.targets_model import Target, kind_arities, known_names
from sa.oracles import targets as O
from sa.paths import enumerate_paths, calls_in, call_name, dotted, event_has_call, constants_on_path
from sa.defuse import origins
from rules.C05 import check_kind_templates, check_constants, check_make_constant, check_printer_state_not_rebound, check_template_nesting_by_parsing


def run(repo, tier):
    r = Report("C06", tier, repo, level="other", design_ref="§3/C06")
    r.explanation = (
        "Static audit of the stablehlo and xla_client targets: operator tables against an oracle of StableHLO/CHLO op names and "
        "XLA builder functions (arity, operand order, operator identity), structure of the StableHLO printer (operand loops, "
        "comparison direction derived from the kind, bind-once-before-use of $refs), constants and their `like` operand. "
        "Decides the structural clauses, not a parse of emitted text for arbitrary graphs."
    )
    r.trusted_base = ["Python ast", "sa/oracles/targets.py: StableHLO/CHLO op names and XLA client builder names (hand-authored from upstream; not checkable offline)"]
    r.assumptions = ["TableGen / XLA type constraints beyond the tables are not analysed"]
    r.rule("R6.1", "every stablehlo op / xla builder call implements its kind: known operator, right arity and operand order", floor=100)
    r.rule("R6.2", "StableHLO printer: operand loops run over expr.operands in order; comparison direction is derived from the kind", floor=5)
    r.rule("R6.3", "StableHLO printer: a $ref is bound exactly once, before it is referenced; arguments are bound before the body", floor=3)
    r.rule("R6.4", "constants: named constants denote their names; the like operand is a bound $ref/variable or a printed sub-tree", floor=8)
    r.rule("R6.7", "StableHLO printer: every argument is declared with the element class selected by that argument's own is_complex", floor=2)
    r.rule("R6.5", "no name derived from process-global state reaches the emitted text", floor=1)
    r.rule("R6.6", "the XLA client printer and its C++ constant printer share one statement list and one set of bound names for the whole function", floor=3)

    arities = kind_arities(repo)
    const_names = known_names(repo, "known_constant_names")

    # ---------------------------------------------------------------- xla_client tables
    X = Target(repo, "xla_client")
    check_kind_templates(r, X, arities, rules=dict(arity="R6.1", parse="R6.1", sem="R6.1", bind="R6.1"))
    check_template_nesting_by_parsing(r, X, rule="R6.1")
    # its constants are printed by the constant target (cpp) — table must stay empty or be meaningful
    for name, val in X.consts.items():
        raise AnalysisError(f"xla_client.constant_to_target[{name}] appeared; the constant oracle for XLA is not written")
    ct = repo.module_assign(X.rel, "constant_target") if False else None
    imp = [n for n in X.tree.body if isinstance(n, ast.ImportFrom) and any((a.asname or a.name) == "constant_target" for a in n.names)]
    ok = bool(imp) and any(a.name == "cpp" for n in imp for a in n.names)
    r.ob("R6.4", "targets/xla_client.py constant_target is cpp", ok, "compile-time constants of the XLA client target are no longer printed by the C++ target", loc(X.rel, X.tree))

    # xla make_constant: like is printed through the printer (bound or inlined), never as a bare .ref
    mc = X.method("make_constant")
    if mc is None:
        raise AnalysisError("xla_client.Printer.make_constant vanished")
    like = mc.args.args[1].arg
    for p in enumerate_paths(mc):
        if p.exit != "return":
            continue
        retv = inline_locals(p.exit_node.value, mc)  # the returned text with single-definition locals replaced by their definitions
        bare = [n for n in ast.walk(retv) if isinstance(n, ast.Attribute) and n.attr == "ref" and dotted(n.value) == like]
        guarded = any(e.kind == "test" and "defined_refs" in norm_src(e.node)
                      and (e.pol if not (isinstance(e.node, ast.Compare) and isinstance(e.node.ops[0], ast.NotIn)) else not e.pol) for e in p.events)
        via = any((call_name(c) or "").endswith("tostring") and c.args and dotted(c.args[0]) == like for c in calls_in(retv))
        ok = (via or guarded) and not (bare and not guarded)
        r.ob(
            "R6.4",
            "targets/xla_client.py::Printer.make_constant like operand",
            ok,
            f"`{norm_src(p.exit_node.value)}` prints `{like}.ref` without establishing that the name is bound: when `{like}` is not a "
            "function argument the variable is undeclared or declared after this use",
            loc(X.rel, p.exit_node),
        )
        og = origins(p.exit_node.value, p.events, len(p.events))
        r.ob("R6.4", "targets/xla_client.py::Printer.make_constant typed by like", any(k == "name" and v == like for k, v in og), "ScalarLike lost its like operand", loc(X.rel, p.exit_node))

    check_printer_state_not_rebound(r, repo, "R6.6")

    # ---------------------------------------------------------------- stablehlo tables
    S = Target(repo, "stablehlo")
    none_kinds = set()
    for kind, val in S.kinds.items():
        key = f"{S.rel}::kind_to_target[{kind}]"
        where = S.where(kind)
        if val is NOTIMPL:
            continue
        if val is None:
            none_kinds.add(kind)
            continue
        if not isinstance(val, str):
            raise AnalysisError(f"{key}: entry of unexpected shape {val!r}")
        if val not in O.STABLEHLO_OPS:
            r.ob("R6.1", key, False, f"`{val}` is not an op of the StableHLO/CHLO dialects known to the oracle", where)
            continue
        ok = O.STABLEHLO_OPS[val] == kind
        r.ob("R6.1", key, ok, f"`{val}` implements `{O.STABLEHLO_OPS[val]}`, but it is registered for `{kind}`", where,
             sample=dict(rule="R6.1", key=key, op=val))
    for name, val in S.consts.items():
        key = f"{S.rel}::constant_to_target[{name}]"
        if val not in O.STABLEHLO_CONSTS:
            raise AnalysisError(f"{key}: `{val}` not modelled by the StableHLO constant oracle")
        r.ob("R6.4", key, O.STABLEHLO_CONSTS[val] == name, f"`{val}` denotes `{O.STABLEHLO_CONSTS[val]}`, registered for `{name}`", loc(S.rel, S.const_nodes.get(name, S.consts_node)))

    # ---------------------------------------------------------------- stablehlo printer structure
    f = S.method("tostring")
    if f is None:
        raise AnalysisError("stablehlo.Printer.tostring vanished")
    # R6.2 operand loops
    def _prints_target(lp):
        return isinstance(lp.target, ast.Name) and any((call_name(c) or "").endswith("tostring") and c.args and dotted(c.args[0]) == lp.target.id for c in calls_in(lp))

    # loops over operands: every loop whose body prints its loop variable (the apply branch iterates printed lines, not nodes)
    loops = [n for n in ast.walk(f) if isinstance(n, ast.For) and _prints_target(n)]
    if len(loops) < 2:
        raise AnalysisError(f"stablehlo.Printer.tostring: expected two operand loops, found {len(loops)}")
    for lp in loops:
        ok = dotted(lp.iter) == "expr.operands"
        r.ob("R6.2", f"targets/stablehlo.py::Printer.tostring operand loop over `{norm_src(lp.iter)}`" if not ok else "targets/stablehlo.py::Printer.tostring operand loop",
             ok, f"operands are printed from `{norm_src(lp.iter)}`, not from expr.operands in order", loc(S.rel, lp))
        # the loop body prints the loop variable
        printed = [c for c in calls_in(lp) if (call_name(c) or "").endswith("tostring") and c.args]
        ok2 = bool(printed) and all(dotted(c.args[0]) == lp.target.id for c in printed)
        r.ob("R6.2", "targets/stablehlo.py::Printer.tostring loop prints its operand", ok2, "the loop body does not print the loop variable", loc(S.rel, lp))
    # comparison branch
    cmp_tests = [
        n for n in ast.walk(f)
        if isinstance(n, ast.Compare) and dotted(n.left) == "expr.kind" and isinstance(n.ops[0], ast.In) and isinstance(n.comparators[0], ast.Set)
    ]
    cmp_sets = [ev(n.comparators[0]) for n in cmp_tests]
    cmp_sets = [s for s in cmp_sets if isinstance(s, set) and s & O.STABLEHLO_COMPARE]
    if len(cmp_sets) != 1:
        raise AnalysisError("stablehlo.Printer.tostring: comparison branch `expr.kind in {...}` not recognised")
    r.ob("R6.2", "targets/stablehlo.py::Printer.tostring comparison kinds", cmp_sets[0] == O.STABLEHLO_COMPARE,
         f"comparison branch handles {sorted(cmp_sets[0])}, the comparison kinds are {sorted(O.STABLEHLO_COMPARE)}", loc(S.rel, cmp_tests[0]))
    r.ob("R6.2", "targets/stablehlo.py kinds mapped to None", none_kinds <= cmp_sets[0],
         f"kinds {sorted(none_kinds - cmp_sets[0])} map to None but are not printed by the comparison branch: the generic branch would emit `(None ...`", loc(S.rel, S.kinds_node))
    # direction text derived from expr.kind.upper()
    dir_ok = False
    for n in ast.walk(f):
        if isinstance(n, ast.JoinedStr) and any(isinstance(v, ast.Constant) and "ComparisonDirectionValue" in str(v.value) for v in n.values):
            fv = [v for v in n.values if isinstance(v, ast.FormattedValue)]
            dir_ok = any(norm_src(v.value) == "expr.kind.upper()" for v in fv)
            dnode = n
    r.ob("R6.2", "targets/stablehlo.py::Printer.tostring comparison direction", dir_ok,
         "the comparison direction text is no longer `expr.kind.upper()`; a separate spelling can disagree with the kind", loc(S.rel, f))

    # R6.3 bind once before use (path analysis)
    n_paths = 0
    for p in enumerate_paths(f, unroll=(0, 1)):
        if p.exit == "raise":
            continue
        tests = [(e.node, e.pol) for e in p.events if e.kind == "test"]
        kpos, _kneg = constants_on_path(p.events, "expr.kind")
        if kpos is not None and kpos and kpos <= {"apply", "symbol"}:
            continue
        defined_test = None
        for t, pol in tests:
            while isinstance(t, ast.UnaryOp) and isinstance(t.op, ast.Not):
                t, pol = t.operand, not pol
            if isinstance(t, ast.Compare) and len(t.ops) == 1 and isinstance(t.ops[0], (ast.In, ast.NotIn)) and dotted(t.left) == "expr.ref" \
                    and dotted(t.comparators[0]) == "self.defined_refs":
                defined_test = pol if isinstance(t.ops[0], ast.In) else not pol
                break
        if defined_test is None:
            r.ob("R6.3", f"targets/stablehlo.py::Printer.tostring path {p.describe()}", False, "a node is printed without testing whether its $ref is already bound", loc(S.rel, f))
            continue
        adds = [i for i, e in enumerate(p.events) if e.kind == "stmt" and _adds(e.node, "expr")]
        binds = [i for i, e in enumerate(p.events) if e.kind == "stmt" and any(isinstance(n, ast.JoinedStr) and ":$" in "".join(str(v.value) for v in n.values if isinstance(v, ast.Constant)) for n in ast.walk(e.node))]
        if defined_test is True:
            ok = not adds and isinstance(p.exit_node.value, ast.JoinedStr) and "expr.ref" in norm_src(p.exit_node.value)
            r.ob("R6.3", "targets/stablehlo.py::Printer.tostring bound ref short form", ok, "path for an already bound $ref re-binds it or does not return the $ref", loc(S.rel, p.exit_node))
        else:
            n_paths += 1
            ok = len(adds) == 1 and (not binds or adds[0] < binds[0])
            r.ob("R6.3", "targets/stablehlo.py::Printer.tostring binds once before printing operands", ok,
                 f"on path {p.describe()} defined_refs.add(expr.ref) occurs {len(adds)} time(s)"
                 + ("" if not binds or not adds else f", after the `:$ref` suffix is produced" if adds[0] > binds[0] else ""), loc(S.rel, f))
    if n_paths == 0:
        raise AnalysisError("stablehlo.Printer.tostring: no binding path recognised")
    # arguments are bound before the body is printed
    for p in enumerate_paths(f, unroll=(1,)):
        tests = [(e.node, e.pol) for e in p.events if e.kind == "test"]
        if constants_on_path(p.events, "expr.kind")[0] != {"apply"}:
            continue
        i_add = next((i for i, e in enumerate(p.events) if e.kind == "stmt" and _adds_other(e.node, "expr")), None)
        i_body = next((i for i, e in enumerate(p.events) if e.kind in ("stmt", "iter") and any((call_name(c) or "").endswith("tostring") for c in calls_in(e.node))), None)
        ok = i_add is not None and i_body is not None and i_add < i_body
        r.ob("R6.3", "targets/stablehlo.py::Printer.tostring arguments bound before body", ok, "function body printed before argument $refs are bound", loc(S.rel, f))
        break
    # R6.7 argument declarations: `<element class>:$<argument>` pairs the class of an argument with the same argument
    n_decl = 0
    for js in ast.walk(f):
        if not isinstance(js, ast.JoinedStr):
            continue
        vals = js.values
        for i in range(1, len(vals) - 1):
            if isinstance(vals[i], ast.Constant) and str(vals[i].value) == ":$" and isinstance(vals[i - 1], ast.FormattedValue) and isinstance(vals[i + 1], ast.FormattedValue):
                refv, clsv = vals[i + 1].value, vals[i - 1].value
                if not (isinstance(refv, ast.Attribute) and refv.attr == "ref" and isinstance(refv.value, ast.Name)):
                    continue
                V = refv.value.id
                cls_expr = clsv
                zipped = None
                if isinstance(clsv, ast.Name):
                    # `for typ, a in zip(element_types, args)`: the class list is paired with the arguments element by element
                    comp = getattr(js, "_parent", None)
                    while comp is not None and not isinstance(comp, (ast.ListComp, ast.GeneratorExp)):
                        comp = getattr(comp, "_parent", None)
                    if comp is not None and len(comp.generators) == 1 and isinstance(comp.generators[0].target, ast.Tuple) \
                            and isinstance(comp.generators[0].iter, ast.Call) and dotted(comp.generators[0].iter.func) == "zip":
                        tg = [x.id if isinstance(x, ast.Name) else None for x in comp.generators[0].target.elts]
                        za = comp.generators[0].iter.args
                        if clsv.id in tg and V in tg and len(za) == len(tg):
                            seq_cls, seq_v = za[tg.index(clsv.id)], za[tg.index(V)]
                            if isinstance(seq_cls, ast.Name):
                                d_ = [st for st in ast.walk(f) if isinstance(st, ast.Assign) and any(isinstance(t, ast.Name) and t.id == seq_cls.id for t in st.targets)]
                                seq_cls = d_[0].value if len(d_) == 1 else seq_cls
                            if isinstance(seq_cls, (ast.ListComp, ast.GeneratorExp)) and len(seq_cls.generators) == 1 and not seq_cls.generators[0].ifs \
                                    and isinstance(seq_cls.generators[0].target, ast.Name) and isinstance(seq_cls.elt, ast.IfExp):
                                zipped = (seq_cls, norm_src(seq_cls.generators[0].iter) == norm_src(seq_v))
                if zipped is not None:
                    seq_cls, same_iter = zipped
                    W = seq_cls.generators[0].target.id
                    cls_expr = seq_cls.elt
                    n_decl += 1
                    t = cls_expr.test
                    neg = False
                    if isinstance(t, ast.UnaryOp) and isinstance(t.op, ast.Not):
                        t, neg = t.operand, True
                    own = isinstance(t, ast.Attribute) and t.attr == "is_complex" and isinstance(t.value, ast.Name) and t.value.id == W
                    r.ob("R6.7", "targets/stablehlo.py::Printer.tostring argument element class is the argument's own", own and same_iter,
                         f"`{norm_src(js)}` declares `${V}.ref` with the class taken from `{norm_src(seq_cls)}`"
                         + ("" if own else f", whose choice is not the element's own is_complex")
                         + ("" if same_iter else ", a list over a different sequence than the arguments being declared")
                         + ": an argument whose complexness differs is declared with the wrong element type constraint", loc(S.rel, js))
                    a, b = ev(cls_expr.body), ev(cls_expr.orelse)
                    if neg:
                        a, b = b, a
                    r.ob("R6.7", "targets/stablehlo.py::Printer.tostring element class names", (a, b) == ("ComplexElementType", "NonComplexElementType"),
                         f"a complex argument is declared `{a}` and a real one `{b}`", loc(S.rel, cls_expr))
                    continue
                if isinstance(clsv, ast.Name):
                    defs = [st for st in ast.walk(f) if isinstance(st, ast.Assign) and any(isinstance(t, ast.Name) and t.id == clsv.id for t in st.targets)]
                    if len(defs) != 1:
                        raise AnalysisError(f"stablehlo.Printer.tostring: element class `{clsv.id}` has {len(defs)} definitions")
                    cls_expr = defs[0].value
                if not isinstance(cls_expr, ast.IfExp):
                    raise AnalysisError(f"stablehlo.Printer.tostring: element class `{norm_src(cls_expr)}` is not a conditional expression on is_complex")
                n_decl += 1
                t = cls_expr.test
                neg = False
                if isinstance(t, ast.UnaryOp) and isinstance(t.op, ast.Not):
                    t, neg = t.operand, True
                subj = t.value if isinstance(t, ast.Attribute) and t.attr == "is_complex" else None
                same = isinstance(subj, ast.Name) and subj.id == V
                # the class must be chosen where V denotes the argument being declared: inside the loop / comprehension binding V
                def _binder(n):
                    while n is not None and n is not f:
                        par = getattr(n, "_parent", None)
                        if isinstance(par, (ast.For,)) and isinstance(par.target, ast.Name) and par.target.id == V:
                            return par
                        if isinstance(par, (ast.GeneratorExp, ast.ListComp)) and any(isinstance(g_.target, ast.Name) and g_.target.id == V for g_ in par.generators):
                            return par
                        n = par
                    return None
                b1, b2 = _binder(js), _binder(cls_expr)
                same_scope = b1 is not None and b1 is b2
                r.ob("R6.7", "targets/stablehlo.py::Printer.tostring argument element class is the argument's own", same and same_scope,
                     f"`{norm_src(js)}` declares `${V}.ref` with the element class chosen by `{norm_src(cls_expr.test)}`"
                     + ("" if same else f", which is not `{V}.is_complex`")
                     + ("" if same_scope or not same else f", evaluated outside the loop that binds `{V}`")
                     + ": an argument whose complexness differs from that one is declared with the wrong element type constraint",
                     loc(S.rel, js))
                a, b = ev(cls_expr.body), ev(cls_expr.orelse)
                if neg:
                    a, b = b, a
                r.ob("R6.7", "targets/stablehlo.py::Printer.tostring element class names", (a, b) == ("ComplexElementType", "NonComplexElementType"),
                     f"a complex argument is declared `{a}` and a real one `{b}`", loc(S.rel, cls_expr))
    if n_decl == 0:
        raise AnalysisError("stablehlo.Printer.tostring: the argument declaration `<element class>:$<ref>` was not found")

    # R6.4 like operand of a constant: the short `$like.ref` form only under `like.ref in self.defined_refs`
    n_like = 0
    # the like operand is the second component of the constant's operands
    like_names = set()
    for st in ast.walk(f):
        if isinstance(st, ast.Assign) and isinstance(st.targets[0], ast.Tuple) and len(st.targets[0].elts) == 2 and norm_src(st.value) == "expr.operands" \
                and isinstance(st.targets[0].elts[1], ast.Name):
            like_names.add(st.targets[0].elts[1].id)
    if len(like_names) != 1:
        raise AnalysisError(f"stablehlo.Printer.tostring: `value, like = expr.operands` not found ({sorted(like_names)})")
    like = next(iter(like_names))
    def analyse_like(fn, like, depth=0):
        """the statements of `fn` (and of the printer's own helper methods the like operand is handed to) that turn the like operand
        into text: the short `$like.ref` form needs `like.ref in self.defined_refs` on its path, the printed sub-tree does not"""
        n_here = 0
        seen_keys = set()
        for p in enumerate_paths(fn, unroll=(0, 1)):
            items = [(i, e.node.value, e.node) for i, e in enumerate(p.events)
                     if e.kind == "stmt" and isinstance(e.node, ast.Assign) and isinstance(e.node.targets[0], ast.Name)]
            if depth > 0 and p.exit == "return" and p.exit_node is not None and p.exit_node.value is not None:
                items.append((len(p.events), p.exit_node.value, p.exit_node))
            for i, v, where in items:
                short = isinstance(v, ast.JoinedStr) and any(isinstance(x, ast.Attribute) and x.attr == "ref" and dotted(x.value) == like for x in ast.walk(v)) \
                    and not any(isinstance(x, ast.Name) and x.id not in (like,) for x in ast.walk(v))
                full = isinstance(v, ast.Call) and (call_name(v) or "").endswith("tostring") and len(v.args) >= 1 and dotted(v.args[0]) == like
                helper = None
                if isinstance(v, ast.Call) and isinstance(v.func, ast.Attribute) and dotted(v.func.value) == "self" and not full and depth < 2:
                    m_ = S.method(v.func.attr)
                    pos_ = [k for k, a in enumerate(v.args) if dotted(a) == like]
                    kw_ = [k.arg for k in v.keywords if dotted(k.value) == like]
                    if m_ is not None and (pos_ or kw_):
                        pname = m_.args.args[1 + pos_[0]].arg if pos_ else kw_[0]
                        helper = (m_, pname)
                if helper is not None:
                    if id(helper[0]) not in seen_keys:
                        seen_keys.add(id(helper[0]))
                        n_here += analyse_like(helper[0], helper[1], depth + 1)
                    continue
                if not (short or full):
                    continue
                n_here += 1
                guard = None
                for e2 in p.events[:i]:
                    if e2.kind == "test" and isinstance(e2.node, ast.Compare) and isinstance(e2.node.ops[0], (ast.In, ast.NotIn)) and dotted(e2.node.left) == f"{like}.ref" \
                            and (dotted(e2.node.comparators[0]) or "").endswith("defined_refs"):
                        guard = e2.pol if isinstance(e2.node.ops[0], ast.In) else not e2.pol
                if short:
                    ok = guard is True
                    why = ("the like operand is printed as the bare `$like.ref` on a path that does not establish `like.ref in "
                           "self.defined_refs`: the $ref may be unbound at this point of the pattern")
                else:
                    ok = True
                    why = ""
                r.ob("R6.4", "targets/stablehlo.py::Printer.tostring like operand " + ("short form" if short else "sub-tree"),
                     ok, why, loc(S.rel, where))
        return n_here

    n_like = analyse_like(f, like)
    if n_like == 0:
        raise AnalysisError("stablehlo.Printer.tostring: no statement printing the like operand found")
    # R6.4 the text of a numeric constant is the value itself: no conversion that merges values (int(-0.0) is 0, round, abs ...)
    val_names = set()
    for st in ast.walk(f):
        if isinstance(st, ast.Assign) and isinstance(st.targets[0], ast.Tuple) and len(st.targets[0].elts) == 2 and norm_src(st.value) == "expr.operands" \
                and isinstance(st.targets[0].elts[0], ast.Name):
            val_names.add(st.targets[0].elts[0].id)
    if len(val_names) != 1:
        raise AnalysisError("stablehlo.Printer.tostring: `value, like = expr.operands` not found")
    VALN = next(iter(val_names))
    n_ctext = 0
    seen_ct = set()
    for p in enumerate_paths(f, unroll=(0, 1)):
        if p.exit != "return" or p.exit_node.value is None:
            continue
        for js in ast.walk(p.exit_node.value):
            if not isinstance(js, ast.JoinedStr):
                continue
            vals = js.values
            for k in range(len(vals) - 1):
                if isinstance(vals[k], ast.Constant) and str(vals[k].value).endswith('StableHLO_ConstantLike<"') and isinstance(vals[k + 1], ast.FormattedValue):
                    n_ctext += 1
                    og = origins(vals[k + 1].value, p.events, len(p.events))
                    calls = sorted(v for k_, v in og if k_ == "call" and v.split(".")[-1] not in ("str", "repr"))
                    consts = sorted(v for k_, v in og if k_ == "const")
                    keyc = (tuple(calls), tuple(consts))
                    if keyc in seen_ct:
                        continue
                    seen_ct.add(keyc)
                    ok = not calls and not consts and any(k_ == "name" and v == VALN or k_ == "attr" and v.endswith("operands") for k_, v in og)
                    r.ob("R6.4", "targets/stablehlo.py::Printer.tostring numeric constant text is the value itself" + (f" [{', '.join(calls + consts)}]" if not ok else ""), ok,
                         f"on a path the text inside StableHLO_ConstantLike<\"...\"> is computed from the constant's value through {calls or consts}: a conversion "
                         "such as int() prints -0.0 as 0 (and 2.5 as 2), so the emitted pattern denotes another constant than the graph", loc(S.rel, js))
    if n_ctext == 0:
        raise AnalysisError("stablehlo.Printer.tostring: the generic constant text `StableHLO_ConstantLike<\"{value}\">` was not found")
    # normalize(): the like operand given to a bare Python number must come from the operation's own operands
    nz = repo.func("expr.py", "normalize")
    for p in enumerate_paths(nz, unroll=(0, 1)):
        if p.exit != "return":
            continue
        for i, e in enumerate(p.events):
            for c in calls_in(e.node) if e.kind == "stmt" else ():
                if (call_name(c) or "") == "make_constant" and len(c.args) == 3:
                    og = origins(c.args[2], p.events, i)
                    from_default = any(k == "attr" and v.endswith(".default_like") for k, v in og)
                    r.ob(
                        "R6.4",
                        "expr.py::normalize like operand of a literal" + (" [no Expr operand: context.default_like]" if from_default else ""),
                        not from_default,
                        "an operation whose operands are all Python numbers gets context.default_like as like operand: a symbol "
                        "(_tmpN) that is not an argument of the traced function, printed as an unbound name (ScalarLike(_tmp0, 2))",
                        loc("expr.py", c),
                    )
    # ---------------------------------------------------------------- R6.5 global names
    ms = repo.func("expr.py", "make_symbol")
    bad = []
    for d in ms.args.defaults + [d for d in ms.args.kw_defaults if d is not None]:
        if isinstance(d, (ast.List, ast.Dict, ast.Set)):
            bad.append(norm_src(d))
    r.ob("R6.5", "expr.py::make_symbol mutable default", not bad,
         f"make_symbol keeps a counter in a mutable default argument {bad}: generated symbol names (printed as like operands) depend on process history", loc("expr.py", ms))
    return r


def _adds_other(st, var):
    """defined_refs.add(<name>.ref) for a name other than `var` (the loop variable over the arguments, whatever it is called)."""
    for c in calls_in(st):
        if isinstance(c.func, ast.Attribute) and c.func.attr in ("add", "update") and (dotted(c.func.value) or "").endswith(".defined_refs") and c.args:
            # add(a.ref) in a loop, or update(<a.ref for a in args>): the refs of names other than the node being printed
            refs = [x for x in ast.walk(c.args[0]) if isinstance(x, ast.Attribute) and x.attr == "ref" and isinstance(x.value, ast.Name)]
            if refs and all(x.value.id != var for x in refs):
                return True
    return False


def _adds(st, var):
    for c in calls_in(st):
        if isinstance(c.func, ast.Attribute) and c.func.attr == "add" and (dotted(c.func.value) or "").endswith(".defined_refs"):
            if c.args and dotted(c.args[0]) == f"{var}.ref":
                return True
    return False
