"""C05 — Python / NumPy / C++ targets emit the traced graph.  Rules R5.1 .. R5.10 (DESIGN.md §3/C05)."""

from __future__ import annotations

import ast
import re

from sa.core import inlined_src, canon_locals, canon_src, AnalysisError, Report, loc, norm_src
from sa.consteval import ev, NOTIMPL, NameRef, Opaque
from sa import tmpl
from sa.tmpl import TemplateError
from sa.targets_model import (
    Target, kind_arities, known_names, reduce_term, accepts, Unknown, show_sem, cpp_declared, python_resolves,
    header_python_defs, K,
)
from sa.oracles import targets as O
from sa.paths import enumerate_paths, calls_in, call_name, dotted, event_has_call
from sa.defuse import origins, last_def

LANG = dict(python="python", numpy="python", cpp="clike", xla_client="clike")
OPS = dict(python=O.PY_OPS, numpy=O.PY_OPS, cpp=O.C_OPS, xla_client=O.C_OPS)
FUNCS = dict(python=O.PY_FUNCS, numpy=O.NUMPY_FUNCS, cpp=O.CPP_FUNCS, xla_client=O.XLA_FUNCS)
KIND_NAMED_FIELDS = {"typeof_0"}
CONST_NAMED_FIELDS = {"type"}


def parse_template(target, text):
    return tmpl.parse_python(text) if LANG[target] == "python" else tmpl.parse_clike(text)


def resolve_name(target, name, header_defs):
    """True: bound in the emitted code's environment; False: unbound; None: cannot tell."""
    if target in ("python", "numpy"):
        return python_resolves(name, header_defs)
    if target == "cpp":
        if name.startswith("std::"):
            return cpp_declared(name[5:])
        return None
    return None


def check_kind_templates(r, T, arities, rules=None):
    """R5.1-R5.4 for one target's kind_to_target table.  Returns {kind: semantic term} for later use."""
    target = T.name
    rules = rules or dict(arity="R5.1", parse="R5.2", sem="R5.3", bind="R5.4")
    header_defs = header_python_defs(T.repo, T.rel)
    sems = {}
    for kind, val in T.kinds.items():
        where = T.where(kind)
        key = f"{T.rel}::kind_to_target[{kind}]"
        if val is NOTIMPL or val is None:
            continue
        if isinstance(val, NameRef):
            # a callable template (upcast_func, ...): must be a module-level function
            ok = T.repo.has(T.rel, val.id)
            r.ob(rules["bind"], key, ok, f"callable template `{val.id}` is not defined in {T.rel}", where)
            continue
        if not isinstance(val, str):
            raise AnalysisError(f"{key}: entry of unexpected shape {val!r}")
        if kind not in arities:
            raise AnalysisError(f"{key}: arity of kind `{kind}` unknown (no Context constructor, not in fallback table)")
        n = arities[kind]
        try:
            pos, named = tmpl.fields(val)
        except TemplateError as e:
            r.ob(rules["parse"], key, False, str(e), where)
            continue
        ok = pos == set(range(n))
        r.ob(
            rules["arity"],
            key,
            ok and named <= KIND_NAMED_FIELDS,
            f"template `{val}` uses operand fields {sorted(pos)} and named fields {sorted(named)}; kind `{kind}` has {n} operand(s) "
            f"and the printer supplies only {sorted(KIND_NAMED_FIELDS)}",
            where,
        )
        if not ok:
            continue
        try:
            term = parse_template(target, val)
        except TemplateError as e:
            r.ob(rules["parse"], key, False, str(e), where)
            continue
        r.ob(rules["parse"], key, True, "", where)
        try:
            sem = reduce_term(term, OPS[target], FUNCS[target], LANG[target])
        except Unknown as u:
            res = resolve_name(target, u.name, header_defs) if u.what == "function" else None
            if u.what == "function" and (res is False or (res is None and target in ("xla_client",))):
                r.ob(
                    rules["bind"],
                    key,
                    False,
                    f"template `{val}` calls `{u.name}`, which is not a name the {target} environment provides",
                    where,
                )
                continue
            raise AnalysisError(f"{key}: {u.what} `{u.name}` in template `{val}` exists but is not modelled by the oracle")
        # every cname left over must be bound
        r.ob(rules["bind"], key, True, "", where)
        ok, why = accepts(kind, sem, n)
        r.ob(
            rules["sem"],
            key,
            ok,
            why,
            where,
            sample=dict(rule=rules["sem"], key=key, template=val, reduced=show_sem(sem)),
        )
        sems[kind] = sem
    return sems


# --------------------------------------------------------------------------- named constants


def const_meaning(target, text):
    """Reduce a constant template to (constant name, uses_type_field) or raise Unknown/TemplateError."""
    term = parse_template(target, text)
    uses_type = any(x[0] == "named" and x[1] == "type" for x in tmpl.walk(term) if isinstance(x, tuple))

    def go(t):
        if t[0] == "op" and t[1] == "neg":
            m = go(t[2][0])
            if m == "posinf":
                return "neginf"
            if m == "largest":
                return "-largest"
            raise Unknown(tmpl.show(t), "constant")
        if t[0] == "name":
            tbl = {"python": O.PY_CONSTS, "numpy": O.NUMPY_CONSTS, "cpp": O.CPP_MACROS, "xla_client": O.CPP_MACROS}[target]
            if t[1] in tbl:
                return tbl[t[1]]
            raise Unknown(t[1], "constant")
        if t[0] == "num":
            v = float(t[1].rstrip("fFlL"))
            if v == 5e-324:
                return "smallest_subnormal"
            raise Unknown(t[1], "constant")
        if t[0] == "call":
            callee, args = t[1], t[2]
            if callee == ("name", "math.ulp") and args == [("num", "0.0")]:
                return "smallest_subnormal"
            if callee == ("name", "float") and len(args) == 1 and args[0][0] == "str":
                return {"inf": "posinf", "+inf": "posinf", "-inf": "neginf", "nan": "nan"}.get(args[0][1].lower()) or _unk(t)
            if callee[0] == "named" and callee[1] == "type" and len(args) == 1:
                return go(args[0])  # {type}(numpy.inf)
            if callee[0] == "attr" and callee[1][0] == "tname" and callee[1][1] == "std::numeric_limits" and not args:
                if callee[2] in O.CPP_LIMITS:
                    return O.CPP_LIMITS[callee[2]]
                if callee[2] == "lowest":
                    return "-largest"
            _unk(t)
        if t[0] == "attr":
            base = t[1]
            if base[0] == "call" and base[1] == ("name", "numpy.finfo") and t[2] in O.NUMPY_FINFO:
                return O.NUMPY_FINFO[t[2]]
            _unk(t)
        _unk(t)

    return go(term), uses_type


def _unk(t):
    raise Unknown(tmpl.show(t), "constant")


def check_constants(r, T, const_names, rule="R5.5"):
    target = T.name
    for name, val in T.consts.items():
        key = f"{T.rel}::constant_to_target[{name}]"
        where = loc(T.rel, T.const_nodes.get(name, T.consts_node))
        if not isinstance(val, str):
            raise AnalysisError(f"{key}: entry of unexpected shape {val!r}")
        try:
            pos, named = tmpl.fields(val)
            if pos or not named <= CONST_NAMED_FIELDS:
                r.ob(rule, key, False, f"constant template `{val}` uses fields {sorted(pos)} {sorted(named)}; only {{type}} is supplied", where)
                continue
            meaning, uses_type = const_meaning(target, val)
        except TemplateError as e:
            r.ob(rule, key, False, str(e), where)
            continue
        except Unknown as u:
            raise AnalysisError(f"{key}: spelling `{val}` is not modelled by the constant oracle ({u.name})")
        ok = meaning == name
        detail = "" if ok else f"`{val}` denotes `{meaning}`, but it is registered for the constant `{name}`"
        if ok and name in O.TYPE_DEPENDENT and target in ("numpy", "cpp") and not uses_type:
            ok = False
            detail = f"`{val}` does not depend on {{type}} although the value of `{name}` differs between float types"
        r.ob(rule, key, ok, detail, where, sample=dict(rule=rule, key=key, template=val, denotes=meaning))
    for name in sorted(const_names - {"undefined"}):
        key = f"{T.rel}::constant_to_target missing {name}"
        r.ob(
            rule,
            key,
            name in T.consts,
            f"known constant `{name}` has no entry: the printer then emits the bare identifier `{name}`, unbound in the generated source",
            loc(T.rel, T.consts_node),
        )


# --------------------------------------------------------------------------- types


def check_types(r, T, oracle, rule="R5.6"):
    if T.types is None:
        raise AnalysisError(f"{T.rel}: type_to_target table vanished")
    for k, v in T.types.items():
        key = f"{T.rel}::type_to_target[{k}]"
        if k not in oracle:
            continue
        want = oracle[k] if isinstance(oracle[k], set) else {oracle[k]}
        r.ob(rule, key, v in want, f"type `{k}` is emitted as `{v}`; expected one of {sorted(want)}", loc(T.rel, T.types_node))


def check_cast_tables(r, T, rule="R5.6"):
    import re

    tables = {}
    for fname in ("upcast_func", "downcast_func"):
        f = T.repo.func(T.rel, fname)
        dicts = [n for n in ast.walk(f) if isinstance(n, ast.Dict)]
        # a table hoisted to module level: a name the function reads that the module binds, once, to a dict literal
        used = {n.id for n in ast.walk(f) if isinstance(n, ast.Name) and isinstance(n.ctx, ast.Load)}
        mod = T.repo.tree(T.rel)
        for nm in sorted(used):
            binds = [st for st in mod.body if isinstance(st, ast.Assign) and any(isinstance(t, ast.Name) and t.id == nm for t in st.targets)]
            if len(binds) == 1 and isinstance(binds[0].value, ast.Dict):
                dicts.append(binds[0].value)
        if len(dicts) != 1:
            raise AnalysisError(f"{T.rel}::{fname}: expected one dict literal, found {len(dicts)}")
        d = ev(dicts[0])
        if not isinstance(d, dict):
            raise AnalysisError(f"{T.rel}::{fname}: dict literal not constant")
        tables[fname] = d
        factor = 2 if fname == "upcast_func" else 0.5
        for k, v in d.items():
            mk, mv = re.fullmatch(r"numpy\.([a-z]+?)(\d+)", k), re.fullmatch(r"numpy\.([a-z]+?)(\d+)", v)
            ok = bool(mk and mv and mk.group(1) == mv.group(1) and int(mv.group(2)) == int(mk.group(2)) * factor)
            r.ob(rule, f"{T.rel}::{fname}[{k}]", ok, f"{fname} maps {k} to {v}: not the same family at {'twice' if factor == 2 else 'half'} the width", loc(T.rel, dicts[0]))
    # every return of a cast printer wraps the *printed operand* (target.tostring(x)) in the new type: the operand keeps its own
    # type inside the cast.  A literal re-materialised in the new type (make_constant(expr, x.operands[0])) skips the rounding to
    # the narrower type that the graph node upcast(constant(0.1, x: float32)) denotes.
    from sa.core import inline_helpers
    for fname in ("upcast_func", "downcast_func"):
        f = inline_helpers(T.repo, T.rel, T.repo.func(T.rel, fname))
        # the operand: the name unpacked from expr.operands
        opn = None
        for st in f.body:
            if isinstance(st, ast.Assign) and isinstance(st.targets[0], ast.Tuple) and len(st.targets[0].elts) == 1 and norm_src(st.value).endswith(".operands"):
                opn = st.targets[0].elts[0].id
        if opn is None:
            raise AnalysisError(f"{T.rel}::{fname}: `(x,) = expr.operands` not found")
        printed = {st.targets[0].id for st in ast.walk(f) if isinstance(st, ast.Assign) and isinstance(st.targets[0], ast.Name) and isinstance(st.value, ast.Call)
                   and (call_name(st.value) or "").endswith("tostring") and st.value.args and dotted(st.value.args[0]) == opn}
        n_ret = 0
        for rt in [n for n in ast.walk(f) if isinstance(n, ast.Return) and n.value is not None]:
            n_ret += 1
            v = rt.value
            ok = False
            if isinstance(v, ast.JoinedStr):
                fvs = [x.value for x in v.values if isinstance(x, ast.FormattedValue)]
                inner = [x for x in fvs if (isinstance(x, ast.Name) and x.id in printed) or (isinstance(x, ast.Call) and (call_name(x) or "").endswith("tostring") and x.args and dotted(x.args[0]) == opn)]
                ok = len(inner) == 1
            r.ob(rule, f"{T.rel}::{fname} return wraps the printed operand", ok,
                 f"`{norm_src(v)[:90]}` does not print the operand through target.tostring({opn}) inside the new type: a literal operand then loses the cast to its "
                 "own (narrower) type, e.g. numpy.float64(0.1) instead of numpy.float64(numpy.float32(0.1))", loc(T.rel, rt))
        if n_ret == 0:
            raise AnalysisError(f"{T.rel}::{fname}: no return statement")
    up, down = tables["upcast_func"], tables["downcast_func"]
    for k, v in up.items():
        if v in down:
            r.ob(rule, f"{T.rel}::downcast(upcast({k}))", down[v] == k, f"downcast table maps {v} to {down[v]}, not back to {k}", loc(T.rel, T.repo.func(T.rel, "downcast_func")))


# --------------------------------------------------------------------------- typed literals (R5.7)


def check_make_constant(r, T, typed_required, rule="R5.7"):
    f = T.method("make_constant")
    if f is None:
        raise AnalysisError(f"{T.rel}: Printer.make_constant vanished")
    like = f.args.args[1].arg if len(f.args.args) > 1 else None
    for p in enumerate_paths(f):
        if p.exit != "return" or p.exit_node.value is None:
            continue
        og = origins(p.exit_node.value, p.events, len(p.events))
        typed = any(k == "name" and v == like for k, v in og)
        cn = canon_locals(f)
        conds = " & ".join(("" if e.pol else "not ") + canon_src(e.node, cn) for e in p.events if e.kind == "test")
        key = f"{T.rel}::Printer.make_constant path [{conds}]"
        if not typed_required:
            r.info(rule, f"{T.rel}: literals are untyped by design of the target language (dynamic typing, true division)")
            return
        r.ob(
            rule,
            key,
            typed,
            f"the returned literal `{norm_src(p.exit_node.value)}` does not depend on the type of `{like}`: a constant such as 1 or 0.1 "
            "is emitted as a bare int/double literal and the surrounding arithmetic is evaluated in that type",
            loc(T.rel, p.exit_node),
        )


# --------------------------------------------------------------------------- printer discipline (R5.8 - R5.10)


def _is_ref_test(test, attr):
    """`expr.ref in self.defined_refs` (attr='defined_refs') or `self.need_ref.get(expr.ref)`."""
    for n in ast.walk(test):
        if isinstance(n, ast.Attribute) and n.attr == attr:
            return True
    return False


def check_printer_base(r, repo):
    rel = "targets/base.py"
    f = repo.func(rel, "PrinterBase.tostring")
    n_assign_paths = 0
    for p in enumerate_paths(f, unroll=(0, 1)):
        if p.exit == "raise":
            continue
        evs = p.events
        # early return of a bound name
        ret = p.exit_node
        tests = [(e.node, e.pol) for e in evs if e.kind == "test"]
        first_defined_test = next((pol for t, pol in tests if isinstance(t, ast.Compare) and _is_ref_test(t, "defined_refs")), None)
        is_early = first_defined_test is True
        if is_early:
            ok = isinstance(ret.value, ast.Attribute) and ret.value.attr == "ref"
            r.ob("R5.8", "base.py::PrinterBase.tostring early return", ok, f"path guarded by `ref in defined_refs` returns `{norm_src(ret.value)}` instead of the bound name", loc(rel, ret))
            continue
        if first_defined_test is None:
            r.ob("R5.8", f"base.py::PrinterBase.tostring path {p.describe()}", False, "path never tests `expr.ref in self.defined_refs` before printing the expression", loc(rel, f))
            continue
        idx_append = [i for i, e in enumerate(evs) if e.kind == "stmt" and _appends_assignment(e.node)]
        idx_add = [i for i, e in enumerate(evs) if e.kind == "stmt" and _adds_defined(e.node, "expr")]
        need = next((pol for t, pol in tests if _is_ref_test(t, "need_ref") and not isinstance(t, ast.Compare)), None)
        key = f"base.py::PrinterBase.tostring need_ref={need} path"
        if need is True:
            n_assign_paths += 1
            ok = len(idx_append) >= 1 and len(idx_add) == 1 and idx_append[0] < idx_add[0]
            detail = "" if ok else f"need_ref path appends {len(idx_append)} assignment(s) and marks the ref defined {len(idx_add)} time(s)"
            # result must become the bound name
            if ok:
                og = origins(ret.value, evs, len(evs))
                ok = any(k == "attr" and v.endswith(".ref") for k, v in og)
                detail = "" if ok else f"after assigning, the path returns `{norm_src(ret.value)}` (origins {sorted(og)}) instead of the variable name"
            r.ob("R5.8", key, ok, detail, loc(rel, f))
        else:
            ok = not idx_append and not idx_add
            r.ob("R5.8", key, ok, "path without need_ref assigns or marks the ref as defined", loc(rel, f))
    if n_assign_paths == 0 and not any(o["rule"] == "R5.8" and not o["ok"] for o in r.obligations):
        raise AnalysisError("PrinterBase.tostring: no assignment path recognised")
    # R5.10 template application: operands forwarded in order, unsliced
    # the operator template is the local looked up in self.kind_to_target by expr.kind, whatever it is called
    fmt_calls = [c for c in calls_in(f) if isinstance(c.func, ast.Attribute) and c.func.attr == "format"
                 and inlined_src(c.func.value, f).replace(" ", "").startswith("self.kind_to_target.get(expr.kind")]
    if len(fmt_calls) != 1:
        raise AnalysisError(f"PrinterBase.tostring: expected one format call on the kind_to_target template, found {len(fmt_calls)}")
    c = fmt_calls[0]
    ok = False
    detail = "operands are not forwarded as `*[self.tostring(op) for op in expr.operands]`"
    if c.args and isinstance(c.args[0], ast.Starred):
        lc = c.args[0].value
        if isinstance(lc, (ast.ListComp, ast.GeneratorExp)) and len(lc.generators) == 1 and not lc.generators[0].ifs:
            g = lc.generators[0]
            it = g.iter
            elt = lc.elt
            if (
                dotted(it) == "expr.operands"
                and isinstance(g.target, ast.Name)
                and isinstance(elt, ast.Call)
                and (dotted(elt.func) or "").endswith("tostring")
                and len(elt.args) >= 1
                and dotted(elt.args[0]) == g.target.id
            ):
                ok = True
            else:
                detail = f"operand list is `{norm_src(lc)}`: not every operand of expr.operands, in order, printed by tostring"
    r.ob("R5.10", "base.py::PrinterBase.tostring tmpl.format", ok, detail, loc(rel, c))
    # init_arguments: every argument ref is defined before the body is printed
    ia = repo.func(rel, "PrinterBase.init_arguments")
    loops = [n for n in ia.body if isinstance(n, ast.For)]
    if len(loops) != 1:
        raise AnalysisError("PrinterBase.init_arguments: expected one top-level loop over args")
    lp = loops[0]
    first = lp.body[0] if lp.body else None
    ok = first is not None and _adds_defined(first, lp.target.id if isinstance(lp.target, ast.Name) else "?")
    r.ob("R5.8", "base.py::PrinterBase.init_arguments defines each argument", ok, "the loop over arguments does not start by adding the argument's ref to defined_refs", loc(rel, lp))
    # apply branch: arguments initialised before make_apply prints the body
    for p in enumerate_paths(f, unroll=(0,)):
        i_apply = next((i for i, e in enumerate(p.events) if event_has_call(e, "make_apply")), None)
        if i_apply is None:
            continue
        i_init = next((i for i, e in enumerate(p.events) if event_has_call(e, "init_arguments")), None)
        ok = i_init is not None and i_init < i_apply
        r.ob("R5.8", "base.py::PrinterBase.tostring apply: init_arguments before make_apply", ok, "function body is printed before the arguments are marked as defined", loc(rel, f))
        break
    # who may write printer state
    for rel2 in repo.py_files():
        t = repo.tree(rel2)
        for n in ast.walk(t):
            if isinstance(n, ast.Call) and isinstance(n.func, ast.Attribute) and n.func.attr in ("add", "append", "extend", "update", "clear", "discard", "remove", "pop", "insert"):
                d = dotted(n.func.value) or ""
                if d.endswith(".defined_refs") or d.endswith(".assignments"):
                    ok = rel2.startswith("targets/")
                    r.ob("R5.8", f"{rel2} writer of {d.split('.')[-1]} ({_fn(n)})", ok, "printer state is mutated outside the target printers", loc(rel2, n))


PY_PREC = {"select": 1, "or": 2, "and": 3, "not": 4, "<": 5, "<=": 5, ">": 5, ">=": 5, "==": 5, "!=": 5, "is": 5, "is not": 5, "|": 6, "^": 7, "&": 8,
           "<<": 9, ">>": 9, "+": 10, "-": 10, "*": 11, "/": 11, "//": 11, "%": 11, "@": 11, "neg": 12, "pos": 12, "~": 12, "**": 13}
C_PREC = {"select": 1, "||": 2, "&&": 3, "|": 4, "^": 5, "&": 6, "==": 7, "!=": 7, "<": 8, "<=": 8, ">": 8, ">=": 8, "<<": 9, ">>": 9, "+": 10, "-": 10,
          "*": 11, "/": 11, "%": 11, "neg": 12, "pos": 12, "not": 12, "~": 12}
ATOM = 20


def _outer_wrapped(text):
    t = text.strip()
    if not (t.startswith("(") and t.endswith(")")):
        return False
    depth = 0
    for i, ch in enumerate(t):
        if ch == "(":
            depth += 1
        elif ch == ")":
            depth -= 1
            if depth == 0 and i != len(t) - 1:
                return False
    return depth == 0


def _result_prec(target, text, term):
    """Binding strength of a template's own result when it is spliced into another template without parentheses."""
    if _outer_wrapped(text):
        return ATOM
    if term[0] != "op":
        return ATOM
    prec = PY_PREC if LANG[target] == "python" else C_PREC
    return prec.get(term[1], 0)


def _bare_slots(target, text, term):
    """Yield (field, context operator, its precedence) for operand fields that are neither parenthesised nor a whole call argument / index."""
    import re as _re

    protected = set()
    for m in _re.finditer(r"\{(\d+)\}", text):
        i, a, b = int(m.group(1)), m.start(), m.end()
        before = text[:a].rstrip()
        after = text[b:].lstrip()
        if before.endswith("(") and after.startswith(")"):
            protected.add((i, a))
        elif (before.endswith("(") or before.endswith(",") or before.endswith("[")) and (after.startswith(",") or after.startswith(")") or after.startswith("]")):
            protected.add((i, a))
    occurrences = [(int(m.group(1)), m.start()) for m in _re.finditer(r"\{(\d+)\}", text)]
    bare_fields = [i for (i, a) in occurrences if (i, a) not in protected]
    if not bare_fields:
        return
    prec = PY_PREC if LANG[target] == "python" else C_PREC

    def walk(t, parent):
        if t[0] == "arg" and t[1] in bare_fields and parent is not None:
            yield t[1], parent
        if t[0] == "op":
            for k, x in enumerate(t[2]):
                # the middle operand of a C ternary is a full expression: no constraint
                if t[1] == "select" and LANG[target] != "python" and k == 1:
                    continue
                yield from walk(x, t[1])
        elif t[0] == "call":
            yield from walk(t[1], "postfix")
            for x in t[2]:
                yield from walk(x, None)
        elif t[0] in ("attr",):
            yield from walk(t[1], "postfix")
        elif t[0] == "index":
            yield from walk(t[1], "postfix")
            yield from walk(t[2], None)

    for field, op in walk(term, None):
        yield field, op, (ATOM - 1 if op == "postfix" else prec.get(op, 0))


def check_template_composability(r, T, rule="R5.11"):
    """A template's text is spliced verbatim into the operand fields of other templates.  Wherever a field is used bare (not `({i})`,
    not a whole call argument), every template of the target must print something that binds tighter than the surrounding operator."""
    target = T.name
    parsed = {}
    for kind, val in T.kinds.items():
        if isinstance(val, str):
            try:
                parsed[kind] = (val, parse_template(target, val))
            except (TemplateError, AnalysisError):
                continue
    slots = []
    for kind, (val, term) in parsed.items():
        for field, op, p in _bare_slots(target, val, term):
            slots.append((kind, field, op, p))
    if not slots:
        r.ob(rule, f"{T.rel} every operand field is parenthesised or a call argument", True, "", loc(T.rel, T.kinds_node))
        return
    BOOLEAN = {"lt", "le", "gt", "ge", "eq", "ne", "logical_and", "logical_or", "logical_xor", "logical_not", "is_finite", "is_inf", "is_nan", "is_posinf", "is_neginf", "is_negzero"}
    INTEGER = {"bitwise_and", "bitwise_or", "bitwise_xor", "bitwise_invert", "bitwise_left_shift", "bitwise_right_shift"}
    CONTAINER = {"list"}

    def category(kind):
        return "boolean" if kind in BOOLEAN else "integer" if kind in INTEGER else "container" if kind in CONTAINER else "numeric"

    def slot_category(kind, field):
        if kind == "item":
            return "container" if field == 0 else "integer"
        if kind == "select" and field == 0:
            return "boolean"
        if kind in ("logical_and", "logical_or", "logical_xor", "logical_not"):
            return "boolean"
        if kind in INTEGER:
            return "integer"
        return "numeric"

    for kind, (val, term) in parsed.items():
        rp = _result_prec(target, val, term)
        relevant = [s_ for s_ in slots if slot_category(s_[0], s_[1]) == category(kind)]
        if not relevant:
            continue
        need = max(p_ for _, _, _, p_ in relevant)
        worst = [s_ for s_ in relevant if s_[3] == need][0]
        ok = rp > need
        r.ob(rule, f"{T.rel}::kind_to_target[{kind}] composes under bare operand fields", ok,
             f"template `{val}` prints an unparenthesised `{term[1] if term[0] == 'op' else '?'}` expression, but `{worst[0]}` splices operand {{{worst[1]}}} bare next to "
             f"`{worst[2]}`: {worst[0]}({kind}(...)) is then parsed with the wrong grouping by the target language", T.where(kind))


def check_template_nesting_by_parsing(r, T, rule="R5.11"):
    """Parse-based cross-check of composability: splice every template (operands replaced by distinct identifiers) into every bare
    operand field of every other type-compatible template and parse the result in the target language; the spliced text must come
    back as ONE sub-tree at the operand position (i.e. `outer(inner(...))` is what the target language reads)."""
    import re as _re

    target = T.name
    entries = {k: v for k, v in T.kinds.items() if isinstance(v, str)}
    parsed = {}
    for k, v in entries.items():
        try:
            parsed[k] = parse_template(target, v)
        except (TemplateError, AnalysisError):
            pass
    BOOLEAN = {"lt", "le", "gt", "ge", "eq", "ne", "logical_and", "logical_or", "logical_xor", "logical_not", "is_finite", "is_inf", "is_nan", "is_posinf", "is_neginf", "is_negzero"}
    INTEGER = {"bitwise_and", "bitwise_or", "bitwise_xor", "bitwise_invert", "bitwise_left_shift", "bitwise_right_shift"}

    def cat(kind):
        return "boolean" if kind in BOOLEAN else "integer" if kind in INTEGER else "container" if kind == "list" else "numeric"

    def slot_cat(kind, field):
        if kind == "item":
            return "container" if field == 0 else "integer"
        if kind == "select" and field == 0:
            return "boolean"
        if kind in ("logical_and", "logical_or", "logical_xor", "logical_not"):
            return "boolean"
        if kind in INTEGER:
            return "integer"
        return "numeric"

    n = 0
    for outer, otext in entries.items():
        if outer not in parsed:
            continue
        fields = sorted({int(m) for m in _re.findall(r"\{(\d+)\}", otext)})
        for f in fields:
            for inner, itext in entries.items():
                if inner not in parsed or cat(inner) != slot_cat(outer, f):
                    continue
                # inner with its own operands renamed to distinct atoms
                inner_txt = _re.sub(r"\{(\d+)\}", lambda m: f"q{m.group(1)}", itext)
                inner_txt = _re.sub(r"\{(\w+)\}", "T", inner_txt)
                marker = "ZZ()"
                def fill(m):
                    return marker if int(m.group(1)) == f else f"p{m.group(1)}"
                composed = _re.sub(r"\{(\d+)\}", fill, otext)
                composed = _re.sub(r"\{(\w+)\}", "T", composed)
                with_marker = composed
                with_inner = composed.replace(marker, inner_txt)
                try:
                    if LANG[target] == "python":
                        t_marker = tmpl._py(ast.parse(with_marker.strip(), mode="eval").body)
                        t_inner = tmpl._py(ast.parse(with_inner.strip(), mode="eval").body)
                        t_sub = tmpl._py(ast.parse(inner_txt.strip(), mode="eval").body)
                    else:
                        t_marker = tmpl._CParser(with_marker).parse()
                        t_inner = tmpl._CParser(with_inner).parse()
                        t_sub = tmpl._CParser(inner_txt).parse()
                except (SyntaxError, TemplateError, AnalysisError):
                    n += 1
                    r.ob(rule, f"{T.rel}::{outer}({inner}(...)) parses", False,
                         f"`{with_inner}` (template of `{outer}` with the template of `{inner}` spliced into operand {{{f}}}) does not parse", T.where(outer))
                    continue

                def subst(t):
                    if t == ("call", ("name", "ZZ"), []):
                        return t_sub
                    if isinstance(t, tuple):
                        return tuple(subst(x) if isinstance(x, (tuple, list)) else x for x in t)
                    if isinstance(t, list):
                        return [subst(x) for x in t]
                    return t

                def canon(t):
                    if isinstance(t, tuple) and len(t) == 2 and t[0] == "name" and "." in t[1] and "::" not in t[1]:
                        parts = t[1].split(".")
                        c = ("name", parts[0])
                        for q in parts[1:]:
                            c = ("attr", c, q)
                        return c
                    if isinstance(t, tuple):
                        return tuple(canon(x) if isinstance(x, (tuple, list)) else x for x in t)
                    if isinstance(t, list):
                        return [canon(x) for x in t]
                    return t

                n += 1
                ok = canon(subst(t_marker)) == canon(t_inner)
                if not ok:
                    r.ob(rule, f"{T.rel}::{outer}({inner}(...)) keeps its grouping", False,
                         f"`{with_inner}` is read by the target language as `{tmpl.show(t_inner)}`, not as {outer} applied to the whole `{inner_txt}`: "
                         f"operand {{{f}}} of `{outer}` is spliced without parentheses and `{inner}` prints an unparenthesised expression", T.where(outer))
    r.ob(rule, f"{T.rel} nesting of templates checked by parsing", True, "", loc(T.rel, T.kinds_node), sample=dict(rule=rule, target=target, compositions_parsed=n))


def check_printer_state_not_rebound(r, repo, rule):
    """PrinterBase.__init__ makes the constant printer share `assignments`/`defined_refs` by aliasing the same list/set object.
    Rebinding either attribute afterwards silently breaks the sharing: statements and bindings recorded by the constant printer
    are lost, names stay marked as defined and are printed unbound."""
    base = repo.tree("targets/base.py")
    shares = [n for n in ast.walk(base) if isinstance(n, ast.Assign) and any(isinstance(t, ast.Attribute) and t.attr in ("assignments", "defined_refs") and "constant_printer" in norm_src(t) for t in n.targets)]
    r.ob(rule, "targets/base.py::PrinterBase.__init__ constant printer shares assignments and defined_refs", len(shares) >= 2,
         "the constant printer no longer shares the statement list / the set of defined names with the main printer", loc("targets/base.py", base))
    n = 0
    for rel2 in repo.py_files("targets"):
        for node in ast.walk(repo.tree(rel2)):
            if isinstance(node, ast.Attribute) and isinstance(node.ctx, ast.Store) and node.attr in ("assignments", "defined_refs"):
                f = _fn(node)
                n += 1
                ok = f.endswith("__init__")
                r.ob(rule, f"{rel2} rebinding of {node.attr} in {f}", ok,
                     f"`{norm_src(getattr(node, '_parent', node))}` rebinds `{node.attr}` outside the constructor: the object shared with the constant printer "
                     "(PrinterBase.__init__ aliases it) is replaced, so assignments/bindings made through the other printer are lost", loc(rel2, node))
    if n < 2:
        raise AnalysisError("printer state attributes `assignments`/`defined_refs` are not assigned anywhere in targets/")


def _fn(n):
    names = []
    while n is not None:
        if isinstance(n, (ast.FunctionDef, ast.ClassDef)):
            names.append(n.name)
        n = getattr(n, "_parent", None)
    return ".".join(reversed(names))


def _appends_assignment(st):
    for c in calls_in(st):
        if isinstance(c.func, ast.Attribute) and c.func.attr == "append" and (dotted(c.func.value) or "").endswith(".assignments"):
            for c2 in calls_in(c):
                if (call_name(c2) or "").endswith("make_assignment"):
                    return True
    return False


def _adds_defined(st, var):
    for c in calls_in(st):
        if isinstance(c.func, ast.Attribute) and c.func.attr == "add" and (dotted(c.func.value) or "").endswith(".defined_refs"):
            if c.args and dotted(c.args[0]) == f"{var}.ref":
                return True
    return False


def check_make_ref(r, repo):
    rel = "expr.py"
    f = repo.func(rel, "make_ref")
    cn = canon_locals(f)
    n = 0
    for p in enumerate_paths(f):
        if p.exit != "return":
            continue
        n += 1
        og = origins(p.exit_node.value, p.events, len(p.events))
        registered = any(k == "call" and v.endswith("_register_reference") for k, v in og)
        existing = False
        for i_e, e in enumerate(p.events):
            if e.kind == "test" and e.pol and isinstance(e.node, ast.Call) and dotted(e.node.func) == "isinstance":
                a = e.node.args
                if len(a) == 2 and isinstance(a[0], ast.Name) and dotted(a[1]) == "str":
                    # the tested value is the expression's stored reference: expr.props.get("ref", ...)
                    ld = last_def(a[0].id, p.events, i_e)
                    src = norm_src(ld[1]).replace("'", '"') if ld else ""
                    if src.startswith('expr.props.get("ref"') or src == 'expr.props["ref"]':
                        existing = True
        fresh = any(k in ("const",) or (k == "call" and v in ("make_ref", "toidentifier", "map", "list")) for k, v in og) or not existing
        ok = registered or existing
        key = f"expr.py::make_ref exit `{norm_src(p.exit_node)}` under [{' & '.join(('' if e.pol else 'not ') + norm_src(e.node) for e in p.events if e.kind == 'test')[-110:]}]"
        r.ob(
            "R5.9",
            f"expr.py::make_ref exit `{canon_src(p.exit_node, cn)}`" + ("" if ok else f" guarded by `{_last_test(p, cn)}`"),
            ok,
            "a freshly generated reference name leaves make_ref without passing through Context._register_reference, so nothing "
            "checks that another expression does not already own the same name",
            loc(rel, p.exit_node),
        )
    if n < 3:
        raise AnalysisError("make_ref: fewer return paths than expected")
    check_toidentifier(r, repo, "R5.9")
    # generated names must not be normalised lossily afterwards (the name is the printers' only key for "same value")
    mr = repo.func(rel, "make_ref")
    hits = lossy_name_transforms(mr)
    for node, what in hits:
        r.ob("R5.9", f"expr.py::make_ref lossy normalisation of a generated name ({what})", False,
             f"`{norm_src(node)}`: a generated reference name is passed through `{what}`, which maps different names to one (e.g. collapsing `__` "
             "makes `subtract__x_0__y`, the name of subtract(_x_0_, y), equal to `subtract_x_0_y`, the name of subtract(x_0, y)); the names are "
             "not registered, so both expressions share one variable in the emitted code", loc(rel, node))
    probe = ast.parse("def make_ref(expr):\n    ref = '_'.join(lst).replace('__', '_')\n    return ref[:40]\n").body[0]
    if len(lossy_name_transforms(probe)) != 2:
        raise AnalysisError("R5.9: the lossy-normalisation detector does not recognise its positive example")
    r.ob("R5.9", "expr.py::make_ref applies no lossy normalisation to generated names", not hits, "", loc(rel, mr))
    # _register_reference: the key that is stored is the key that was just looked up and found free
    rr = repo.func("context.py", "Context._register_reference")
    stores = 0
    for p in enumerate_paths(rr, unroll=(0, 1, 2)):
        for i, e in enumerate(p.events):
            if e.kind == "stmt" and isinstance(e.node, ast.Assign):
                t = e.node.targets[0]
                if isinstance(t, ast.Subscript) and (dotted(t.value) or "").endswith("._ref_values"):
                    stores += 1
                    keyname = dotted(t.slice)
                    ok, why = _stored_key_was_free(p, i, keyname)
                    r.ob(
                        "R5.9",
                        "context.py::Context._register_reference store path " + p.describe().split("->")[0].strip()[-150:],
                        ok,
                        why,
                        loc("context.py", e.node),
                    )
    if stores == 0:
        raise AnalysisError("_register_reference: store into _ref_values not found")
    # foreign writers of _ref_values / props['ref']
    for rel2 in repo.py_files():
        t = repo.tree(rel2)
        for node in ast.walk(t):
            if isinstance(node, ast.Subscript) and isinstance(node.ctx, ast.Store) and (dotted(node.value) or "").endswith("._ref_values"):
                ok = rel2 == "context.py" and _fn(node).endswith("_register_reference")
                r.ob("R5.9", f"{rel2} writer of _ref_values ({_fn(node)})", ok, "_ref_values written outside Context._register_reference", loc(rel2, node))
            if isinstance(node, ast.Call) and isinstance(node.func, ast.Attribute) and node.func.attr == "update" and (dotted(node.func.value) or "").endswith(".props"):
                if any(kw.arg == "ref" for kw in node.keywords):
                    ok = rel2 == "context.py" and _fn(node).endswith("_register_reference")
                    r.ob("R5.9", f"{rel2} writer of props['ref'] ({_fn(node)})", ok, "props['ref'] set outside Context._register_reference", loc(rel2, node))


def _last_test(p, cn=None):
    ts = [e for e in p.events if e.kind == "test"]
    if not ts:
        return "true"
    e = ts[-1]
    return ("" if e.pol else "not ") + (canon_src(e.node, cn) if cn else norm_src(e.node))


def _stored_key_was_free(p, i_store, keyname):
    """Walk back from the store: the last lookup `other = self._ref_values.get(X)` must be for the value that `keyname`
    holds at the store, and the path must establish that its result was None."""
    evs = p.events
    # find last lookup assignment before the store
    j = None
    for k in range(i_store - 1, -1, -1):
        e = evs[k]
        if e.kind == "stmt" and isinstance(e.node, ast.Assign) and isinstance(e.node.value, ast.Call):
            c = e.node.value
            if isinstance(c.func, ast.Attribute) and c.func.attr == "get" and (dotted(c.func.value) or "").endswith("._ref_values"):
                j = k
                break
    if j is None:
        return False, "no lookup in _ref_values precedes the store"
    looked = dotted(evs[j].node.value.args[0])
    resvar = dotted(evs[j].node.targets[0])
    # result known None?  a test on resvar after j with the right polarity
    none_known = False
    for k in range(j + 1, i_store):
        e = evs[k]
        if e.kind == "test" and isinstance(e.node, ast.Compare) and dotted(e.node.left) == resvar and len(e.node.ops) == 1:
            c = e.node.comparators[0]
            if isinstance(c, ast.Constant) and c.value is None:
                if isinstance(e.node.ops[0], ast.Is) and e.pol:
                    none_known = True
                if isinstance(e.node.ops[0], ast.IsNot) and not e.pol:
                    none_known = True
    if not none_known:
        return False, f"the store is reached without the path establishing that the lookup of `{looked}` returned None"
    # value of keyname at the store must be the looked-up variable's value at the lookup:
    # follow copies `keyname = looked` between j and the store; any other redefinition breaks the link
    cur = keyname
    for k in range(i_store - 1, j, -1):
        e = evs[k]
        if e.kind == "stmt" and isinstance(e.node, ast.Assign):
            for t in e.node.targets:
                if dotted(t) == cur:
                    if isinstance(e.node.value, ast.Name):
                        cur = e.node.value.id
                    else:
                        return False, f"`{cur}` is recomputed (`{norm_src(e.node)}`) after the last lookup, so the stored name was never checked"
    if cur != looked:
        return False, (
            f"the name stored (`{keyname}`, holding the value of `{cur}`) is not the name that was looked up (`{looked}`) and found "
            "free: an already registered name can be overwritten and two expressions end up with the same variable"
        )
    # the looked-up variable must not have been redefined between its definition used in the lookup and ... (already handled)
    return True, ""


# --------------------------------------------------------------------------- main


LOSSY_STR_METHODS = {"replace", "strip", "lstrip", "rstrip", "lower", "upper", "casefold", "title", "capitalize", "translate", "removeprefix",
                     "removesuffix", "split", "rsplit", "partition", "rpartition", "expandtabs"}


def lossy_name_transforms(func):
    """string operations inside `func` that are not injective, applied to a value that flows into a returned / registered name"""
    out = []
    for n in ast.walk(func):
        if isinstance(n, ast.Call) and isinstance(n.func, ast.Attribute) and n.func.attr in LOSSY_STR_METHODS:
            # only string receivers: a join, an f-string, a name bound to one of them, or `ref`-like locals
            recv = n.func.value
            if isinstance(recv, (ast.JoinedStr, ast.Constant)) or (isinstance(recv, ast.Call) and isinstance(recv.func, ast.Attribute) and recv.func.attr == "join") \
                    or isinstance(recv, (ast.Name, ast.Call, ast.Subscript)):
                out.append((n, f".{n.func.attr}()"))
        elif isinstance(n, ast.Subscript) and isinstance(n.slice, ast.Slice) and isinstance(n.ctx, ast.Load):
            # truncation of a name
            if isinstance(n.value, (ast.Name, ast.JoinedStr)) or (isinstance(n.value, ast.Call) and isinstance(n.value.func, ast.Attribute) and n.value.func.attr == "join"):
                out.append((n, "slicing"))
    return out


def check_toidentifier(r, repo, rule):
    """toidentifier must not merge distinct constant values (shared by C05 R5.9 and, when the hash-consing key uses it, C07 R7.1)"""
    rel = "expr.py"
    # toidentifier: names of unregistered constants are derived from the value; the encoding must not merge values
    ti = repo.func(rel, "toidentifier")
    n_complex = 0
    for node in ast.walk(ti):
        if isinstance(node, ast.If) and isinstance(node.test, ast.Call) and dotted(node.test.func) == "isinstance" and len(node.test.args) == 2:
            ty = norm_src(node.test.args[1])
            rets = [x for st in node.body for x in ast.walk(st) if isinstance(x, ast.Return)]
            if "complex" in ty:
                n_complex += 1
                for rt in rets:
                    attrs = {x.attr for x in ast.walk(rt) if isinstance(x, ast.Attribute) and dotted(x.value) == "value"}
                    ok = {"real", "imag"} <= attrs
                    r.ob(rule, f"expr.py::toidentifier {ty} branch encodes both parts", ok,
                         f"`{norm_src(rt)}` reads only {sorted(attrs)} of a complex value: constants differing in the other part get the same "
                         "generated name and, being unregistered, the same variable", loc(rel, rt))
            elif "float" in ty or "floating" in ty:
                body_src = " ".join(norm_src(st) for st in node.body)
                ok = "copysign" in body_src or "signbit" in body_src
                r.ob(rule, f"expr.py::toidentifier {ty} branch distinguishes -0.0", ok,
                     "the identifier of a float constant is derived from `value == int(value)`, which merges 0.0 and -0.0", loc(rel, node))
    if n_complex < 2:
        raise AnalysisError("toidentifier: complex branches not found")
    # pieces of variable width joined without a separator do not determine the pieces: hex(0x01) + hex(0x10) == hex(0x11) + hex(0x00)
    VARW = {"hex", "str", "oct", "bin", "repr"}
    n_join = 0
    for node in ast.walk(ti):
        if isinstance(node, ast.Call) and isinstance(node.func, ast.Attribute) and node.func.attr == "join" and isinstance(node.func.value, ast.Constant) \
                and node.func.value.value == "" and node.args:
            n_join += 1
            a = node.args[0]
            piece = None
            if isinstance(a, ast.Call) and dotted(a.func) == "map" and a.args:
                piece = dotted(a.args[0])
                fixed = False
            elif isinstance(a, (ast.GeneratorExp, ast.ListComp)):
                e_ = a.elt
                if isinstance(e_, ast.Call) and dotted(e_.func) in VARW:
                    piece, fixed = dotted(e_.func), False
                elif isinstance(e_, ast.JoinedStr):
                    fv = [v for v in e_.values if isinstance(v, ast.FormattedValue)]
                    specs = ["".join(str(c.value) for c in v.format_spec.values if isinstance(c, ast.Constant)) if v.format_spec is not None else "" for v in fv]
                    fixed = bool(fv) and all(re.fullmatch(r"0\d+[xXdobB]", sp or "") for sp in specs)
                    piece = "f-string " + "/".join(specs)
                elif isinstance(e_, ast.Call) and dotted(e_.func) == "format" and len(e_.args) == 2 and isinstance(e_.args[1], ast.Constant):
                    fixed = bool(re.fullmatch(r"0\d+[xXdobB]", str(e_.args[1].value)))
                    piece = f"format {e_.args[1].value}"
                else:
                    piece, fixed = norm_src(e_), False
            else:
                piece, fixed = norm_src(a), False
            # a later global replace of the "0x" markers does not restore the piece boundaries
            r.ob(rule, "expr.py::toidentifier byte-wise encoding has fixed-width pieces", fixed,
                 f"`{norm_src(node)}` concatenates pieces of variable width ({piece}) without a separator: the bytes 01 10 and 11 00 both give "
                 "'110', so distinct numpy float constants get the same generated name and, being unregistered, the same variable in the emitted code",
                 loc(rel, node))
    if n_join < 1:
        raise AnalysisError("toidentifier: the byte-wise encoding of numpy floats was not found")


def check_list_argument_unpacking(r, repo, rule="R5.14"):
    """PrinterBase.init_arguments unpacks the items of a list argument into their own variables.  Interpreted (sa/absint.py) on a
    list argument with three items for every subset of items the body needs and both settings of force_cast_arguments: the
    variable of item k must be bound to element k of the caller's list - `make_getitem(arg, k)`, resp. the cast of `arg[k]` -
    whatever loop or comprehension produces the pairs.  An index taken from a filtered enumeration binds later items to the wrong
    element whenever an earlier one is unused."""
    import itertools
    from sa.absint import Interp, Closure, Unsupported as IUnsupported, PyRaise

    REL_ = "targets/base.py"
    g = repo.func(REL_, "PrinterBase.init_arguments")

    class Item:
        __absint_host__ = True

        def __init__(self, k):
            self.k, self.kind, self.ref = k, "symbol", f"x_{k}_"

        def __repr__(self):
            return f"item{self.k}"

    class ListArg:
        __absint_host__ = True

        def __init__(self, items):
            self.kind, self.ref, self.operands = "list", "x", tuple(items)

        def __getitem__(self, i):
            return self.operands[i]  # as Expr.__getitem__ of a list: the item expression, which prints as its own variable name

        def __repr__(self):
            return "x"

    bad = None
    n_cases = 0
    for cast in (False, True):
        for needed in itertools.product((False, True), repeat=3):
            items = [Item(k) for k in range(3)]
            arg = ListArg(items)
            out = []

            class Self_:
                __absint_host__ = True

                def __init__(self):
                    self.defined_refs = set()
                    self.need_ref = {it.ref: nd for it, nd in zip(items, needed)}
                    self.need_ref["x"] = True
                    self.force_cast_arguments = cast
                    self.debug = 0

                def make_assignment(self, typ, ref, value):
                    return ("assign", ref, value)

                def make_getitem(self, var, index):
                    return ("getitem", var, index)

                def get_type(self, e):
                    return "T"

                def make_constant(self, like, value):
                    return ("cast", like, value)

                def tostring(self, e, tab=""):
                    return ("print", e)

                def show_value(self, var):
                    return NotImplemented

            I = Interp(repo)
            try:
                res = I.call(Closure(g, {}, I, REL_, bound_self=None), [Self_(), "f", [arg]])
            except (IUnsupported, PyRaise, TypeError) as e:
                raise AnalysisError(f"PrinterBase.init_arguments is not interpretable: {getattr(e, 'what', e)}")
            n_cases += 1
            want = []
            for k, nd in enumerate(needed):
                if nd:
                    # cast or not, the value bound to the item's variable is element k of the caller's list: a cast applied to the
                    # printed item reads the variable that is being assigned
                    want.append(("assign", f"x_{k}_", ("cast", items[k], ("getitem", arg, k)) if cast else ("getitem", arg, k)))
            got = [a for a in (res or []) if isinstance(a, tuple) and a and a[0] == "assign"]
            if got != want and bad is None:
                bad = f"force_cast_arguments={cast}, items needed {list(needed)}: emits {got!r}, expected {want!r}"
    r.ob(rule, f"{REL_}::PrinterBase.init_arguments binds item k of a list argument to element k ({n_cases} cases)", bad is None,
         f"{bad}: the variable of an item must be bound to element k of the caller's list (a cast applied to the printed item reads the item's own, still unbound variable; an index from a filtered enumeration picks the wrong element)", loc(REL_, g))


def check_nonfinite_literals(r, repo, rule="R5.13"):
    """A constant whose value is a non-finite Python float reaches the printer's make_constant as the float itself; str(inf) is
    `inf`, which is not a bound name in generated Python or NumPy source.  make_constant of the Python and NumPy targets is
    interpreted (sa/absint.py) on inf, -inf and nan: the text it returns must not contain a bare `inf` / `nan` token (it must be
    qualified - math.inf, numpy.inf - or wrapped in a call such as float("inf"))."""
    import re as _re
    from sa.absint import Interp, Closure, Unsupported as IUnsupported, PyRaise

    for target in ("python", "numpy"):
        rel = f"targets/{target}.py"
        g = repo.func(rel, "Printer.make_constant")

        class Self_:
            __absint_host__ = True

            def get_type(self, e):
                return f"{target}.T"

        for val in (float("inf"), float("-inf"), float("nan")):
            I = Interp(repo)
            try:
                out = I.call(Closure(g, {}, I, rel, bound_self=None), [Self_(), "LIKE", val])
            except (IUnsupported, PyRaise, TypeError) as e:
                raise AnalysisError(f"{rel}::Printer.make_constant is not interpretable on {val!r}: {getattr(e, 'what', e)}")
            txt = str(out)
            stripped = _re.sub(r"""(['"])[^'"]*\1""", "", txt)  # text inside string literals is data, e.g. float("inf")
            bare = _re.search(r"(?<![\w.])(inf|nan)\b", stripped)
            r.ob(rule, f"{rel}::Printer.make_constant spells {val!r} with a bound name", bare is None,
                 f"make_constant returns `{txt}` for the value {val!r}: the bare token `{bare.group(1) if bare else ''}` is not a name in the generated source, which raises "
                 "NameError when the function is called", loc(rel, g))


def run(repo, tier):
    r = Report("C05", tier, repo, level="other", design_ref="§3/C05")
    r.explanation = (
        "Static audit of the python/numpy/cpp target tables (every template is parsed in its target language, reduced to an "
        "operator tree over operand indices and compared with an oracle of accepted implementations of the kind; names are "
        "resolved against math/numpy/libstdc++; named constants, types and literal typing are checked) and of the generic "
        "printer's assign-once-before-use discipline and reference-name registration (path enumeration + def-use). Decides "
        "the structural clauses, not execution equality of emitted code."
    )
    r.trusted_base = ["Python ast", "sa/oracles/targets.py (operator/function/constant/type oracles)", "math and numpy namespaces of /venv", "libstdc++ 12 headers"]
    r.assumptions = ["black/clang-format post-processing preserves semantics", "debug level 2 output not analysed"]
    r.rule("R5.1", "operand fields of a template are exactly {0..arity-1}; named fields are ones the printer supplies", floor=150)
    r.rule("R5.2", "the template parses in the target language", floor=150)
    r.rule("R5.3", "the parsed template computes its kind: right operator, right operand order", floor=150)
    r.rule("R5.4", "every function named in a template is bound in the generated source's environment", floor=150)
    r.rule("R5.5", "named constants denote what they are registered for, depend on {type} where needed, and cover known_constant_names", floor=30)
    r.rule("R5.6", "type tables map each type to a target type of the same kind and width; cast tables double/halve consistently", floor=40)
    r.rule("R5.7", "numeric literals are materialised in the type of their `like` operand on every path of make_constant", floor=2)
    r.rule("R5.8", "generic printer: a ref is returned only when defined; assigned once, before use, and then marked defined", floor=8)
    r.rule("R5.9", "every freshly generated reference name is registered, and registration never reuses a name that is taken", floor=5)
    r.rule("R5.13", "non-finite float literals are spelled with names that are bound in the generated Python / NumPy source (make_constant interpreted on inf, -inf, nan)", floor=6)
    r.rule("R5.14", "items of a list argument are unpacked by their position in the caller's list, for every subset of needed items and both settings of force_cast_arguments (interpreted)", floor=1)
    r.rule("R5.10", "operands are substituted into templates in order, unsliced", floor=1)
    r.rule("R5.11", "templates compose: wherever an operand field is spliced bare, every template of the target binds tighter than the surrounding operator", floor=3)

    arities = kind_arities(repo)
    const_names = known_names(repo, "known_constant_names")
    for name in ("python", "numpy", "cpp"):
        T = Target(repo, name)
        check_kind_templates(r, T, arities)
        check_template_composability(r, T)
        check_template_nesting_by_parsing(r, T)
        check_constants(r, T, const_names)
        check_types(r, T, {"python": O.PY_TYPES, "numpy": O.NUMPY_TYPES, "cpp": O.CPP_TYPES}[name])
        check_make_constant(r, T, typed_required=(name != "python"))
        if name == "numpy":
            check_cast_tables(r, T)
    check_printer_base(r, repo)
    check_printer_state_not_rebound(r, repo, "R5.8")
    check_make_ref(r, repo)
    # R5.12: a declared type narrower than the run-time type makes the C++ target round and the NumPy debug assertions fire:
    # static type == NumPy promotion of the operands is part of "the target computes the traced graph" (shared with C08)
    from rules import C08
    sub = C08.run(repo, tier)
    r.absorb(sub, {"R8.1": "R5.12", "R8.2": "R5.12"}, "the static type the printers declare for every kind and operand dtype tuple equals the type the target computes (shared clause with C08: R8.1, R8.2)", floor=100)
    check_list_argument_unpacking(r, repo)
    check_nonfinite_literals(r, repo)
    return r
