"""C02 (partial) — real algorithms: domain/NaN behaviour, special values, no spurious NaN/inf/sign, coarse enclosure.

Decided for *every* float of the format (not a sample) by abstract interpretation of the expanded
expression DAG of each real algorithm over floating-point intervals (sa/ival.py) with adaptive
partition of the whole float line / plane (sa/boxes.py):

  R2.1  the value computed at -inf, -0, +0, +inf (and at -1, 1 where they bound the domain) is the
        exact limit of the function, and NaN exactly where the function is undefined;
  R2.2  on every box of the partition where the function is defined the abstract result contains no
        NaN and lies within [T_lo(1-d), T_hi(1+d)] (T = the true function over the box, which is
        monotone there; overflow to infinity is accepted exactly where the true value exceeds the
        largest finite number), on every box outside the domain the result is NaN only; boxes are
        refined until T_hi <= T_lo(1+d), so every single input has relative error at most about 2d.

The accuracy bounds of the property (4/5 ULP, 3-ULP target rate) are not decided: d is 2**-8
(quick) or 2**-12 (thorough).  What is decided is a necessary condition of them that unit tests
sample: a dropped overflow guard, a wrong threshold that lets x*x overflow, a wrong sign or branch,
a wrong constant all leave a box where the abstract result and the accepted range are disjoint, or a
point where the exact evaluation is NaN/inf.
"""

from __future__ import annotations

import numpy as np

from sa.core import AnalysisError, Report
from sa.ival import Fmt, Domain, ErrDomain, evaluate, Unsupported, LIBM_SLACK
from sa.boxes import refine, Budget
from ir.frontend import load_package, expand
from ir.normal import Importer, sym, Unmodelled

LD = np.longdouble
REL = "algorithms.py"

# name -> (argument names, true function on long doubles, domain lo, domain hi)
FUNCS = {
    "asin": (("x",), np.arcsin, -1.0, 1.0),
    "acos": (("x",), np.arccos, -1.0, 1.0),
    "asinh": (("x",), np.arcsinh, -np.inf, np.inf),
    "acosh": (("x",), np.arccosh, 1.0, np.inf),
    "absolute": (("x",), np.abs, -np.inf, np.inf),
    "square": (("x",), np.square, -np.inf, np.inf),
    "hypot": (("x", "y"), None, -np.inf, np.inf),
}
# expected value at special points: (function, point) -> 'nan' | float | ('pi', factor)
SPECIAL = {
    ("asin", "+0"): 0.0, ("asin", "-0"): 0.0, ("asin", "+inf"): "nan", ("asin", "-inf"): "nan", ("asin", "1"): ("pi", 0.5), ("asin", "-1"): ("pi", -0.5),
    ("acos", "+0"): ("pi", 0.5), ("acos", "-0"): ("pi", 0.5), ("acos", "+inf"): "nan", ("acos", "-inf"): "nan", ("acos", "1"): 0.0, ("acos", "-1"): ("pi", 1.0),
    ("asinh", "+0"): 0.0, ("asinh", "-0"): 0.0, ("asinh", "+inf"): np.inf, ("asinh", "-inf"): -np.inf,
    ("acosh", "+0"): "nan", ("acosh", "-0"): "nan", ("acosh", "+inf"): np.inf, ("acosh", "-inf"): "nan", ("acosh", "1"): 0.0, ("acosh", "-1"): "nan",
    ("absolute", "+0"): 0.0, ("absolute", "-0"): 0.0, ("absolute", "+inf"): np.inf, ("absolute", "-inf"): np.inf,
    ("square", "+0"): 0.0, ("square", "-0"): 0.0, ("square", "+inf"): np.inf, ("square", "-inf"): np.inf,
}
POINTS = {"+0": 0.0, "-0": -0.0, "+inf": np.inf, "-inf": -np.inf, "1": 1.0, "-1": -1.0}


def _term(fa, name, args, ftype):
    ex = expand(fa, name, tuple(f"{a}:{ftype}" for a in args))
    imp = Importer(fa.expr.Expr, {a: sym(a) for a in args})
    t = imp.imp(ex.body)
    if isinstance(t, tuple) and len(t) == 3 and t[0] == "PAIR":
        raise AnalysisError(f"algorithms.{name} on real arguments produced a complex value")
    return t


def _dag_size(t):
    seen = set()
    stack = [t]
    while stack:
        x = stack.pop()
        if x in seen:
            continue
        seen.add(x)
        if x[0] not in ("sym", "const"):
            stack.extend(x[1:])
    return len(seen)


def true_range(name, los, his):
    """True function over boxes (long double), returns (tlo, thi, defined_all, defined_none, split hint or None)."""
    args, fn, dlo, dhi = FUNCS[name]
    with np.errstate(all="ignore"):
        if name == "hypot":
            ax0, ax1 = np.abs(los[0].astype(LD)), np.abs(his[0].astype(LD))
            ay0, ay1 = np.abs(los[1].astype(LD)), np.abs(his[1].astype(LD))
            xmin, xmax = np.minimum(ax0, ax1), np.maximum(ax0, ax1)
            ymin, ymax = np.minimum(ay0, ay1), np.maximum(ay0, ay1)
            tlo, thi = np.hypot(xmin, ymin), np.hypot(xmax, ymax)
            hint = np.where(np.hypot(xmax, ymin) >= np.hypot(xmin, ymax), 0, 1)
            all_ = np.ones(tlo.shape, dtype=bool)
            return tlo, thi, all_, ~all_, hint
        a, b = los[0].astype(LD), his[0].astype(LD)
        d_all = (a >= dlo) & (b <= dhi)
        d_none = (b < dlo) | (a > dhi)
        ta, tb = fn(np.clip(a, dlo, dhi)), fn(np.clip(b, dlo, dhi))
        return np.minimum(ta, tb), np.maximum(ta, tb), d_all, d_none, None


def make_judge(name, term, fmt, dom, delta):
    args = FUNCS[name][0]
    L = LD(fmt.largest)
    abs_slack = LD(float(fmt.tiny)) * (2 * LIBM_SLACK + 8)

    def judge(l, h):
        los = [fmt.from_ord(l[:, i]) for i in range(len(args))]
        his = [fmt.from_ord(h[:, i]) for i in range(len(args))]
        R = evaluate(term, {a: dom.box(los[i], his[i]) for i, a in enumerate(args)}, dom)
        tlo, thi, d_all, d_none, hint = true_range(name, los, his)
        shp = tlo.shape
        with np.errstate(all="ignore"):
            acc_lo = tlo - delta * np.abs(tlo) - abs_slack
            acc_hi = thi + delta * np.abs(thi) + abs_slack
            acc_lo = np.where(np.isnan(acc_lo), tlo, acc_lo)
            acc_hi = np.where(np.isnan(acc_hi), thi, acc_hi)
            acc_lo = np.where(acc_lo > L, L, acc_lo)
            acc_hi = np.where(acc_hi >= L, LD(np.inf), acc_hi)
            tl_, th_ = np.clip(tlo, -L, L), np.clip(thi, -L, L)
            narrow = (th_ - tl_ <= delta * np.minimum(np.abs(tl_), np.abs(th_)) + abs_slack) | (tlo == thi)
        rlo = np.broadcast_to(R.lo, shp).astype(LD)
        rhi = np.broadcast_to(R.hi, shp).astype(LD)
        rn, re = np.broadcast_to(R.nan, shp), np.broadcast_to(R.emp, shp)
        inside = ~rn & ~re & (rlo >= acc_lo) & (rhi <= acc_hi)
        proved = np.where(d_all, inside & narrow, np.where(d_none, re & rn, False))
        refuted = np.where(d_all, re | (rhi < acc_lo) | (rlo > acc_hi), np.where(d_none, ~rn, False))

        def describe(i):
            box = ", ".join(f"{a} in [{float(los[k][i]).hex()}, {float(his[k][i]).hex()}]" for k, a in enumerate(args))
            want = "NaN" if d_none[i] else f"[{float(acc_lo[i])!r}, {float(acc_hi[i])!r}]" if d_all[i] else "mixed"
            got = ("NaN only" if re[i] else f"[{float(rlo[i])!r}, {float(rhi[i])!r}]" + (" or NaN" if rn[i] else ""))
            return f"{box}: computed {got}; accepted {want}"

        return proved, refuted, describe, hint

    return judge


ERR_BOUND_U = 32.0   # forward error bound proved on boxes, in units of u = 2**-p
POINT_ULP = 6.0      # concrete error accepted at single points where the bound is not provable, in ULP of the true value


def make_err_judge(name, term, fmt, counters):
    """R2.3: forward error analysis on boxes; exact evaluation at points."""
    args = FUNCS[name][0]
    edom = ErrDomain(fmt)
    pdom = Domain(fmt, slack=0)
    L = LD(fmt.largest)

    def judge(l, h):
        los = [fmt.from_ord(l[:, i]) for i in range(len(args))]
        his = [fmt.from_ord(h[:, i]) for i in range(len(args))]
        tlo, thi, d_all, d_none, hint = true_range(name, los, his)
        shp = tlo.shape
        point = (l == h).all(axis=1)
        R = evaluate(term, {a: edom.box(los[i], his[i]) for i, a in enumerate(args)}, edom)
        rlo = np.broadcast_to(R.lo, shp).astype(LD)
        rhi = np.broadcast_to(R.hi, shp).astype(LD)
        rn, re = np.broadcast_to(R.nan, shp), np.broadcast_to(R.emp, shp)
        rel = np.broadcast_to(0.0 if R.rel is None else R.rel, shp)
        abe = np.broadcast_to(LD(0.0) if R.abe is None else R.abe, shp)
        with np.errstate(all="ignore"):
            rmin = np.where((rlo <= 0) & (rhi >= 0), LD(0.0), np.minimum(np.abs(rlo), np.abs(rhi)))
            tot = rel + np.where(abe <= 4 * edom.eta, 0.0, (abe / rmin).astype(np.float64))
            tot = np.where(np.isnan(tot), 1e30, tot)
            # a result that overflows is judged by R2.2; the error model does not apply to it
            finite = np.isfinite(rlo) & np.isfinite(rhi) & (thi < L) & (tlo > -L)
        bound_ok = (tot <= ERR_BOUND_U * edom.u) & ~rn & ~re
        # only a genuinely overflowing true range (R2.2's subject) is exempt: an infinite *enclosure* of a finite true range is a
        # coarse abstraction, not a proof, and is refined
        with np.errstate(all="ignore"):
            true_overflow = (thi >= L) | (tlo <= -L)
        proved = np.where(d_all, (bound_ok & finite) | true_overflow, np.where(d_none, True, False))
        refuted = np.zeros(shp, bool)
        err_ulp = np.zeros(shp)
        # single points: exact evaluation with the host's library functions against the long-double reference
        cand = point & d_all & ~proved
        if cand.any():
            P = evaluate(term, {a: pdom.box(los[i], his[i]) for i, a in enumerate(args)}, pdom)
            plo = np.broadcast_to(P.lo, shp).astype(LD)
            with np.errstate(all="ignore"):
                ulp = np.maximum(np.abs(tlo), LD(fmt.smallest)) * LD(2.0 ** (1 - fmt.p))
                e = np.abs(plo - tlo) / ulp
                e = np.where(np.isnan(e), np.where(np.isnan(plo) == np.isnan(tlo), 0.0, np.inf), e)
                e = np.where(np.isinf(plo) & np.isinf(tlo) & (plo == tlo), 0.0, e)
            err_ulp = e.astype(np.float64)
            okp = cand & (err_ulp <= POINT_ULP)
            proved = proved | okp
            refuted = cand & ~okp
            counters["points_checked"] += int(cand.sum())

        def describe(i):
            box = ", ".join(f"{a} in [{float(los[k][i]).hex()}, {float(his[k][i]).hex()}]" for k, a in enumerate(args))
            if point[i]:
                return f"{box} (= {', '.join(repr(float(los[k][i])) for k in range(len(args)))}): error {err_ulp[i]:.1f} ULP against the true value {float(tlo[i])!r}; forward error bound {tot[i] / edom.u:.0f}u"
            return f"{box}: forward error bound {tot[i] / edom.u:.0f}u"

        return proved, refuted, describe, hint

    return judge


def initial_boxes(fmt, nargs):
    oi = fmt.ord_inf
    rng = [(-oi - 1, -oi - 1), (-oi, -2), (-1, -1), (0, 0), (1, oi - 1), (oi, oi)]
    if nargs == 1:
        return np.array([[a[0]] for a in rng]), np.array([[a[1]] for a in rng])
    lo = np.array([[a[0], b[0]] for a in rng for b in rng])
    hi = np.array([[a[1], b[1]] for a in rng for b in rng])
    return lo, hi


def _analyse(root, ftype, name, tier):
    """One (format, algorithm) task; returns plain data so that it can run in a worker process."""
    fa = load_package(root)
    args, fn, dlo, dhi = FUNCS[name]
    fmt = Fmt(ftype)
    dom = Domain(fmt)
    res = dict(special=[], refuted=[], ok=None, error=None, stats=dict(boxes=0, proved=0, points=0, levels=0), err_refuted=[], err_ok=None, err_error=None)
    try:
        term = _term(fa, name, args, ftype)
        if len(args) == 1:
            for (fn_, pt), want in SPECIAL.items():
                if fn_ != name:
                    continue
                x = fmt.ft(POINTS[pt])
                R = evaluate(term, {"x": dom.box(x, x)}, dom)
                lo, hi, nan, emp = float(R.lo), float(R.hi), bool(R.nan), bool(R.emp)
                if want == "nan":
                    ok = emp and nan
                    wtxt = "NaN"
                else:
                    w = float(fmt.ft(np.pi * want[1])) if isinstance(want, tuple) else float(want)
                    tol = 0.0 if np.isinf(w) else abs(w) * float(fmt.eps) * (LIBM_SLACK + 2)
                    ok = (not nan) and (not emp) and lo >= w - tol and hi <= w + tol
                    wtxt = repr(w)
                got = "NaN" if emp else f"[{lo!r}, {hi!r}]" + (" or NaN" if nan else "")
                res["special"].append((f"{name}[{ftype}]({pt})", bool(ok), f"computed {got}, expected {wtxt}"))
        d = DELTA[tier][1 if name in WIDE else 0]
        judge = make_judge(name, term, fmt, dom, d)
        lo0, hi0 = initial_boxes(fmt, len(args))
        try:
            out = refine(lo0, hi0, judge, max_boxes=40_000_000)
        except Budget as e:
            out = e.outcome
            if not out.refuted:
                res["error"] = f"{name}[{ftype}]: {e}; the abstraction is too coarse for this shape of the algorithm"
                return res
        res["refuted"] = [(str(lo_), info) for lo_, hi_, info in out.refuted[:5]]
        if not out.refuted and out.unknown:
            res["error"] = f"{name}[{ftype}]: {len(out.unknown)} point(s) undecided within the library-function slack, e.g. {out.unknown[0][2]}"
            return res
        res["ok"] = f"{out.proved} boxes ({out.proved_points} single points) proved, {out.levels} refinement levels, bound 2**{int(np.log2(d))}, DAG {_dag_size(term)} nodes"
        res["stats"] = dict(boxes=out.evaluated, proved=out.proved, points=out.proved_points, levels=out.levels)
        # R2.3 forward error analysis
        counters = dict(points_checked=0)
        ejudge = make_err_judge(name, term, fmt, counters)
        try:
            eout = refine(lo0, hi0, ejudge, max_boxes=6_000_000, probe_limit=2_000_000, probe_dims=1)
        except Budget as e:
            eout = e.outcome
            if not eout.refuted:
                res["err_error"] = f"{name}[{ftype}]: forward error bound of {ERR_BOUND_U:.0f}u not provable on {len(e.pending[0])} boxes and no single point exceeds {POINT_ULP:.0f} ULP so far ({e})"
                return res
        res["err_refuted"] = [(str(lo_), info) for lo_, hi_, info in eout.refuted[:4]]
        res["err_ok"] = f"{eout.proved} boxes proved ({eout.proved_points} single points, {counters['points_checked']} of them by exact evaluation), {eout.levels} refinement levels"
    except (Unsupported, Unmodelled) as e:
        res["error"] = f"{name}[{ftype}]: {e}"
    return res


PROBE_ULP = 6.0


def _probe(root, ftype, name, tier):
    """R2.4: boundary-value analysis of the region structure (see rules/C01_probe.py): the flips of every select guard along the
    float line (hypot: along rays y = +-2**k x and lines through +-1) are located by bisection on the IR evaluated at single
    points; next to every flip, in the middle of every piece and on a grid of one point per half binade the exactly evaluated
    result must be within PROBE_ULP of the long-double reference."""
    from rules.C01_probe import LineProbe, grid_ordinals
    from rules.C01 import _simp
    from ir.normal import subst, T, const

    fa = load_package(root)
    fmt = Fmt(ftype)
    res = dict(lines=0, points=0, flips=0, worst=0.0, worst_at="", failures=[], error=None)
    try:
        args, fn, dlo, dhi = FUNCS[name]
        term = _term(fa, name, args, ftype)
        if len(args) == 1:
            specs = [("the float line", ("axis", "y", 0.0), term, "x", (lambda z: fn(np.real(z))))]
        else:
            ks = (0, 1, 2, 4, 8, 16, 30) if tier == "quick" else tuple(range(0, 13)) + tuple(range(16, 65, 4))
            specs = []
            hyp = lambda z: np.hypot(np.real(z), np.imag(z))
            for k in ks:
                for kk in sorted({k, -k}):
                    for sg in (1.0, -1.0):
                        c = sg * 2.0 ** kk
                        rep = sym("x") if c == 1.0 else T("negative", sym("x")) if c == -1.0 else T("multiply", const(("num", float(c).hex())), sym("x"))
                        m1, m2 = {}, {}
                        specs.append((f"ray y={c:g}*x", ("ray", c), _simp(subst(term, {"y": rep}, m1), m2), "x", hyp))
            for v in (1.0, float(fmt.smallest), float(fmt.largest) / 2):
                specs.append((f"line y={v:g}", ("axis", "y", v), term, "x", hyp))
        from rules.C01_probe import dense_grid

        grid = grid_ordinals(fmt) if len(args) == 2 else dense_grid(fmt, 16 if tier == "quick" else 256)
        oi = fmt.ord_inf
        for label, spec, t_, var, oracle in specs:
            lp = LineProbe(name, oracle, spec, t_, None, var, fmt)
            lo, hi = lp.flips(grid)
            cuts = np.unique(np.concatenate([[grid[0]], lo, [grid[-1]]]))
            mids = cuts[:-1] + (cuts[1:] - cuts[:-1]) // 2
            near = np.unique(np.concatenate([lo - 1, lo, hi, hi + 1, mids, grid]))
            near = near[(near >= -oi - 1) & (near <= oi)]
            err, z, vals = lp.errors(near)
            res["lines"] += 1
            res["points"] += int((~np.isnan(err)).sum())
            res["flips"] += len(lo)
            okm = err <= PROBE_ULP
            if okm.any() and float(err[okm].max()) > res["worst"]:
                i = int(np.nonzero(okm & (err == err[okm].max()))[0][0])
                res["worst"], res["worst_at"] = float(err[i]), f"{var} = {float(fmt.from_ord(near[i]))!r} on {label}"
            bad = np.nonzero(~okm & ~np.isnan(err))[0]
            if len(bad):
                i = int(bad[0])
                res["failures"].append((label, f"{len(bad)} probe point(s) on {label}, e.g. {var} = {float(fmt.from_ord(near[i])).hex()} ({float(fmt.from_ord(near[i]))!r})"
                                        + (f", y = {float(np.imag(z[i]))!r}" if len(args) == 2 else "")
                                        + f": computed {float(vals[0][i])!r}, error {err[i]:.3g} ULP against the long-double reference"))
    except (Unsupported, Unmodelled) as e:
        res["error"] = f"{name}[{ftype}] boundary probes: {e}"
    return res


# relative bound per tier: (narrow functions, functions whose partition is two-dimensional or as fine as the lattice)
DELTA = {"quick": (2.0 ** -8, 2.0 ** -3), "thorough": (2.0 ** -11, 2.0 ** -4)}
WIDE = {"hypot"}


def run(repo, tier):
    import os
    import multiprocessing as mp

    r = Report("C02", tier, repo, level="other", design_ref="DESIGN.md §3/C02")
    r.rule("R2.1", "each real algorithm returns the exact limit at -inf, -0, +0, +inf and at the ends of its domain, and NaN exactly at the special points where the function is undefined", floor=40)
    r.rule("R2.3", f"forward error analysis: on every box of a partition of all inputs the rounding-error bound of the expression DAG is at most {ERR_BOUND_U:.0f}u (u = 2**-p), or, at single points where the bound is not provable, the exactly evaluated result is within {POINT_ULP:.0f} ULP of the true value", floor=14)
    r.rule("R2.4", f"boundary-value analysis of the region structure: the flips of every select guard along the float line (hypot: along rays and lines) are located by bisection on the IR evaluated at single points; next to every flip, in the middle of every piece and on one point per half binade the exactly evaluated result is within {PROBE_ULP:.0f} ULP of the long-double reference", floor=14)
    r.rule("R2.5", "the algorithm definitions read their tuning parameters from ctx.parameters and never write to it (no leakage between functions traced on one context)", floor=1)
    r.rule("R2.2", "for every float of the format (adaptive partition of the whole line/plane, interval abstract interpretation): NaN exactly outside the domain, no spurious NaN/inf, correct sign and relative error below the coarse bound", floor=14)
    if np.finfo(LD).maxexp <= 1024:
        raise AnalysisError("numpy.longdouble is not an extended format on this machine; the reference ranges for float64 would overflow")
    for name in FUNCS:
        if not repo.has(REL, name):
            raise AnalysisError(f"anchor vanished: algorithms.{name}")
    load_package(repo.root)
    tasks = [(repo.root, ftype, name, tier) for ftype in ("float32", "float64") for name in FUNCS]
    jobs = int(os.environ.get("VERIF_JOBS", "0") or 0) or min(len(tasks), os.cpu_count() or 1)
    if jobs > 1:
        with mp.get_context("fork").Pool(jobs) as pool:
            presults_async = pool.starmap_async(_probe, tasks, chunksize=1)
            results = pool.starmap(_analyse, tasks, chunksize=1)
            presults = presults_async.get()
    else:
        results = [_analyse(*t) for t in tasks]
        presults = [_probe(*t) for t in tasks]
    total = dict(boxes=0, proved=0, points=0, levels=0)
    pending_errors = []
    for (root, ftype, name, _), res in zip(tasks, results):
        where = f"functional_algorithms/{REL}::{name}"
        if res["error"] and not res["refuted"]:
            pending_errors.append(res["error"])
            continue
        for key, ok, detail in res["special"]:
            r.ob("R2.1", key, ok, detail, where)
        key = f"{name}[{ftype}] all inputs"
        if res["refuted"]:
            for lo_, info in res["refuted"]:
                r.ob("R2.2", key + f" box {lo_}", False, info, where)
        else:
            r.ob("R2.2", key, True, res["ok"], where)
        for k in ("boxes", "proved", "points"):
            total[k] += res["stats"][k]
        total["levels"] = max(total["levels"], res["stats"]["levels"])
        if res.get("err_error") and not res.get("err_refuted"):
            pending_errors.append(res["err_error"])
            continue
        ekey = f"{name}[{ftype}] forward error"
        if res.get("err_refuted"):
            for lo_, info in res["err_refuted"]:
                r.ob("R2.3", ekey + f" at {lo_}", False, info, where)
        elif res.get("err_ok"):
            r.ob("R2.3", ekey, True, res["err_ok"], where)
    # R2.5: the algorithms read their tuning parameters, they do not write them (shared clause with C09 R9.5): a default stored in
    # ctx.parameters while asinh is traced changes the region bounds of the acosh traced next on the same context
    from rules.C09 import parameter_writes
    from sa.core import loc as _loc, norm_src as _ns

    pw = parameter_writes(repo, REL)
    for n in pw:
        r.ob("R2.5", f"{REL} line-independent: write into ctx.parameters `{_ns(n)[:60]}`", False,
             f"`{_ns(n)[:120]}` stores a value in the context's parameters while an algorithm is traced: the real algorithms share parameter names "
             "(safe_max_limit_coefficient means sqrt(largest)*c in asinh and largest*c in acosh), so the next algorithm traced on the same context "
             "uses another region bound and returns inf for finite inputs", _loc(REL, n))
    r.ob("R2.5", f"{REL}: the algorithm definitions only read ctx.parameters", not pw, "", _loc(REL, repo.tree(REL)))
    for (root, ftype, name, _), res in zip(tasks, presults):
        where = f"functional_algorithms/{REL}::{name}"
        if res["error"] and not res["failures"]:
            pending_errors.append(res["error"])
            continue
        for label, text in res["failures"][:4]:
            r.ob("R2.4", f"{name}[{ftype}] {label}", False, text, where)
        if not res["failures"]:
            r.ob("R2.4", f"{name}[{ftype}] region boundaries", res["points"] > 0,
                 f"{res['lines']} line(s), {res['flips']} guard flips located, {res['points']} probe points within {PROBE_ULP:.0f} ULP (worst {res['worst']:.2f} at {res['worst_at']})", where)
    if pending_errors and not any(not o["ok"] for o in r.obligations):
        raise AnalysisError(pending_errors[0])
    r.info("R2.2", f"boxes evaluated {total['boxes']}, proved {total['proved']} (of which single points {total['points']}), deepest refinement {total['levels']} levels; library-function slack {LIBM_SLACK} ulp; {jobs} worker process(es)")
    return r
