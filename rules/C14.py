"""C14 (thin) — structural clauses of the ULP metric: symmetry, pairing, sign-of-zero handling, ulp() formula.  Rules R14.1 .. R14.5."""

from __future__ import annotations

import ast
import copy

from sa.core import AnalysisError, Report, loc, norm_src, fresh_copy
from sa.consteval import ev
from sa.paths import dotted, calls_in, call_name

REL = "utils.py"
SWAP = {"x": "y", "y": "x", "sx": "sy", "sy": "sx", "ix": "iy", "iy": "ix", "x_": "y_", "y_": "x_"}


class _Dtype(ast.NodeTransformer):
    """x.dtype and y.dtype denote the same thing (C14 is about same-type floats)."""

    def visit_Attribute(self, n):
        if n.attr == "dtype" and isinstance(n.value, ast.Name) and n.value.id in ("x", "y"):
            return ast.copy_location(ast.Name(id="DTYPE", ctx=ast.Load()), n)
        return self.generic_visit(n)


class _Swap(ast.NodeTransformer):
    def visit_Name(self, n):
        return ast.copy_location(ast.Name(id=SWAP.get(n.id, n.id), ctx=n.ctx), n)


def _split_tuple_assign(stmts):
    out = []
    for st in stmts:
        if isinstance(st, ast.Assign) and len(st.targets) == 1 and isinstance(st.targets[0], ast.Tuple) and isinstance(st.value, ast.Tuple) and len(st.value.elts) == len(st.targets[0].elts):
            # parallel assignment: only split when no target is read by another element's value (x, y = abs(x), abs(y) is fine)
            tg = [dotted(t) for t in st.targets[0].elts]
            ok = True
            for i, v in enumerate(st.value.elts):
                names = {n.id for n in ast.walk(v) if isinstance(n, ast.Name)}
                if any(t in names for j, t in enumerate(tg) if j != i):
                    ok = False
            if ok:
                for t, v in zip(st.targets[0].elts, st.value.elts):
                    out.append(ast.Assign(targets=[t], value=v, lineno=st.lineno))
                continue
        out.append(st)
    return out


def _canon_expr(n):
    """Canonical text of an expression modulo commutativity of + == != and/or and the |a-b| idiom."""
    if isinstance(n, ast.IfExp) and isinstance(n.test, ast.Compare) and len(n.test.ops) == 1 and isinstance(n.test.ops[0], (ast.GtE, ast.Gt, ast.LtE, ast.Lt)):
        a, b = n.test.left, n.test.comparators[0]
        if isinstance(n.test.ops[0], (ast.LtE, ast.Lt)):
            a, b = b, a
        ca, cb = _canon_expr(a), _canon_expr(b)
        if isinstance(n.body, ast.BinOp) and isinstance(n.body.op, ast.Sub) and isinstance(n.orelse, ast.BinOp) and isinstance(n.orelse.op, ast.Sub):
            if (_canon_expr(n.body.left), _canon_expr(n.body.right)) == (ca, cb) and (_canon_expr(n.orelse.left), _canon_expr(n.orelse.right)) == (cb, ca):
                return "absdiff(" + ",".join(sorted([ca, cb])) + ")"
    if isinstance(n, ast.BinOp) and isinstance(n.op, (ast.Add, ast.Mult)):
        return type(n.op).__name__ + "(" + ",".join(sorted([_canon_expr(n.left), _canon_expr(n.right)])) + ")"
    if isinstance(n, ast.BoolOp):
        return type(n.op).__name__ + "(" + ",".join(sorted(_canon_expr(v) for v in n.values)) + ")"
    if isinstance(n, ast.Compare) and len(n.ops) == 1 and isinstance(n.ops[0], (ast.Eq, ast.NotEq)):
        return type(n.ops[0]).__name__ + "(" + ",".join(sorted([_canon_expr(n.left), _canon_expr(n.comparators[0])])) + ")"
    if isinstance(n, ast.Call) and dotted(n.func) in ("max", "min"):
        return dotted(n.func) + "(" + ",".join(sorted(_canon_expr(a) for a in n.args)) + ")"
    if isinstance(n, ast.expr):
        parts = []
        for f, v in ast.iter_fields(n):
            if isinstance(v, ast.expr):
                parts.append(_canon_expr(v))
            elif isinstance(v, list):
                parts.append("[" + ",".join(_canon_expr(x) if isinstance(x, ast.expr) else ast.dump(x) if isinstance(x, ast.AST) else repr(x) for x in v) + "]")
            elif isinstance(v, ast.AST):
                parts.append(type(v).__name__)
            else:
                parts.append(repr(v))
        return type(n).__name__ + "(" + ",".join(parts) + ")"
    return ast.dump(n)


def _canon_block(stmts):
    stmts = _split_tuple_assign(stmts)
    out = []
    run = []  # consecutive independent simple assignments are sorted

    def flush():
        nonlocal run
        out.extend(sorted(run))
        run = []

    for st in stmts:
        if isinstance(st, ast.Assign) and len(st.targets) == 1 and isinstance(st.targets[0], ast.Name):
            run.append(f"{st.targets[0].id} = {_canon_expr(st.value)}")
            continue
        flush()
        if isinstance(st, ast.If):
            out.append(f"if {_canon_expr(st.test)}: {{{_canon_block(st.body)}}} else: {{{_canon_block(st.orelse)}}}")
        elif isinstance(st, ast.Return):
            out.append(f"return {_canon_expr(st.value) if st.value is not None else ''}")
        elif isinstance(st, ast.Expr):
            out.append(_canon_expr(st.value))
        else:
            out.append(ast.dump(st))
    flush()
    return "; ".join(out)


class _Fmt:
    def __init__(self, bits):
        self.bits = bits
        self.p = {16: 11, 32: 24, 64: 53}[bits]
        self.emax = {16: 15, 32: 127, 64: 1023}[bits]
        self.emin = 1 - self.emax
        self.esub = self.emin - self.p + 1  # exponent of the smallest subnormal


class _P2:
    """Exactly 2**k in the format (0 when it underflows, inf when it overflows)."""
    __absint_host__ = True

    def __init__(self, fmt, k):
        self.fmt = fmt
        self.kind = "zero" if k < fmt.esub else "inf" if k > fmt.emax else "p2"
        self.k = k
        self.__absint_type__ = _Dt(fmt)

    def __repr__(self):
        return {"zero": "0", "inf": "inf"}.get(self.kind, f"2**{self.k}")


class _Special:
    __absint_host__ = True

    def __init__(self, fmt, kind, sign=1):
        self.fmt, self.kind, self.sign = fmt, kind, sign
        self.__absint_type__ = _Dt(fmt)

    def __eq__(self, o):
        return self.kind == "zero" and o == 0

    def __ne__(self, o):
        return not self.__eq__(o)

    def __lt__(self, o):
        if o != 0:
            raise TypeError("comparison with a non-zero value is not modelled")
        return self.kind == "inf" and self.sign < 0

    def __neg__(self):
        return _Special(self.fmt, self.kind, -self.sign)

    __hash__ = None

    def __repr__(self):
        return ("-" if self.sign < 0 else "") + self.kind


class _Binade:
    """All finite non-zero floats of one sign whose frexp exponent is E, i.e. |x| in [2**(E-1), 2**E)."""
    __absint_host__ = True

    def __init__(self, fmt, E, sign=1):
        self.fmt, self.E, self.sign = fmt, E, sign
        self.__absint_type__ = _Dt(fmt)

    def __eq__(self, o):
        if o == 0:
            return False
        raise TypeError("equality with a non-zero value is not modelled")

    def __ne__(self, o):
        return not self.__eq__(o)

    __hash__ = None

    def _cmp0(self, o):
        if not (isinstance(o, (int, float)) and o == 0):
            raise TypeError("comparison with a non-zero value is not modelled")

    def __lt__(self, o):
        self._cmp0(o)
        return self.sign < 0

    def __le__(self, o):
        return self.__lt__(o)

    def __gt__(self, o):
        self._cmp0(o)
        return self.sign > 0

    def __ge__(self, o):
        return self.__gt__(o)

    def __neg__(self):
        return _Binade(self.fmt, self.E, -self.sign)

    def __abs__(self):
        return _Binade(self.fmt, self.E, 1)

    def __repr__(self):
        return f"{'-' if self.sign < 0 else ''}[2**{self.E - 1}, 2**{self.E})"


class _Dt:
    __absint_host__ = True

    def __init__(self, fmt):
        self.fmt = fmt
        self.__name__ = f"float{fmt.bits}"

    def __call__(self, v=0):
        if isinstance(v, str):
            v = float(v)
        if isinstance(v, (int, float)):
            if v != v:
                return _Special(self.fmt, "nan")
            if v in (float("inf"), float("-inf")):
                return _Special(self.fmt, "inf", 1 if v > 0 else -1)
            if v == 0:
                return _Special(self.fmt, "zero")
            import math
            m, e = math.frexp(v)
            if m == 0.5:
                return _P2(self.fmt, e - 1)
        raise TypeError(f"dtype({v!r}) is not modelled")

    def __eq__(self, o):
        return isinstance(o, _Dt) and o.fmt.bits == self.fmt.bits

    def __hash__(self):
        return hash(self.fmt.bits)


class _Finfo:
    __absint_host__ = True

    def __init__(self, dt):
        f = dt.fmt
        self.negep, self.machep, self.nmant, self.minexp, self.maxexp, self.bits = -f.p, 1 - f.p, f.p - 1, f.emin, f.emax + 1, f.bits
        self.smallest_subnormal = _P2(f, f.esub)
        self.tiny = self.smallest_normal = _P2(f, f.emin)
        self.eps = _P2(f, 1 - f.p)


class _FV:
    """Abstract scalar argument of diff_ulp: a finite value of known sign whose lattice ordinal is a symbol, an infinity,
    or a NaN (ordinal symbol above the infinity)."""
    __absint_host__ = True

    def __init__(self, fmt, name, cls, sign, absd=False):
        self.fmt, self.name, self.cls, self.sign, self.absd = fmt, name, cls, sign, absd
        self.dtype = _DtObj(fmt)

    def _z(self, o):
        if not (isinstance(o, (int, float)) and o == 0):
            raise TypeError("comparison of a float argument with a non-zero value is not modelled")

    def __lt__(self, o):
        self._z(o)
        return self.cls != "nan" and self.sign < 0

    def __gt__(self, o):
        self._z(o)
        return self.cls != "nan" and self.sign > 0

    def __le__(self, o):
        self._z(o)
        return self.cls != "nan" and self.sign <= 0

    def __ge__(self, o):
        self._z(o)
        return self.cls != "nan" and self.sign >= 0

    def __eq__(self, o):
        self._z(o)
        return self.cls == "fin" and self.sign == 0

    def __ne__(self, o):
        return not self.__eq__(o)

    __hash__ = None

    def __abs__(self):
        return _FV(self.fmt, self.name, self.cls, abs(self.sign), True)

    def __neg__(self):
        return _FV(self.fmt, self.name, self.cls, -self.sign, False)

    def view(self, t=None):
        from sa.linint import Lin

        f = self.fmt
        signbit = (1 << (f.bits - 1)) if (self.sign < 0 and not self.absd) else 0
        if self.cls == "fin":
            return (Lin.sym("i" + self.name) if self.sign != 0 else Lin({}, 0)) + signbit
        if self.cls == "inf":
            return Lin({}, f.inf_ord + signbit)
        return Lin.sym("n" + self.name) + signbit


class _FConst:
    __absint_host__ = True

    def __init__(self, ordv):
        self.ordv = ordv

    def view(self, t=None):
        from sa.linint import Lin

        return Lin({}, self.ordv)


class _DtObj:
    __absint_host__ = True

    def __init__(self, fmt):
        from sa.absint import ModRef

        self.fmt = fmt
        self.type = ModRef("ext", f"numpy.float{fmt.bits}")


class _FinfoObj:
    __absint_host__ = True

    def __init__(self, dt):
        f = dt.fmt
        self.smallest_normal = self.tiny = _FConst(1 << (f.p - 1))
        self.smallest_subnormal = _FConst(1)
        self.max = _FConst(f.inf_ord - 1)
        self.bits = f.bits


def check_scalar_distance(r, repo, scalar, rule="R14.4"):
    """The scalar branch of diff_ulp is interpreted on abstract arguments: every combination of (class, sign) of x and y with
    the lattice ordinals of |x| and |y| as integer symbols, in a path-sensitive linear-inequality domain (sa/linint.py).
    On every feasible path the returned expression must equal |pos(x) - pos(y)| where pos(v) = sign(v) * P(ordinal of |v|),
    P the identity, or with flushing the documented collapse (ordinal - i above the largest subnormal i, else 0 or 1 by
    rounding to the nearer of zero and the smallest normal); non-finite pairs give 0 for identical infinities / NaNs under
    equal_nan and the out-of-range marker 2**bits otherwise.  This is the integer distance on the float lattice, so chain
    additivity and the behaviour across zero and across binades follow."""
    from sa.absint import Interp, Unsupported as IUnsupported, PyRaise, _Return
    from sa.linint import Lin, Paths

    def as_int(v):
        if isinstance(v, Lin):
            return v
        return int(v)

    ext = {
        "numpy.isfinite": lambda v: v.cls == "fin", "numpy.isnan": lambda v: v.cls == "nan", "numpy.isinf": lambda v: v.cls == "inf",
        "numpy.isposinf": lambda v: v.cls == "inf" and v.sign > 0, "numpy.isneginf": lambda v: v.cls == "inf" and v.sign < 0,
        "numpy.finfo": _FinfoObj, "numpy.abs": abs, "numpy.absolute": abs, "numpy.signbit": lambda v: v.sign < 0,
    }
    classes = [("fin", 1), ("fin", -1), ("fin", 0), ("inf", 1), ("inf", -1), ("nan", 1)]
    n_paths = n_cases = 0
    nan_same_payload = set()
    for bits in (16, 32, 64):
        fmt = _Fmt(bits)
        fmt.inf_ord = ((1 << {16: 5, 32: 8, 64: 11}[bits]) - 1) << (fmt.p - 1)
        i_sub = (1 << (fmt.p - 1)) - 1
        marker = 2 ** bits
        bad = []
        for flush in (False, True):
            for equal_nan in (False, True):
                for cx, sx in classes:
                    for cy, sy in classes:
                        n_cases += 1
                        facts = []
                        for nm, c in (("x", cx), ("y", cy)):
                            if c == "fin":
                                facts += [(Lin.sym("i" + nm) - 1, ">="), (Lin({}, fmt.inf_ord - 1) - Lin.sym("i" + nm), ">=")]
                            elif c == "nan":
                                facts += [(Lin.sym("n" + nm) - fmt.inf_ord - 1, ">="), (Lin({}, (1 << (bits - 1)) - 1) - Lin.sym("n" + nm), ">=")]

                        def P(k):
                            if not flush:
                                return k
                            if k > i_sub:
                                return k - i_sub
                            return 0 if 2 * k <= i_sub else 1

                        def run():
                            I = Interp(repo)
                            I.ext_calls = ext
                            env = {"x": _FV(fmt, "x", cx, sx), "y": _FV(fmt, "y", cy, sy), "flush_subnormals": flush, "equal_nan": equal_nan,
                                   "int": as_int, "abs": abs}
                            try:
                                I.exec_block(scalar.body, env, REL)
                                got = None
                            except _Return as ret:
                                got = ret.v
                            if cx == "fin" and cy == "fin":
                                kx = Lin.sym("ix") if sx else Lin({}, 0)
                                ky = Lin.sym("iy") if sy else Lin({}, 0)
                                want = abs(Lin.lift(sx * P(kx)) - Lin.lift(sy * P(ky)))
                            elif (cx, sx) == (cy, sy) and cx == "inf":
                                want = Lin({}, 0)
                            elif cx == "nan" and cy == "nan" and equal_nan:
                                want = Lin({}, 0)
                            else:
                                want = Lin({}, marker)
                            g = Lin.lift(got) if got is not None and not isinstance(got, Lin) and isinstance(got, int) else got
                            return g, want

                        try:
                            for ctx, (got, want) in Paths.explore(run, base_facts=facts):
                                n_paths += 1
                                ok = isinstance(got, Lin) and (got.same(want) or ctx.entails(got - want, "==") is True)
                                if not ok and cx == "nan" and cy == "nan" and not equal_nan and isinstance(got, Lin) and got.same(Lin({}, 0)) \
                                        and ctx.entails(Lin.sym("nx") - Lin.sym("ny"), "==") is True:
                                    nan_same_payload.add(bits)  # outside C14 (finite values): NaNs with identical bit patterns are at distance 0
                                    continue
                                if not ok:
                                    bad.append((flush, equal_nan, (cx, sx), (cy, sy), ctx.describe(), repr(got), repr(want)))
                        except (IUnsupported, PyRaise, TypeError) as e:
                            raise AnalysisError(f"diff_ulp scalar branch is not interpretable for x={cx, sx} y={cy, sy} flush={flush}: {getattr(e, 'what', e)}")
        if bad:
            seen = set()
            for flush, eqn, X, Y, path, got, want in bad:
                key = (flush, X, Y)
                if key in seen:
                    continue
                seen.add(key)
                if len(seen) > 6:
                    break
                r.ob(rule, f"{REL}::diff_ulp float{bits} x={X[0]}{'+' if X[1] > 0 else '-' if X[1] < 0 else '0'} y={Y[0]}{'+' if Y[1] > 0 else '-' if Y[1] < 0 else '0'} flush={flush}", False,
                     f"on the path [{path}] (ix, iy: lattice ordinals of |x|, |y|; equal_nan={eqn}) the branch returns {got}; the lattice distance is {want}", loc(REL, scalar))
        else:
            r.ob(rule, f"{REL}::diff_ulp float{bits} scalar distance", True, "every (class, sign) pair, both flush modes and both equal_nan modes: returned value == lattice distance on every feasible path", loc(REL, scalar))
    r.info(rule, f"diff_ulp scalar branch: {n_cases} abstract cases, {n_paths} feasible paths interpreted")
    if nan_same_payload:
        r.info(rule, "not part of C14 (finite values): two NaNs with identical bit patterns are at distance 0 even with equal_nan=False, NaNs with different payloads at 2**bits")


def check_ulp_by_binade(r, repo, rule="R14.5"):
    """ulp(x) is decided for every float: the source of utils.ulp is interpreted once per (format, sign, binade) on an abstract
    value standing for all floats of that binade (frexp returns the binade's exponent, ldexp of a power of two is a power of two
    that underflows below the smallest subnormal), plus the special values.  The documented identities x + ulp(x) ==
    nextafter(x, inf) for x >= 0 and x - ulp(x) == nextafter(x, -inf) for x < 0 hold exactly when ulp(x) is the spacing of x's
    binade: 2**(E - p) for normal values and the smallest subnormal below the normal range."""
    from sa.absint import Interp, Closure, Unsupported as IUnsupported, PyRaise

    u = repo.func(REL, "ulp")

    def frexp(x):
        if isinstance(x, _Binade):
            return ("MANTISSA", x.E)
        if isinstance(x, _P2) and x.kind == "p2":
            return (0.5, x.k + 1)
        raise TypeError("frexp of a special value is not modelled")

    def ldexp(x, e):
        if isinstance(x, _P2) and x.kind == "p2" and isinstance(e, int):
            return _P2(x.fmt, x.k + e)
        raise TypeError(f"ldexp({x!r}, {e!r}) is not modelled")

    ext = {
        "numpy.frexp": frexp, "numpy.ldexp": ldexp, "numpy.finfo": _Finfo,
        "numpy.isinf": lambda x: isinstance(x, _Special) and x.kind == "inf" or (isinstance(x, _P2) and x.kind == "inf"),
        "numpy.isnan": lambda x: isinstance(x, _Special) and x.kind == "nan",
        "numpy.isfinite": lambda x: isinstance(x, (_Binade,)) or (isinstance(x, _Special) and x.kind == "zero") or (isinstance(x, _P2) and x.kind != "inf"),
        "numpy.isposinf": lambda x: isinstance(x, _Special) and x.kind == "inf" and x.sign > 0,
        "numpy.isneginf": lambda x: isinstance(x, _Special) and x.kind == "inf" and x.sign < 0,
        "numpy.signbit": lambda x: x.sign < 0,
        "numpy.abs": abs, "numpy.absolute": abs,
    }

    def interpret(x):
        I = Interp(repo)
        I.ext_calls = ext
        try:
            return I.call(Closure(u, {}, I, REL, bound_self=None), [x])
        except (IUnsupported, PyRaise, TypeError) as e:
            raise AnalysisError(f"utils.ulp is not interpretable on {x!r}: {getattr(e, 'what', e)}")

    n = 0
    for bits in (16, 32, 64):
        fmt = _Fmt(bits)
        bad = []
        for sign in (1, -1):
            for E in range(fmt.esub + 1, fmt.emax + 2):
                got = interpret(_Binade(fmt, E, sign))
                want = max(E - fmt.p, fmt.esub)
                n += 1
                if not (isinstance(got, _P2) and got.kind == "p2" and got.k == want):
                    bad.append((sign, E, got, want))
        if bad:
            lo, hi = min(b[1] for b in bad), max(b[1] for b in bad)
            s_, E, got, want = bad[0]
            kind = "subnormal " if hi - 1 < fmt.emin else ""
            r.ob(rule, f"{REL}::ulp float{bits} {kind}binades E={lo}..{hi}", False,
                 f"{len(bad)} (sign, binade) classes are wrong, e.g. for {'-' if s_ < 0 else ''}x in [2**{E - 1}, 2**{E}) ulp returns {got!r}, the spacing there is 2**{want}; "
                 f"x + ulp(x) == nextafter(x, inf) fails for every such x", loc(REL, u), sample=dict(rule=rule, bits=bits, E=E, got=repr(got), want=want))
        else:
            r.ob(rule, f"{REL}::ulp float{bits} all finite non-zero binades", True, f"{2 * (fmt.emax + 1 - fmt.esub)} (sign, binade) classes: ulp = spacing of the binade", loc(REL, u))
        for x, want in ((_Special(fmt, "zero"), ("p2", fmt.esub)), (_Special(fmt, "inf", 1), ("inf", None)), (_Special(fmt, "inf", -1), ("inf", None)), (_Special(fmt, "nan"), ("nan", None))):
            got = interpret(x)
            n += 1
            if want[0] == "p2":
                ok = isinstance(got, _P2) and got.kind == "p2" and got.k == want[1]
            elif want[0] == "inf":
                ok = (isinstance(got, _Special) and got.kind == "inf" and got.sign > 0) or (isinstance(got, _P2) and got.kind == "inf")
            else:
                ok = isinstance(got, _Special) and got.kind == "nan"
            r.ob(rule, f"{REL}::ulp float{bits} at {x!r}", ok, f"ulp({x!r}) = {got!r}", loc(REL, u))
    r.info(rule, f"utils.ulp interpreted on {n} abstract arguments (one per format, sign and binade, plus zero, infinities and NaN)")


def check_list_branch(r, repo, rule="R14.6"):
    """The list branch of diff_ulp (sequences of unequal length are padded with zeros, element distances added) is interpreted
    (sa/absint.py) for all lengths 0..3 x 0..3 (not both empty) on symbolic items, the recursive scalar calls summarised as
    D(a, b): the result must be the sum of D(x_i, y_i) over i < max(len) with the missing items replaced by zero - in particular
    symmetric in the two lengths.  A padding computed from an already padded length (seed C14f) drops the tail of the longer
    first argument."""
    from sa.absint import Interp, Closure, Unsupported as IUnsupported, PyRaise

    g = repo.func(REL, "diff_ulp")

    class Item:
        __absint_host__ = True

        def __init__(self, name):
            self.name = name

        @property
        def __absint_type__(self):
            return ItemType()

        def __repr__(self):
            return self.name

    class ItemType:
        __absint_host__ = True

        def __call__(self, v=0):
            if v != 0:
                raise IUnsupported("non-zero pad value")
            return Item("0")

    class DSum:
        __absint_host__ = True

        def __init__(self, terms=()):
            self.terms = tuple(terms)

        def __add__(self, o):
            if isinstance(o, DSum):
                return DSum(self.terms + o.terms)
            if isinstance(o, int) and o == 0:
                return self
            return NotImplemented

        __radd__ = __add__

    def summary(a, b, *rest, **kw):
        if not (isinstance(a, Item) and isinstance(b, Item)):
            raise IUnsupported("recursive diff_ulp on a non-item")
        # whether the options are forwarded is R14.3's subject; here only the pairing and padding are judged
        return DSum([(a.name, b.name)])

    n_cases = 0
    bad = None
    for m in range(0, 4):
        for n in range(0, 4):
            if m == 0 or n == 0:
                continue  # type(x[0]) of an empty list: outside the function's domain
            xs, ys = [Item(f"x{i}") for i in range(m)], [Item(f"y{i}") for i in range(n)]
            I = Interp(repo)
            I.globals_cache[(REL, "diff_ulp")] = summary
            try:
                out = I.call(Closure(g, {}, I, REL, bound_self=None), [list(xs), list(ys)], dict(flush_subnormals="FLUSH", equal_nan="EQNAN"))
            except (IUnsupported, PyRaise, TypeError) as e:
                raise AnalysisError(f"{REL}::diff_ulp list branch is not interpretable for lengths ({m}, {n}): {getattr(e, 'what', e)}")
            n_cases += 1
            k = max(m, n)
            want = sorted((f"x{i}" if i < m else "0", f"y{i}" if i < n else "0") for i in range(k))
            got = sorted(out.terms) if isinstance(out, DSum) else (sorted([]) if out == 0 else None)
            if got != want and bad is None:
                bad = (m, n, got, want)
    r.ob(rule, f"{REL}::diff_ulp list branch sums the distances of all positions (lengths 1..3 x 1..3)", bad is None,
         "" if bad is None else f"for sequences of lengths ({bad[0]}, {bad[1]}) the result is the sum over {bad[2]}, expected {bad[3]}: items of the longer sequence "
         "beyond the shorter one are not compared with zero, so unequal sequences get distance 0 and the distance is not symmetric", loc(REL, g),
         sample=dict(rule=rule, cases=n_cases))



def run(repo, tier):
    r = Report("C14", tier, repo, level="other", design_ref="§3/C14")
    r.explanation = (
        "Thin structural clauses of C14, decided on the source of utils.diff_ulp / utils.ulp: (R14.1) the scalar branch of diff_ulp is "
        "invariant under exchanging its two arguments, up to commutativity of + == != and/or and the `a-b if a>=b else b-a` idiom "
        "(symmetry of the metric); (R14.2) complex distance is max of the component distances, real paired with real, imag with imag; "
        "(R14.3) list/array branches pair elements positionally and forward both options; (R14.4) signs are taken before abs(), "
        "zero has sign 0 and the integer views are taken of the absolute values (so +0 and -0 coincide), the out-of-range marker is "
        "2**bits; (R14.5) ulp(x) = 2**(frexp exponent + negep), smallest subnormal at 0, even in x. That the result equals the number "
        "of representable steps, additivity along chains and the flush remapping are numeric and NOT decided."
    )
    r.trusted_base = ["Python ast"]
    r.rule("R14.2", "complex distance = max(distance of real parts, distance of imaginary parts)", floor=1)
    r.rule("R14.3", "sequence branches pair elements positionally and forward flush_subnormals and equal_nan", floor=3)
    r.rule("R14.6", "diff_ulp on sequences: the distances of all positions up to the longer length are added, the shorter sequence padded with zeros", floor=1)
    r.rule("R14.4", "scalar branch: on every feasible path of every (class, sign) case the result equals the integer distance |pos(x) - pos(y)| on the float lattice (flushing: documented collapse map); non-finite pairs: 0 or the marker 2**bits", floor=3)
    r.rule("R14.5", "ulp(x) is the spacing of x's binade for every finite x (so the documented nextafter identities hold), smallest subnormal at 0, inf at infinities, NaN at NaN", floor=15)

    f = repo.func(REL, "diff_ulp")
    scalar = None
    cplx = None
    for n in ast.walk(f):
        if isinstance(n, ast.If) and isinstance(n.test, ast.Call) and dotted(n.test.func) == "isinstance" and dotted(n.test.args[0]) == "x":
            t = norm_src(n.test.args[1])
            if t == "numpy.floating" and scalar is None:
                scalar = n
            if t == "numpy.complexfloating" and cplx is None:
                cplx = n
    if scalar is None or cplx is None:
        raise AnalysisError("diff_ulp: scalar / complex branches not found")
    # ---- R14.2
    ret = [n for n in ast.walk(cplx) if isinstance(n, ast.Return)]
    ok = False
    if ret and isinstance(ret[0].value, ast.Call) and dotted(ret[0].value.func) == "max" and len(ret[0].value.args) == 2:
        parts = []
        for c in ret[0].value.args:
            if isinstance(c, ast.Call) and dotted(c.func) == "diff_ulp" and len(c.args) == 2:
                parts.append((norm_src(c.args[0]), norm_src(c.args[1]), {kw.arg: norm_src(kw.value) for kw in c.keywords}))
        ok = sorted(p[:2] for p in parts) == [("x.imag", "y.imag"), ("x.real", "y.real")] and all(p[2] == {"flush_subnormals": "flush_subnormals", "equal_nan": "equal_nan"} for p in parts)
    r.ob("R14.2", f"{REL}::diff_ulp complex branch", ok, f"complex branch returns `{norm_src(ret[0].value) if ret else None}`", loc(REL, cplx))
    # ---- R14.3 recursive calls forward options and pair the k-th element of x with the k-th element of y
    zip_pairs = set()
    n3 = 0
    for n in ast.walk(f):
        if isinstance(n, (ast.For, ast.comprehension)) and isinstance(n.iter, ast.Call) and dotted(n.iter.func) == "zip":
            n3 += 1
            args_ok = [norm_src(a) for a in n.iter.args] == ["x", "y"]
            r.ob("R14.3", f"{REL}::diff_ulp zip pairing", args_ok, f"iterates {norm_src(n.iter)}", loc(REL, n.iter))
            if args_ok and isinstance(n.target, ast.Tuple) and len(n.target.elts) == 2 and all(isinstance(e, ast.Name) for e in n.target.elts):
                zip_pairs.add((n.target.elts[0].id, n.target.elts[1].id))
    for c in calls_in(f):
        if dotted(c.func) == "diff_ulp" and len(c.args) == 2:
            a0, a1 = norm_src(c.args[0]), norm_src(c.args[1])
            if (a0, a1) in (("x.real", "y.real"), ("x.imag", "y.imag")):
                continue
            n3 += 1
            kws = {kw.arg: norm_src(kw.value) for kw in c.keywords}
            paired = (a0, a1) in zip_pairs or (a0, a1) in (("x[()]", "y[()]"), ("x[()]", "y"), ("x", "y[()]"))
            what = "element pair of zip(x, y)" if (a0, a1) in zip_pairs else f"({a0}, {a1})"
            r.ob("R14.3", f"{REL}::diff_ulp recursive call on {what}", paired and kws == {"flush_subnormals": "flush_subnormals", "equal_nan": "equal_nan"},
                 f"recursive call diff_ulp({a0}, {a1}, {kws}); element pairs of zip(x, y): {sorted(zip_pairs)}", loc(REL, c))
    if n3 < 3:
        raise AnalysisError("diff_ulp: recursive calls not found")
    # ---- R14.4
    check_scalar_distance(r, repo, scalar)
    # ---- R14.5 ulp
    check_ulp_by_binade(r, repo)
    check_list_branch(r, repo)
    return r
