"""C14 (thin) — structural clauses of the ULP metric: symmetry, pairing, sign-of-zero handling, ulp() formula.  Rules R14.1 .. R14.5."""

from __future__ import annotations

import ast
import copy

from sa.core import AnalysisError, Report, loc, norm_src
from sa.consteval import ev
from sa.paths import dotted, calls_in, call_name

REL = "utils.py"
SWAP = {"x": "y", "y": "x", "sx": "sy", "sy": "sx", "ix": "iy", "iy": "ix", "x_": "y_", "y_": "x_"}


class _Dtype(ast.NodeTransformer):
    """x.dtype and y.dtype denote the same thing (C14 is about same-type floats)."""

    def visit_Attribute(self, n):
        if n.attr == "dtype" and isinstance(n.value, ast.Name) and n.value.id in ("x", "y"):
            return ast.copy_location(ast.Name(id="DTYPE", ctx=ast.Load()), n)
        return self.generic_visit(n)


class _Swap(ast.NodeTransformer):
    def visit_Name(self, n):
        return ast.copy_location(ast.Name(id=SWAP.get(n.id, n.id), ctx=n.ctx), n)


def _split_tuple_assign(stmts):
    out = []
    for st in stmts:
        if isinstance(st, ast.Assign) and len(st.targets) == 1 and isinstance(st.targets[0], ast.Tuple) and isinstance(st.value, ast.Tuple) and len(st.value.elts) == len(st.targets[0].elts):
            # parallel assignment: only split when no target is read by another element's value (x, y = abs(x), abs(y) is fine)
            tg = [dotted(t) for t in st.targets[0].elts]
            ok = True
            for i, v in enumerate(st.value.elts):
                names = {n.id for n in ast.walk(v) if isinstance(n, ast.Name)}
                if any(t in names for j, t in enumerate(tg) if j != i):
                    ok = False
            if ok:
                for t, v in zip(st.targets[0].elts, st.value.elts):
                    out.append(ast.Assign(targets=[t], value=v, lineno=st.lineno))
                continue
        out.append(st)
    return out


def _canon_expr(n):
    """Canonical text of an expression modulo commutativity of + == != and/or and the |a-b| idiom."""
    if isinstance(n, ast.IfExp) and isinstance(n.test, ast.Compare) and len(n.test.ops) == 1 and isinstance(n.test.ops[0], (ast.GtE, ast.Gt, ast.LtE, ast.Lt)):
        a, b = n.test.left, n.test.comparators[0]
        if isinstance(n.test.ops[0], (ast.LtE, ast.Lt)):
            a, b = b, a
        ca, cb = _canon_expr(a), _canon_expr(b)
        if isinstance(n.body, ast.BinOp) and isinstance(n.body.op, ast.Sub) and isinstance(n.orelse, ast.BinOp) and isinstance(n.orelse.op, ast.Sub):
            if (_canon_expr(n.body.left), _canon_expr(n.body.right)) == (ca, cb) and (_canon_expr(n.orelse.left), _canon_expr(n.orelse.right)) == (cb, ca):
                return "absdiff(" + ",".join(sorted([ca, cb])) + ")"
    if isinstance(n, ast.BinOp) and isinstance(n.op, (ast.Add, ast.Mult)):
        return type(n.op).__name__ + "(" + ",".join(sorted([_canon_expr(n.left), _canon_expr(n.right)])) + ")"
    if isinstance(n, ast.BoolOp):
        return type(n.op).__name__ + "(" + ",".join(sorted(_canon_expr(v) for v in n.values)) + ")"
    if isinstance(n, ast.Compare) and len(n.ops) == 1 and isinstance(n.ops[0], (ast.Eq, ast.NotEq)):
        return type(n.ops[0]).__name__ + "(" + ",".join(sorted([_canon_expr(n.left), _canon_expr(n.comparators[0])])) + ")"
    if isinstance(n, ast.Call) and dotted(n.func) in ("max", "min"):
        return dotted(n.func) + "(" + ",".join(sorted(_canon_expr(a) for a in n.args)) + ")"
    if isinstance(n, ast.expr):
        parts = []
        for f, v in ast.iter_fields(n):
            if isinstance(v, ast.expr):
                parts.append(_canon_expr(v))
            elif isinstance(v, list):
                parts.append("[" + ",".join(_canon_expr(x) if isinstance(x, ast.expr) else ast.dump(x) if isinstance(x, ast.AST) else repr(x) for x in v) + "]")
            elif isinstance(v, ast.AST):
                parts.append(type(v).__name__)
            else:
                parts.append(repr(v))
        return type(n).__name__ + "(" + ",".join(parts) + ")"
    return ast.dump(n)


def _canon_block(stmts):
    stmts = _split_tuple_assign(stmts)
    out = []
    run = []  # consecutive independent simple assignments are sorted

    def flush():
        nonlocal run
        out.extend(sorted(run))
        run = []

    for st in stmts:
        if isinstance(st, ast.Assign) and len(st.targets) == 1 and isinstance(st.targets[0], ast.Name):
            run.append(f"{st.targets[0].id} = {_canon_expr(st.value)}")
            continue
        flush()
        if isinstance(st, ast.If):
            out.append(f"if {_canon_expr(st.test)}: {{{_canon_block(st.body)}}} else: {{{_canon_block(st.orelse)}}}")
        elif isinstance(st, ast.Return):
            out.append(f"return {_canon_expr(st.value) if st.value is not None else ''}")
        elif isinstance(st, ast.Expr):
            out.append(_canon_expr(st.value))
        else:
            out.append(ast.dump(st))
    flush()
    return "; ".join(out)


def run(repo, tier):
    r = Report("C14", tier, repo, level="other", design_ref="§3/C14")
    r.explanation = (
        "Thin structural clauses of C14, decided on the source of utils.diff_ulp / utils.ulp: (R14.1) the scalar branch of diff_ulp is "
        "invariant under exchanging its two arguments, up to commutativity of + == != and/or and the `a-b if a>=b else b-a` idiom "
        "(symmetry of the metric); (R14.2) complex distance is max of the component distances, real paired with real, imag with imag; "
        "(R14.3) list/array branches pair elements positionally and forward both options; (R14.4) signs are taken before abs(), "
        "zero has sign 0 and the integer views are taken of the absolute values (so +0 and -0 coincide), the out-of-range marker is "
        "2**bits; (R14.5) ulp(x) = 2**(frexp exponent + negep), smallest subnormal at 0, even in x. That the result equals the number "
        "of representable steps, additivity along chains and the flush remapping are numeric and NOT decided."
    )
    r.trusted_base = ["Python ast"]
    r.rule("R14.1", "diff_ulp's scalar branch is symmetric in its arguments (swap-invariant canonical form)", floor=1)
    r.rule("R14.2", "complex distance = max(distance of real parts, distance of imaginary parts)", floor=1)
    r.rule("R14.3", "sequence branches pair elements positionally and forward flush_subnormals and equal_nan", floor=3)
    r.rule("R14.4", "sign taken before abs(); zero has sign 0; integer views of absolute values; out-of-range marker 2**bits", floor=4)
    r.rule("R14.5", "ulp(x) = ldexp(1, frexp(x)[1] + negep); smallest_subnormal at 0; ulp(-x) = ulp(x)", floor=3)

    f = repo.func(REL, "diff_ulp")
    scalar = None
    cplx = None
    for n in ast.walk(f):
        if isinstance(n, ast.If) and isinstance(n.test, ast.Call) and dotted(n.test.func) == "isinstance" and dotted(n.test.args[0]) == "x":
            t = norm_src(n.test.args[1])
            if t == "numpy.floating" and scalar is None:
                scalar = n
            if t == "numpy.complexfloating" and cplx is None:
                cplx = n
    if scalar is None or cplx is None:
        raise AnalysisError("diff_ulp: scalar / complex branches not found")
    # ---- R14.1
    body = [_Dtype().visit(copy.deepcopy(st)) for st in scalar.body]
    swapped = [_Swap().visit(_Dtype().visit(copy.deepcopy(st))) for st in scalar.body]
    a, b = _canon_block(body), _canon_block(swapped)
    ok = a == b
    detail = ""
    if not ok:
        pa, pb = a.split("; "), b.split("; ")
        diff = [(x, y) for x, y in zip(pa, pb) if x != y][:1]
        detail = f"exchanging x and y changes the scalar branch: `{diff[0][0][:160]}` vs `{diff[0][1][:160]}`" if diff else "bodies differ in length"
    r.ob("R14.1", f"{REL}::diff_ulp scalar branch swap-invariant", ok, detail, loc(REL, scalar))
    # ---- R14.2
    ret = [n for n in ast.walk(cplx) if isinstance(n, ast.Return)]
    ok = False
    if ret and isinstance(ret[0].value, ast.Call) and dotted(ret[0].value.func) == "max" and len(ret[0].value.args) == 2:
        parts = []
        for c in ret[0].value.args:
            if isinstance(c, ast.Call) and dotted(c.func) == "diff_ulp" and len(c.args) == 2:
                parts.append((norm_src(c.args[0]), norm_src(c.args[1]), {kw.arg: norm_src(kw.value) for kw in c.keywords}))
        ok = sorted(p[:2] for p in parts) == [("x.imag", "y.imag"), ("x.real", "y.real")] and all(p[2] == {"flush_subnormals": "flush_subnormals", "equal_nan": "equal_nan"} for p in parts)
    r.ob("R14.2", f"{REL}::diff_ulp complex branch", ok, f"complex branch returns `{norm_src(ret[0].value) if ret else None}`", loc(REL, cplx))
    # ---- R14.3 recursive calls forward options, pair x_ with y_
    n3 = 0
    for c in calls_in(f):
        if dotted(c.func) == "diff_ulp" and len(c.args) == 2:
            a0, a1 = norm_src(c.args[0]), norm_src(c.args[1])
            if (a0, a1) in (("x.real", "y.real"), ("x.imag", "y.imag")):
                continue
            n3 += 1
            kws = {kw.arg: norm_src(kw.value) for kw in c.keywords}
            paired = (a0, a1) in (("x_", "y_"), ("x[()]", "y[()]"), ("x[()]", "y"), ("x", "y[()]"))
            r.ob("R14.3", f"{REL}::diff_ulp recursive call ({a0}, {a1})", paired and kws == {"flush_subnormals": "flush_subnormals", "equal_nan": "equal_nan"},
                 f"recursive call diff_ulp({a0}, {a1}, {kws})", loc(REL, c))
    for n in ast.walk(f):
        if isinstance(n, (ast.For, ast.comprehension)) and isinstance(n.iter, ast.Call) and dotted(n.iter.func) == "zip":
            n3 += 1
            r.ob("R14.3", f"{REL}::diff_ulp zip pairing", [norm_src(a) for a in n.iter.args] == ["x", "y"], f"iterates {norm_src(n.iter)}", loc(REL, n.iter))
    if n3 < 3:
        raise AnalysisError("diff_ulp: recursive calls not found")
    # ---- R14.4
    env = {}
    order = []
    for st in scalar.body:
        if isinstance(st, ast.Assign):
            for t, v in (zip(st.targets[0].elts, st.value.elts) if isinstance(st.targets[0], ast.Tuple) and isinstance(st.value, ast.Tuple) else [(st.targets[0], st.value)]):
                env[dotted(t)] = norm_src(v)
                order.append(dotted(t))
    sign_ok = env.get("sx") == "-1 if x < 0 else 1 if x > 0 else 0" and env.get("sy") == "-1 if y < 0 else 1 if y > 0 else 0"
    r.ob("R14.4", f"{REL}::diff_ulp sign of the arguments (zero has sign 0)", sign_ok, f"sx = {env.get('sx')}; sy = {env.get('sy')}", loc(REL, scalar))
    abs_ok = env.get("x") == "abs(x)" and env.get("y") == "abs(y)" and order.index("sx") < order.index("x") and order.index("x") < order.index("ix")
    r.ob("R14.4", f"{REL}::diff_ulp signs before abs(), integer views after abs()", abs_ok, f"assignment order {order}", loc(REL, scalar))
    view_ok = env.get("ix") == "int(x.view(uint))" and env.get("iy") == "int(y.view(uint))"
    r.ob("R14.4", f"{REL}::diff_ulp integer views", view_ok, f"ix = {env.get('ix')}; iy = {env.get('iy')}", loc(REL, scalar))
    marker = [n for n in ast.walk(scalar) if isinstance(n, ast.Dict) and any(isinstance(ev(v), int) and ev(v) > 2 ** 15 for v in n.values)]
    ok = bool(marker) and all(ev(v) == 2 ** {"numpy.float64": 64, "numpy.float32": 32, "numpy.float16": 16}[dotted(k)] for k, v in zip(marker[0].keys, marker[0].values))
    r.ob("R14.4", f"{REL}::diff_ulp out-of-range marker", ok, "marker for non-finite pairs is not 2**bits", loc(REL, scalar))
    # equal infinities are at distance 0
    eqinf = any(isinstance(n, ast.If) and _canon_expr(n.test) == _canon_expr(ast.parse("ix == iy and sx == sy", mode="eval").body) and any(isinstance(x, ast.Return) and norm_src(x.value) == "0" for x in n.body) for n in ast.walk(scalar))
    r.ob("R14.4", f"{REL}::diff_ulp identical non-finite values have distance 0", eqinf, "`elif ix == iy and sx == sy: return 0` not found", loc(REL, scalar))
    # ---- R14.5 ulp
    u = repo.func(REL, "ulp")
    rets = {}
    for n in ast.walk(u):
        if isinstance(n, ast.If):
            rr = [x for x in n.body if isinstance(x, ast.Return)]
            if rr:
                rets[norm_src(n.test)] = norm_src(rr[0].value)
    last = [st for st in u.body if isinstance(st, ast.Return)]
    r.ob("R14.5", f"{REL}::ulp at zero", rets.get("x == 0") == "numpy.finfo(dtype).smallest_subnormal", f"ulp(0) returns {rets.get('x == 0')}", loc(REL, u))
    r.ob("R14.5", f"{REL}::ulp is even", rets.get("x < 0") == "ulp(-x)", f"ulp(x<0) returns {rets.get('x < 0')}", loc(REL, u))
    fin = norm_src(last[0].value) if last else None
    r.ob("R14.5", f"{REL}::ulp formula", fin in ("numpy.ldexp(dtype(1), numpy.frexp(x)[1] + numpy.finfo(dtype).negep)", "numpy.ldexp(dtype(1), numpy.finfo(dtype).negep + numpy.frexp(x)[1])"),
         f"ulp(x) = {fin}; with x = m*2**e, m in [0.5, 1), the unit in the last place is 2**(e - p) = ldexp(1, e + negep)", loc(REL, u))
    return r
