"""C03 — symmetries and cross-function identities of the algorithm definitions (Engine B).  DESIGN.md §3/C03."""

from __future__ import annotations

import os

from sa.core import AnalysisError, Report
from ir.frontend import load_package, expand
from ir.normal import Importer, Norm, subst, sym, T, Unmodelled

COMPLEX_FUNCS = ["absolute", "acos", "acosh", "asin", "asinh", "atan", "atanh", "exp", "log", "log2", "log10", "log1p", "sqrt", "square"]
ODD_COMPLEX = ["asin", "asinh", "atan", "atanh"]
ODD_REAL = ["asin", "asinh"]
EVEN = ["square"]


def neg(t):
    return T("negative", t)


def show(t, depth=0, limit=6):
    if depth > limit:
        return "…"
    if not isinstance(t, tuple):
        return repr(t)
    if t and t[0] == "sym":
        return t[1]
    if t and t[0] == "const":
        v = t[1]
        if v[0] == "num":
            return repr(float.fromhex(v[1]))
        return str(v[1])
    if len(t) == 2 and t[0] in (1, -1) and isinstance(t[1], tuple):
        return ("-" if t[0] < 0 else "") + show(t[1], depth, limit)
    return f"{t[0]}(" + ", ".join(show(x, depth + 1, limit) for x in t[1:]) + ")"


def first_diff(a, b, depth=0):
    """Smallest differing sub-term pair of two normal forms."""
    if a == b:
        return None
    if not (isinstance(a, tuple) and isinstance(b, tuple)) or len(a) != len(b) or a[:1] != b[:1] and not (a[0] in (1, -1) and b[0] in (1, -1)):
        return (a, b)
    diffs = [(x, y) for x, y in zip(a, b) if x != y]
    if len(diffs) == 1 and isinstance(diffs[0][0], tuple) and isinstance(diffs[0][1], tuple):
        d = first_diff(diffs[0][0], diffs[0][1], depth + 1)
        return d or diffs[0]
    return (a, b)


class Graphs:
    """Expanded and imported algorithm definitions for one dtype configuration."""

    def __init__(self, fa, ctype, ftype, parameters=None):
        self.fa, self.ctype, self.ftype, self.parameters = fa, ctype, ftype, parameters
        self.cache = {}
        self.stats = {}

    def complex(self, name):
        if ("c", name) not in self.cache:
            ex = expand(self.fa, name, (f"z:{self.ctype}",), parameters=self.parameters)
            imp = Importer(self.fa.expr.Expr, {"z": ("PAIR", sym("x"), sym("y"))})
            v = imp.imp(ex.body)
            if not (isinstance(v, tuple) and v[0] == "PAIR"):
                v = ("PAIR", v, None)  # real-valued result of a complex argument (absolute)
            self.cache[("c", name)] = (v[1], v[2])
            self.stats[f"{name}:{self.ctype}"] = dict(nodes=len(imp.memo), kinds=len(imp.kinds), expansions=ex.stats["expansions"])
        return self.cache[("c", name)]

    def real(self, name, nargs=1):
        if ("r", name) not in self.cache:
            names = ["x", "y"][:nargs]
            ex = expand(self.fa, name, tuple(f"{n}:{self.ftype}" for n in names), parameters=self.parameters)
            imp = Importer(self.fa.expr.Expr, {n: sym(n) for n in names})
            self.cache[("r", name)] = imp.real(ex.body)
            self.stats[f"{name}:{self.ftype}"] = dict(nodes=len(imp.memo), kinds=len(imp.kinds), expansions=ex.stats["expansions"])
        return self.cache[("r", name)]


def run(repo, tier):
    r = Report("C03", tier, repo, level="proof", design_ref="§3/C03")
    r.explanation = (
        "Each symmetry / cross-function identity is proved as equality of signed normal forms of the expanded expression DAGs of the "
        "algorithm definitions (complex sub-operations expanded by the package's own definitions), for all inputs at once. Rotation "
        "identities (asinh/asin, atan/atanh, acosh/acos, imag acos/asin) are proved with no assumption on the inputs beyond the case "
        "split the property itself states; conjugation, oddness and evenness are proved for inputs whose components are non-zero and not NaN."
    )
    r.trusted_base = [
        "the package's tracer and definition-expansion mechanism as front end (graphs are constructed, never evaluated)",
        "exactness in IEEE-754 round-to-nearest of the normalising identities (sign pulling through * / atan2 sin tan sign, commutativity of + *, a>b == b<a, select(not c,a,b) == select(c,b,a))",
        "sign symmetry of the target library's natives (atan2 odd in its first argument, sin odd, cos even)",
    ]
    r.assumptions = [
        "identities are decided modulo the sign of zero of exactly cancelling intermediate sums",
        "conjugation/oddness/evenness: input components non-zero and not NaN (the +-0 lattice is not decided)",
        "rotation identities: inputs not NaN (a comparison of a bare input with a numeric constant is total: a <= b iff not b < a); otherwise only the property's own case split on the sign of imag(z)",
    ]
    r.rule("R3.1", "conjugation: f(conj z) == conj f(z) for the 14 complex algorithms (non-zero components)", floor=20)
    r.rule("R3.2", "oddness of asin, asinh, atan, atanh (complex and real) and evenness of square (non-zero components)", floor=8)
    r.rule("R3.3", "rotations: asinh(z) = -i asin(iz), atan(z) = -i atanh(iz), acosh(z) = +-i acos(z) by sign of imag z, imag acos = -imag asin (all inputs)", floor=8)

    for rel in ("algorithms.py", "floating_point_algorithms.py", "context.py", "expr.py", "rewrite.py", "typesystem.py"):
        repo.source(rel)  # digests of the definition and front-end files
    fa = load_package(repo.root)
    configs = [("complex128", "float64", None)]
    if tier == "thorough":
        configs += [("complex64", "float32", None), ("complex", "float", None),
                    ("complex128", "float64", dict(use_fast2sum=True)), ("complex64", "float32", dict(safe_min_limit=True)),
                    ("complex128", "float64", dict(safe_max_limit_coefficient=0.5))]
    unmodelled = set()
    for ctype, ftype, params in configs:
        tag = ctype + ("" if not params else "+" + ",".join(f"{k}={v}" for k, v in params.items()))
        G = Graphs(fa, ctype, ftype, params)

        def prove(rule, key, lhs, rhs, level, facts=None, negate_rhs=False):
            n = Norm({"x", "y"}, level=level, facts=facts)
            try:
                a = n.nf(lhs)
                b = n.nf(rhs)
            except Unmodelled as e:
                raise AnalysisError(f"{key}: {e}")
            if negate_rhs:
                b = (-b[0], b[1])
            ok = a == b
            detail = ""
            if not ok:
                d = first_diff(a, b)
                detail = f"normal forms differ; smallest differing sub-terms: {show(d[0])}  vs  {show(d[1])}"
                if n.unmodelled:
                    # a difference involving an unmodelled operation is an analysis limitation, not a violation
                    raise AnalysisError(f"{key}: normal forms differ and involve unmodelled kinds {sorted(n.unmodelled)}")
            unmodelled.update(n.unmodelled)
            r.ob(rule, f"[{tag}] {key}", ok, detail, "functional_algorithms/algorithms.py",
                 sample=dict(rule=rule, identity=key, config=tag, level=level, facts=str(facts) if facts else None))

        # ---- conjugation (R3.1)
        for f in COMPLEX_FUNCS:
            R, I = G.complex(f)
            m = {"y": neg(sym("y"))}
            prove("R3.1", f"real {f}(conj z) == real {f}(z)", subst(R, m), R, "nonzero")
            if I is not None:
                prove("R3.1", f"imag {f}(conj z) == -imag {f}(z)", subst(I, m), I, "nonzero", negate_rhs=True)
        # ---- oddness / evenness (R3.2)
        mm = {"x": neg(sym("x")), "y": neg(sym("y"))}
        for f in ODD_COMPLEX:
            R, I = G.complex(f)
            prove("R3.2", f"real {f}(-z) == -real {f}(z)", subst(R, mm), R, "nonzero", negate_rhs=True)
            prove("R3.2", f"imag {f}(-z) == -imag {f}(z)", subst(I, mm), I, "nonzero", negate_rhs=True)
        for f in ODD_REAL:
            F = G.real(f)
            prove("R3.2", f"real-input {f}(-x) == -{f}(x)", subst(F, {"x": neg(sym("x"))}), F, "nonzero", negate_rhs=True)
        R, I = G.complex("square")
        prove("R3.2", "real square(-z) == real square(z)", subst(R, mm), R, "nonzero")
        prove("R3.2", "imag square(-z) == imag square(z)", subst(I, mm), I, "nonzero")
        F = G.real("square")
        prove("R3.2", "real-input square(-x) == square(x)", subst(F, {"x": neg(sym("x"))}), F, "nonzero")
        # ---- rotations (R3.3), no assumption on the inputs
        rot = {"x": neg(sym("y")), "y": sym("x")}  # i*z = (-y, x)
        Rs, Is = G.complex("asin")
        Rh, Ih = G.complex("asinh")
        prove("R3.3", "real asinh(z) == imag asin(i z)", Rh, subst(Is, rot), "exact")
        prove("R3.3", "imag asinh(z) == -real asin(i z)", Ih, subst(Rs, rot), "exact", negate_rhs=True)
        Rt, It = G.complex("atanh")
        Ra, Ia = G.complex("atan")
        prove("R3.3", "real atan(z) == imag atanh(i z)", Ra, subst(It, rot), "exact")
        prove("R3.3", "imag atan(z) == -real atanh(i z)", Ia, subst(Rt, rot), "exact", negate_rhs=True)
        Rc, Ic = G.complex("acos")
        Rch, Ich = G.complex("acosh")
        ylt0 = ("lt", (1, sym("y")), (1, T("const", ("num", (0.0).hex()))))  # normal form of `y < 0`
        for val, name in ((False, "imag z not negative"), (True, "imag z negative")):
            facts = {ylt0: val}
            if not val:
                prove("R3.3", f"real acosh(z) == -imag acos(z) [{name}]", Rch, Ic, "exact", facts=facts, negate_rhs=True)
                prove("R3.3", f"imag acosh(z) == real acos(z) [{name}]", Ich, Rc, "exact", facts=facts)
            else:
                prove("R3.3", f"real acosh(z) == imag acos(z) [{name}]", Rch, Ic, "exact", facts=facts)
                prove("R3.3", f"imag acosh(z) == -real acos(z) [{name}]", Ich, Rc, "exact", facts=facts, negate_rhs=True)
        prove("R3.3", "imag acos(z) == -imag asin(z)", Ic, Is, "exact", negate_rhs=True)
        r.extra.setdefault("graphs", {}).update(G.stats)
    if unmodelled:
        r.info("R3.1", f"kinds kept opaque by the normaliser (no symmetry used): {sorted(unmodelled)}")
    r.extra["checker_cmd"] = f"./check C03 --tier {tier}"
    return r
