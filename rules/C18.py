"""C18 — FPU control context always restores the control register (fpu.py).

Rules R18.1 .. R18.6, see DESIGN.md §3/C18.  Everything is decided on the statement
paths of __enter__/__exit__, on the mask arithmetic, and on constant-evaluated byte blobs.
"""

from __future__ import annotations

import ast

from sa.core import AnalysisError, Report, loc, norm_src
from sa.consteval import ev, Opaque, NameRef
from sa.paths import enumerate_paths, calls_in, call_name, dotted, event_has_call
from sa.defuse import origins, last_def

REL = "fpu.py"

# MXCSR layout, Intel SDM vol.1 §10.2.3
FIELD = dict(FZ=1 << 15, DAZ=1 << 6, RN=(1 << 13) | (1 << 14))
RC = dict(nearest=0, down=1, up=2, towardszero=3)
LDMXCSR_RDI_RET = bytes([0x0F, 0xAE, 0x17, 0xC3])
STMXCSR_RDI_RET = bytes([0x0F, 0xAE, 0x1F, 0xC3])


def _context_classes(tree):
    out = []
    for n in ast.walk(tree):
        if isinstance(n, ast.ClassDef):
            names = {m.name for m in n.body if isinstance(m, ast.FunctionDef)}
            if {"__enter__", "__exit__"} <= names:
                out.append(n)
    return out


def _method(cls, name):
    for m in cls.body:
        if isinstance(m, ast.FunctionDef) and m.name == name:
            return m
    return None


def run(repo, tier):
    r = Report("C18", tier, repo, level="other", design_ref="§3/C18")
    r.explanation = (
        "Typestate / def-use / constant analysis of functional_algorithms/fpu.py: every statement path of the context "
        "manager's __exit__ restores the saved MXCSR value and lets exceptions propagate; __enter__ saves before it sets and "
        "derives the value it sets from a register read made in __enter__ itself; the bit-mask arithmetic is executed "
        "symbolically per path and compared with the MXCSR layout; readers and writers agree on bit positions; the machine-code "
        "blobs are constant-evaluated and matched to the ctypes slots. Decides the structural clauses, not the hardware."
    )
    r.trusted_base = ["Python ast", "MXCSR layout (Intel SDM vol.1 10.2.3)", "x86-64 encodings 0F AE /2 (ldmxcsr), 0F AE /3 (stmxcsr)"]
    r.assumptions = ["assert statements in __enter__/__exit__ hold", "set_mxcsr/get_mxcsr are reached only through the methods of MXCSRRegister"]
    r.rule("R18.1", "__exit__ restores saved_state via set_mxcsr on every path and never swallows exceptions", floor=1)
    r.rule("R18.2", "__enter__ stores get_mxcsr() into saved_state before any set_mxcsr; saved_state has no foreign writer", floor=2)
    r.rule("R18.3", "the value set in __enter__ derives from a register read performed inside __enter__ (read-modify-write locality)", floor=1)
    r.rule("R18.4", "per path, the mask arithmetic changes exactly the bits of the requested fields, to the requested values", floor=4)
    r.rule("R18.5", "FZ/DAZ readers and __str__ test the same bits the writer changes", floor=2)
    r.rule("R18.7", "get_mxcsr returns a fresh snapshot object on every call (saved_state must not alias a buffer that later reads overwrite)", floor=1)
    r.rule("R18.6", "machine-code blobs: setter slot holds `ldmxcsr [rdi]; ret`, getter slot `stmxcsr [rdi]; ret`, offsets follow write order", floor=2)

    tree = repo.tree(REL)
    ctxs = _context_classes(tree)
    if len(ctxs) != 1:
        raise AnalysisError(f"expected exactly one class with __enter__/__exit__ in fpu.py, found {len(ctxs)}")
    ctx = ctxs[0]
    enter, exit_ = _method(ctx, "__enter__"), _method(ctx, "__exit__")
    reg = repo.find(REL, "MXCSRRegister")

    # ------------------------------------------------------------------ R18.1
    for p in enumerate_paths(exit_):
        key = f"fpu.py::{ctx.name}.__exit__ path {p.describe().split('->')[0].strip()}"
        idx = [i for i, e in enumerate(p.events) if event_has_call(e, "set_mxcsr")]
        ok = False
        detail = ""
        if not idx:
            detail = f"path {p.describe()} leaves __exit__ without calling set_mxcsr"
        else:
            # argument must be the saved state
            good = False
            for i in idx:
                for c in calls_in(p.events[i].node):
                    if (call_name(c) or "").endswith("set_mxcsr") and c.args:
                        og = origins(c.args[0], p.events, i)
                        if not any(k == "attr" and "saved_state" in v.split(".") for k, v in og):
                            detail = f"set_mxcsr argument `{norm_src(c.args[0])}` is not the saved state (origins {sorted(og)})"
                        elif not _exactly_saved(c.args[0], p.events, i):
                            detail = (
                                f"set_mxcsr argument `{norm_src(c.args[0])}` is computed from the saved state and other values "
                                f"(origins {sorted(og)}): the register does not get back exactly the value it held on entry"
                            )
                        else:
                            good = True
            ok = good
            # restoring must precede clearing saved_state
            if ok:
                first = idx[0]
                for j, e in enumerate(p.events[:first]):
                    if e.kind == "stmt":
                        for n in ast.walk(e.node):
                            if isinstance(n, ast.Attribute) and n.attr == "saved_state" and isinstance(n.ctx, ast.Store):
                                ok = False
                                detail = "saved_state overwritten before it is restored"
        if p.exit == "raise" and not (idx and ok):
            detail = detail or "raises before restoring"
        if p.exit == "return" and p.exit_node.value is not None:
            v = ev(p.exit_node.value)
            if isinstance(v, (Opaque, NameRef)) or v:
                ok = False
                detail = f"__exit__ returns `{norm_src(p.exit_node.value)}`: a truthy value suppresses the exception"
        r.ob("R18.1", key, ok, detail, loc(REL, exit_))
    # exception arguments must not steer control flow
    exc_params = {a.arg for a in exit_.args.args[1:]}
    for n in ast.walk(exit_):
        if isinstance(n, (ast.If, ast.While, ast.IfExp)):
            used = {m.id for m in ast.walk(n.test) if isinstance(m, ast.Name)} & exc_params
            r.ob(
                "R18.1",
                f"fpu.py::{ctx.name}.__exit__ branch on `{norm_src(n.test)}`",
                not used,
                f"control flow of __exit__ depends on exception arguments {sorted(used)}",
                loc(REL, n),
            )

    # ------------------------------------------------------------------ R18.2 / R18.3
    for p in enumerate_paths(enter):
        if p.exit == "raise":
            continue
        key = f"fpu.py::{ctx.name}.__enter__ path {p.describe().split('->')[0].strip()}"
        set_idx = [i for i, e in enumerate(p.events) if event_has_call(e, "set_mxcsr")]
        save_idx = []
        for i, e in enumerate(p.events):
            if e.kind == "stmt" and isinstance(e.node, (ast.Assign, ast.AnnAssign)):
                tgts = e.node.targets if isinstance(e.node, ast.Assign) else [e.node.target]
                if any(isinstance(t, ast.Attribute) and t.attr == "saved_state" for t in tgts):
                    og = origins(e.node.value, p.events, i)
                    if any(k == "call" and v.endswith("get_mxcsr") for k, v in og):
                        save_idx.append(i)
        if not set_idx:
            r.ob("R18.2", key, False, "path through __enter__ never calls set_mxcsr (requested mode not applied)", loc(REL, enter))
            continue
        ok = bool(save_idx) and min(save_idx) < min(set_idx)
        r.ob(
            "R18.2",
            key,
            ok,
            "" if ok else "set_mxcsr is reached before saved_state has been stored from get_mxcsr()",
            loc(REL, enter),
        )
        # R18.3
        for i in set_idx:
            for c in calls_in(p.events[i].node):
                if (call_name(c) or "").endswith("set_mxcsr") and c.args:
                    og = origins(c.args[0], p.events, i)
                    local_read = any(k == "call" and v.endswith("get_mxcsr") for k, v in og)
                    r.ob(
                        "R18.3",
                        f"fpu.py::{ctx.name}.__enter__ set_mxcsr({norm_src(c.args[0])})",
                        local_read,
                        ""
                        if local_read
                        else f"value passed to set_mxcsr derives from {sorted(og)}, none of which is a register read made in "
                        "__enter__: a state computed when the context object was created clobbers bits changed by an enclosing context",
                        loc(REL, c),
                    )
    # foreign writers of saved_state
    allowed = {id(_method(ctx, m)) for m in ("__init__", "__enter__", "__exit__") if _method(ctx, m)}
    for n in ast.walk(tree):
        if isinstance(n, ast.Attribute) and n.attr == "saved_state" and isinstance(n.ctx, ast.Store):
            f = n
            while f is not None and not isinstance(f, ast.FunctionDef):
                f = getattr(f, "_parent", None)
            ok = f is not None and id(f) in allowed
            r.ob("R18.2", f"fpu.py saved_state writer {f.name if f else '<module>'}", ok, "saved_state written outside the context manager's own methods", loc(REL, n))

    # ------------------------------------------------------------------ R18.4 masks
    mask_funcs = []
    for f in ast.walk(tree):
        if isinstance(f, ast.FunctionDef):
            for st in f.body:
                pass
            own = [
                n
                for n in ast.walk(f)
                if isinstance(n, ast.AugAssign) and isinstance(n.op, (ast.BitOr, ast.BitAnd)) and _innermost_func(n) is f
            ]
            # arithmetic inside __exit__ is R18.1's subject (the restored value must be the saved one, not a computed one)
            if own and f is not exit_:
                mask_funcs.append((f, own))
    if len(mask_funcs) != 1:
        raise AnalysisError(f"expected the MXCSR mask arithmetic in exactly one function, found {[f.name for f, _ in mask_funcs]}")
    mf, augs = mask_funcs[0]
    var = {dotted(a.target) for a in augs}
    if len(var) != 1:
        raise AnalysisError(f"mask arithmetic updates several variables {var}")
    var = var.pop()
    params = {a.arg for a in mf.args.args + mf.args.kwonlyargs} - {"self"}
    # The mask function is bitwise in its base value (only |=, &=, ^= with option-dependent constants are applied to it), so
    # interpreting its AST on the all-zeros and the all-ones base value determines exactly which bits it sets and clears.
    # Both base values x every combination of options are run through the abstract interpreter (no repository code is executed).
    for a in augs:
        if not isinstance(a.op, (ast.BitOr, ast.BitAnd, ast.BitXor)):
            raise AnalysisError(f"fpu.py:{a.lineno}: non-bitwise update of {var}")
    from sa.absint import Interp, Closure, AObj, Unsupported as IUnsupported, PyRaise

    class _Val:
        __absint_host__ = True

        def __init__(self, v):
            self.value = v

    def interpret(base, FZ, DAZ, RN):
        I = Interp(repo)
        I.ext_calls = {"ctypes.c_uint32": lambda v=0: _Val(v)}
        clo = Closure(mf, {}, I, REL, bound_self=None)
        kwargs = dict(FZ=FZ, DAZ=DAZ, RN=RN)
        names = [a.arg for a in mf.args.args]
        args = []
        for nm in names:
            if nm == "self":
                args.append(AObj(REL, reg))  # an uninitialised instance: helper methods of the class resolve through it
            elif nm in kwargs:
                args.append(kwargs.pop(nm))
            else:
                args.append(_Val(base))
        out = I.call(clo, args, kwargs)
        if isinstance(out, _Val):
            out = out.value
        if not isinstance(out, int):
            raise AnalysisError(f"mask function returned {out!r}, not an integer register value")
        return out & 0xFFFFFFFF

    base_detail = None
    n_paths = 0
    for RNv in (None, "nearest", "down", "up", "towardszero"):
        for FZv in (None, True, False):
            for DAZv in (None, True, False):
                n_paths += 1
                try:
                    lo = interpret(0, FZv, DAZv, RNv)
                    hi = interpret(0xFFFFFFFF, FZv, DAZv, RNv)
                except (IUnsupported, PyRaise) as e:
                    raise AnalysisError(f"mask function not interpretable for RN={RNv} FZ={FZv} DAZ={DAZv}: {getattr(e, 'what', e)}")
                setm = lo
                clrm = (~hi) & 0xFFFFFFFF
                want_set = want_clr = 0
                if FZv is not None:
                    want_set |= FIELD["FZ"] if FZv else 0
                    want_clr |= 0 if FZv else FIELD["FZ"]
                if DAZv is not None:
                    want_set |= FIELD["DAZ"] if DAZv else 0
                    want_clr |= 0 if DAZv else FIELD["DAZ"]
                if RNv is not None:
                    rc = RC[RNv]
                    want_set |= (rc & 3) << 13
                    want_clr |= ((~rc) & 3) << 13
                ok = setm == want_set and clrm == want_clr
                key = f"fpu.py mask RN={RNv} FZ={FZv} DAZ={DAZv}"
                r.ob(
                    "R18.4", key, ok,
                    "" if ok else f"bits set {setm:#06x} cleared {clrm:#06x}; the MXCSR layout requires set {want_set:#06x} cleared {want_clr:#06x} "
                    "(a field that is only OR-ed keeps stale bits of the mode that was active on entry)",
                    loc(REL, mf), sample=dict(rule="R18.4", options=key, set=hex(setm), cleared=hex(clrm)),
                )
    # base value of the mask variable: a parameter of the function or a register read made inside it
    for p in enumerate_paths(mf):
        if p.exit == "raise":
            continue
        for i, e in enumerate(p.events):
            st = e.node
            if e.kind == "stmt" and isinstance(st, (ast.Assign, ast.AnnAssign)):
                tg = st.targets if isinstance(st, ast.Assign) else [st.target]
                if any(dotted(t) == var for t in tg):
                    og = origins(st.value, p.events, i)
                    base_ok = any(k == "call" and v.endswith("get_mxcsr") for k, v in og) or any(k == "name" and v in params for k, v in og)
                    r.ob("R18.3", f"fpu.py::{mf.name} base value of {var}", base_ok,
                         "" if base_ok else f"{var} starts from {sorted(og)}, neither a parameter nor a register read of this function", loc(REL, mf))
        break
    # where is the mask function invoked from?  it must be evaluated at enter time
    if mf is not enter:
        called_from_enter = any((call_name(c) or "").split(".")[-1] == mf.name for c in calls_in(enter))
        # or passed as a callable that __enter__ invokes: accept if the R18.3 obligation on __enter__ is discharged
        r.ob(
            "R18.3",
            f"fpu.py mask arithmetic evaluated at enter time (in {mf.name})",
            called_from_enter or _enter_invokes_callable(enter),
            f"the requested bits are merged into a register value inside `{mf.name}`, which is not evaluated from __enter__: "
            "the merged value is stale by the time the context is entered",
            loc(REL, mf),
        )
    # RN name table
    for n in ast.walk(mf):
        if isinstance(n, ast.Subscript) and isinstance(n.value, ast.Call) and dotted(n.value.func) == "dict":
            tbl = ev(n.value)
            if isinstance(tbl, dict) and set(tbl) & set(RC):
                for k, v in tbl.items():
                    r.ob("R18.4", f"fpu.py RN table {k}", RC.get(k) == v, f"rounding mode {k} encoded as {v}, MXCSR.RC requires {RC.get(k)}", loc(REL, n))

    # ------------------------------------------------------------------ R18.5 readers
    for name in ("FZ", "DAZ"):
        f = _method(reg, name)
        if f is None:
            raise AnalysisError(f"anchor vanished: MXCSRRegister.{name} property")
        masks = []
        for n in ast.walk(f):
            if isinstance(n, ast.BinOp) and isinstance(n.op, ast.BitAnd):
                for side in (n.left, n.right):
                    v = ev(side)
                    if isinstance(v, int):
                        masks.append(v)
        ok = masks == [FIELD[name]]
        r.ob("R18.5", f"fpu.py::MXCSRRegister.{name} mask", ok, f"reader tests mask(s) {masks}, writer/layout uses {FIELD[name]:#x}", loc(REL, f))
    s = _method(reg, "__str__")
    if s is not None:
        width = None
        for n in ast.walk(s):
            if isinstance(n, ast.FormattedValue) and n.format_spec is not None:
                spec = "".join(c.value for c in n.format_spec.values if isinstance(c, ast.Constant))
                if spec.endswith("b") and spec[:-1].lstrip("0").isdigit():
                    width = int(spec[:-1].lstrip("0"))
        if width is None:
            raise AnalysisError("MXCSRRegister.__str__: binary format width not recognised")
        for st in s.body:
            if isinstance(st, ast.Assign) and isinstance(st.targets[0], ast.Name):
                nm = st.targets[0].id
                subs = [n for n in ast.walk(st.value) if isinstance(n, ast.Subscript) and dotted(n.value) == "bits"]
                if not subs:
                    continue
                sub = subs[0]
                if isinstance(sub.slice, ast.Slice):
                    lo, hi = ev(sub.slice.lower), ev(sub.slice.upper)
                    bitset = sum(1 << (width - 1 - i) for i in range(lo, hi))
                    if nm == "RN":
                        ok = bitset == FIELD["RN"]
                        tbl = None
                        for n in ast.walk(st.value):
                            if isinstance(n, ast.Dict):
                                tbl = ev(n)
                        if isinstance(tbl, dict):
                            for k, v in tbl.items():
                                ok = ok and RC.get(v) == int(k, 2)
                        r.ob("R18.5", "fpu.py::MXCSRRegister.__str__ RN", ok, f"__str__ decodes RN from bits {bitset:#x} with table {tbl}", loc(REL, st))
                else:
                    i = ev(sub.slice)
                    if isinstance(i, int) and nm in ("FZ", "DAZ"):
                        bit = 1 << (width - 1 - i)
                        r.ob("R18.5", f"fpu.py::MXCSRRegister.__str__ {nm}", bit == FIELD[nm], f"__str__ reads {nm} from bit mask {bit:#x}, layout says {FIELD[nm]:#x}", loc(REL, st))

    # ------------------------------------------------------------------ R18.6 blobs
    init = _method(reg, "__init__")
    if init is None:
        raise AnalysisError("anchor vanished: MXCSRRegister.__init__")
    env = {}
    writes = []  # blob names in write order
    addr = {}  # name -> (base, offset)
    slots = {}
    for st in init.body:
        if isinstance(st, ast.Assign) and len(st.targets) == 1:
            t = st.targets[0]
            if isinstance(t, ast.Name):
                v = ev(st.value, env)
                if isinstance(v, bytes):
                    env[t.id] = v
                    continue
                a = _addr_expr(st.value, env, addr)
                if a is not None:
                    addr[t.id] = a
                elif isinstance(st.value, ast.Call) and (dotted(st.value.func) or "").endswith("addressof"):
                    addr[t.id] = (t.id, 0)
            elif isinstance(t, ast.Attribute) and isinstance(st.value, ast.Call) and st.value.args:
                a = _addr_expr(st.value.args[0], env, addr)
                if a is not None:
                    slots[t.attr] = a
        elif isinstance(st, ast.Expr) and isinstance(st.value, ast.Call) and (call_name(st.value) or "").endswith(".write"):
            a0 = st.value.args[0]
            v = ev(a0, env)
            if not isinstance(v, bytes):
                raise AnalysisError(f"fpu.py:{st.lineno}: written blob is not a constant byte string")
            writes.append(v)
    layout = {}
    off = 0
    for b in writes:
        layout[off] = b
        off += len(b)
    want = {"_set_mxcsr": (LDMXCSR_RDI_RET, "ldmxcsr [rdi]; ret"), "_get_mxcsr": (STMXCSR_RDI_RET, "stmxcsr [rdi]; ret")}
    for slot, (code, text) in want.items():
        if slot not in slots:
            raise AnalysisError(f"anchor vanished: self.{slot} = CFUNCTYPE(...)(addr) in MXCSRRegister.__init__")
        base, o = slots[slot]
        blob = layout.get(o)
        ok = blob is not None and blob[: len(code)] == code
        r.ob(
            "R18.6",
            f"fpu.py slot {slot}",
            ok,
            f"slot {slot} points at offset {o} of the code buffer where "
            + (f"bytes {blob[:4].hex()} are written" if blob is not None else "no blob starts")
            + f"; expected {code.hex()} ({text})",
            loc(REL, init),
            sample=dict(rule="R18.6", slot=slot, offset=o, bytes=(blob or b"")[:8].hex()),
        )
    # wrappers call their own slot
    for meth, slot in (("set_mxcsr", "_set_mxcsr"), ("get_mxcsr", "_get_mxcsr")):
        f = _method(reg, meth)
        if f is None:
            raise AnalysisError(f"anchor vanished: MXCSRRegister.{meth}")
        called = {(call_name(c) or "").split(".")[-1] for c in calls_in(f)}
        other = "_get_mxcsr" if slot == "_set_mxcsr" else "_set_mxcsr"
        ok = slot in called and other not in called
        r.ob("R18.6", f"fpu.py::MXCSRRegister.{meth} -> {slot}", ok, f"{meth} calls {sorted(called)}", loc(REL, f))
    # ------------------------------------------------------------------ R18.7 snapshot freshness
    gm = _method(reg, "get_mxcsr")
    n_ret = 0
    for p in enumerate_paths(gm):
        if p.exit != "return" or p.exit_node.value is None:
            continue
        n_ret += 1
        og = origins(p.exit_node.value, p.events, len(p.events))
        fresh = any(k == "call" and v.split(".")[-1] in ("c_uint32", "c_uint", "c_ulong", "c_int32") for k, v in og)
        shared = sorted(v for k, v in og if k == "attr" and v.startswith("self."))
        ok = fresh and not shared
        r.ob(
            "R18.7",
            "fpu.py::MXCSRRegister.get_mxcsr returns a fresh object",
            ok,
            f"get_mxcsr returns `{norm_src(p.exit_node.value)}` which " + (f"is the shared attribute {shared}" if shared else "is not freshly allocated in the call")
            + ": __enter__ stores this object as saved_state, and the next register read (r.FZ, str(r), a nested __enter__) overwrites it, so __exit__ restores the wrong value",
            loc(REL, p.exit_node),
        )
    if n_ret == 0:
        raise AnalysisError("get_mxcsr: no return found")
    # saved_state must be the object returned by get_mxcsr or a copy, never the buffer passed to the stub elsewhere
    return r


def _exactly_saved(n, events, at, depth=0):
    """Is the expression the saved state itself (possibly through local names or a re-wrapping of its .value)?"""
    from sa.defuse import last_def

    if depth > 20:
        return False
    if isinstance(n, ast.Attribute) and n.attr == "saved_state":
        return True
    if isinstance(n, ast.Name):
        ld = last_def(n.id, events, at)
        return ld is not None and not isinstance(ld[1], ast.AugAssign) and _exactly_saved(ld[1], events, ld[0], depth + 1)
    if isinstance(n, ast.Attribute) and n.attr == "value":
        return False
    if isinstance(n, ast.Call) and len(n.args) == 1 and not n.keywords and (dotted(n.func) or "").split(".")[-1].startswith("c_uint"):
        a = n.args[0]
        if isinstance(a, ast.Name):
            ld = last_def(a.id, events, at)
            if ld is None or isinstance(ld[1], ast.AugAssign):
                return False
            a, at = ld[1], ld[0]
        return isinstance(a, ast.Attribute) and a.attr == "value" and _exactly_saved(a.value, events, at, depth + 1)
    return False


def _innermost_func(n):
    f = getattr(n, "_parent", None)
    while f is not None and not isinstance(f, (ast.FunctionDef, ast.Lambda)):
        f = getattr(f, "_parent", None)
    return f


def _enter_invokes_callable(enter):
    """__enter__ calls an attribute of self (other than register methods) with an argument: a deferred computation."""
    for c in calls_in(enter):
        nm = call_name(c) or ""
        if nm.startswith("self.") and nm.count(".") == 1 and c.args:
            return True
    return False


def _addr_expr(node, env, addr):
    """Evaluate `name`, `name + len(blob)` style address expressions to (base, offset)."""
    if isinstance(node, ast.Name) and node.id in addr:
        return addr[node.id]
    if isinstance(node, ast.BinOp) and isinstance(node.op, ast.Add):
        a = _addr_expr(node.left, env, addr)
        b = _int_expr(node.right, env)
        if a is not None and b is not None:
            return (a[0], a[1] + b)
        a = _addr_expr(node.right, env, addr)
        b = _int_expr(node.left, env)
        if a is not None and b is not None:
            return (a[0], a[1] + b)
    return None


def _int_expr(node, env):
    if isinstance(node, ast.Call) and dotted(node.func) == "len" and node.args:
        v = ev(node.args[0], env)
        if isinstance(v, (bytes, str, list, tuple)):
            return len(v)
        return None
    v = ev(node, env)
    return v if isinstance(v, int) else None


def _path_facts(p, params):
    """From the tests on a path derive which of FZ/DAZ/RN are requested, their truth and the rounding code."""
    present, truth = {}, {}
    rc = None
    why = ""
    rvars = {}  # local name -> ('RN', table)
    for i, e in enumerate(p.events):
        if e.kind == "stmt" and isinstance(e.node, ast.Assign) and isinstance(e.node.targets[0], ast.Name):
            v = e.node.value
            if isinstance(v, ast.Subscript) and isinstance(v.slice, ast.Name) and v.slice.id in params:
                tbl = ev(v.value)
                if isinstance(tbl, dict):
                    rvars[e.node.targets[0].id] = (v.slice.id, tbl)
        if e.kind != "test":
            continue
        t = e.node
        if isinstance(t, ast.Compare) and len(t.ops) == 1 and isinstance(t.left, ast.Name):
            c = t.comparators[0]
            if isinstance(c, ast.Constant) and c.value is None and t.left.id in params:
                if isinstance(t.ops[0], ast.IsNot):
                    present[t.left.id] = e.pol
                elif isinstance(t.ops[0], ast.Is):
                    present[t.left.id] = not e.pol
                continue
            if t.left.id in rvars and isinstance(t.ops[0], ast.Eq) and isinstance(c, ast.Constant):
                if e.pol:
                    rc = c.value
                continue
        if isinstance(t, ast.Name) and t.id in params:
            truth[t.id] = e.pol
            continue
        if isinstance(t, ast.UnaryOp) and isinstance(t.op, ast.Not) and isinstance(t.operand, ast.Name) and t.operand.id in params:
            truth[t.operand.id] = not e.pol
            continue
        why += f" unrecognised test `{norm_src(t)}`;"
    for k in ("FZ", "DAZ", "RN"):
        present.setdefault(k, False)
    return present, truth, rc, why
