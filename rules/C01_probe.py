"""C01 R1.5 — boundary-value analysis of the region structure.

Every complex algorithm is a tree of `select`s over magnitude guards (safe_min / safe_max bands, |z| ~ 1 tests, overflow
rescues): a piecewise definition whose pieces are smooth formulas.  R1.1 bounds each piece only to 2**-6 .. 2**-9, so a
piece that applies the wrong formula on part of the plane - a moved or simplified threshold - with a method error below that
bound is invisible to it.  This rule derives the region structure from the IR and checks the pieces where such errors live:

  * the expanded DAG is restricted to a line (axes, diagonals, rays y = +-2**k x for many k, lines parallel to the axes at
    +-2**j) exactly as for R1.1;
  * the truth value of every select guard is computed along the line on a grid of one point per half binade (all binades,
    both signs) by evaluating the DAG on degenerate (single-point) intervals - sa/ival.py with zero slack, i.e. the IEEE
    operations themselves;
  * between neighbouring grid points whose guard vectors differ, the flip is located by bisection over the float ordinals
    down to two adjacent floats;
  * at both neighbours of every flip (and at the grid points) the value of the DAG must be within POINT_ULP of the numpy
    long-double complex reference, either side of a branch cut accepted.

What is static here is the derivation of the probe set from the IR's guards; the judgement at each probe is an exact
evaluation of the IR (no repository code runs), the same fallback R1.2 already uses for single points.  It is a directed
boundary-value check, not a proof over all inputs, and is reported as such.
"""

from __future__ import annotations

import numpy as np

from sa.ival import Fmt, Domain, evaluate, Unsupported, BV
from ir.frontend import load_package, expand
from ir.normal import Importer, sym, subst, T, const, Unmodelled

LD = np.longdouble
CLD = np.clongdouble
PROBE_ULP = 16.0


def base_terms(fa, name, ctype):
    ex = expand(fa, name, (f"z:{ctype}",))
    imp = Importer(fa.expr.Expr, {"z": ("PAIR", sym("x"), sym("y"))})
    t = imp.imp(ex.body)
    return (t[1], t[2]) if isinstance(t, tuple) and len(t) == 3 and t[0] == "PAIR" else (t, None)


def restrict(tre, tim, spec, simp):
    """spec: ('axis', fixed var, value) | ('ray', slope)"""
    if spec[0] == "ray":
        c = float(spec[1])
        rep = sym("x") if c == 1.0 else T("negative", sym("x")) if c == -1.0 else T("multiply", const(("num", c.hex())), sym("x"))
        m1, m2 = {}, {}
        a = simp(subst(tre, {"y": rep}, m1), m2)
        b = simp(subst(tim, {"y": rep}, m1), m2) if tim is not None else None
        return a, b, "x"
    return tre, tim, ("x" if spec[1] == "y" else "y")


def select_conds(roots):
    out, seen, stack = [], set(), [r for r in roots if r is not None]
    while stack:
        t = stack.pop()
        if t in seen or t[0] in ("sym", "const"):
            continue
        seen.add(t)
        if t[0] == "select" and t[1] not in out:
            out.append(t[1])
        stack.extend(a for a in t[1:] if isinstance(a, tuple))
    return out


def grid_ordinals(fmt):
    """one point per half binade: +-2**e and +-1.5 * 2**e for every binade including the subnormal ones, plus +-0, extremes"""
    f = fmt
    tiny_o = 1
    top = int(f.to_ord(f.largest))
    pts = {0, -1, top, -top - 1, top - 1, -top}
    o = tiny_o
    e_vals = []
    v = float(f.tiny)
    while v <= float(f.largest):
        e_vals.append(v)
        v *= 2.0
    with np.errstate(all="ignore"):
        a = np.array(e_vals, dtype=np.float64)
        cand = np.concatenate([a, a * 1.5]).astype(f.ft)
    cand = cand[np.isfinite(cand) & (cand > 0)]
    oo = f.to_ord(cand)
    for x in oo.tolist():
        pts.add(int(x))
        pts.add(-int(x) - 1)
    return np.array(sorted(pts), dtype=np.int64)


def _split_ld(a):
    c = LD(2.0 ** 32 + 1) * a
    hi = c - (c - a)
    return hi, a - hi


def _two_prod_ld(a, b):
    p = a * b
    ah, al = _split_ld(a)
    bh, bl = _split_ld(b)
    return p, ((ah * bh - p) + ah * bl + al * bh) + al * bl


def _two_sum_ld(a, b):
    s = a + b
    z = s - a
    return s, (a - (s - z)) + (b - z)


def ref_log1p(z):
    """log1p(x + iy) = log1p(2x + x*x + y*y)/2 + i atan2(y, 1 + x) in long double, with 2x + x*x + y*y accumulated as an
    (almost) exact double-long-double so that the cancellation near |1 + z| = 1 does not cost precision; for huge |z| the
    plain complex logarithm of 1 + z.  (numpy's complex long-double log1p is log(1 + z) and loses tiny arguments.)"""
    x, y = np.real(z).astype(LD), np.imag(z).astype(LD)
    with np.errstate(all="ignore"):
        # for |x| >= 2**-10 the sum 1 + x is exact in long double (inputs carry at most 53 bits) and glibc's clogl is accurate
        # everywhere, including |w| ~ 1 and w ~ 0; the compensated form is for tiny x, where 1 + x would lose x
        big = (np.abs(x) >= LD(2.0) ** -10) | (np.abs(y) > LD(2.0) ** 2000) | ~np.isfinite(x) | ~np.isfinite(y)
        xs, ys = np.where(big, LD(0), x), np.where(big, LD(0), y)
        p1, e1 = _two_prod_ld(xs, xs)
        p2, e2 = _two_prod_ld(ys, ys)
        s, t = _two_sum_ld(LD(2) * xs, p1)
        s, t2 = _two_sum_ld(s, p2)
        lo = ((t + t2) + e1) + e2
        s, lo = _two_sum_ld(s, lo)
        re = (np.log1p(s) + lo / (LD(1) + s)) / LD(2)
        im = np.arctan2(ys, LD(1) + xs)
        w = np.empty(x.shape, dtype=CLD)
        w.real, w.imag = re, im
        zb = np.empty(x.shape, dtype=CLD)
        zb.real, zb.imag = LD(1) + x, y
        return np.where(big, np.log(zb), w)


def dense_grid(fmt, per_binade):
    """`per_binade` ordinals, equally spaced in the lattice, in every binade of both signs (plus the half-binade grid)"""
    base = grid_ordinals(fmt)
    pos = base[base > 0]
    pows = pos[::2] if len(pos) > 2 else pos
    out = [base]
    a, b = pows[:-1], pows[1:]
    for j in range(1, per_binade):
        m = a + ((b - a) * j) // per_binade
        out.append(m)
        out.append(-m - 1)
    return np.unique(np.concatenate(out))


class LineProbe:
    def __init__(self, name, oracle, spec, tre, tim, var, fmt):
        self.name, self.f, self.spec, self.tre, self.tim, self.var, self.fmt = name, oracle, spec, tre, tim, var, fmt
        self.pdom = Domain(fmt, slack=0)
        self.comps = [c for c in (tre, tim) if c is not None]
        self.conds = select_conds(self.comps)
        self.n_eval = 0

    def _env(self, v):
        env = {self.var: self.pdom.box(v, v)}
        if self.spec[0] == "axis":
            env["x" if self.var == "y" else "y"] = self.pdom.const(self.spec[2])
        return env

    def eval(self, ords):
        """-> (guard matrix [N, G] of int8 (1 true, 0 false, 2 neither/both), component values [C][N])"""
        v = self.fmt.from_ord(ords)
        memo = {}
        vals = []
        exact = np.ones(v.shape, bool)
        for c in self.comps:
            R = evaluate(c, self._env(v), self.pdom, memo)
            lo_, hi_ = np.broadcast_to(R.lo, v.shape), np.broadcast_to(R.hi, v.shape)
            # a library function whose value the domain only encloses (sin/cos of huge arguments) leaves the point undecided
            exact &= (lo_ == hi_) | np.broadcast_to(R.emp, v.shape)
            vals.append(np.where(np.broadcast_to(R.emp, v.shape), self.fmt.ft(np.nan), lo_))
        self.exact = exact
        G = np.zeros((len(ords), len(self.conds)), dtype=np.int8)
        for j, c in enumerate(self.conds):
            b = memo.get(c)
            if b is None:
                b = evaluate(c, self._env(v), self.pdom, memo)
            if not isinstance(b, BV):
                raise Unsupported("a select condition that is not boolean")
            t, f_ = np.broadcast_to(b.t, v.shape), np.broadcast_to(b.f, v.shape)
            G[:, j] = np.where(t & ~f_, 1, np.where(f_ & ~t, 0, 2))
        self.n_eval += len(ords)
        return G, vals

    def flips(self, ords):
        """adjacent-float pairs (a, a+1) across which the guard vector changes, found by bisection between grid neighbours"""
        G, _ = self.eval(ords)
        diff = np.any(G[1:] != G[:-1], axis=1)
        lo, hi = ords[:-1][diff].copy(), ords[1:][diff].copy()
        Glo = G[:-1][diff].copy()
        while True:
            act = (hi - lo) > 1
            if not act.any():
                break
            mid = lo[act] + (hi[act] - lo[act]) // 2
            Gm, _ = self.eval(mid)
            same = np.all(Gm == Glo[act], axis=1)
            idx = np.nonzero(act)[0]
            lo[idx[same]] = mid[same]
            hi[idx[~same]] = mid[~same]
        return lo, hi

    def ref(self, t, side, tsign):
        fmt, spec, var = self.fmt, self.spec, self.var
        tf = t
        tl = t.astype(LD)
        if tsign is not None:
            tl = np.where(tl == 0, LD(tsign), tl)
            tf = np.where(tf == 0, fmt.ft(tsign), tf)
        if spec[0] == "axis":
            c = np.full(tl.shape, LD(spec[2] if side is None else side))
            re, im = (tl, c) if var == "x" else (c, tl)
        else:
            with np.errstate(all="ignore"):
                re, im = tl, (fmt.ft(spec[1]) * tf).astype(LD)
            if side is not None:
                # the dependent component underflowed to a zero: a point on a branch cut, either side accepted
                im = np.where(im == 0, LD(side), im)
        z = np.empty(tl.shape, dtype=CLD)
        z.real = re
        z.imag = im
        with np.errstate(all="ignore"):
            return self.f(z), z

    def errors(self, ords):
        """worst component error in ULP at each point (best over the admissible branch-cut sides), and the inputs"""
        fmt = self.fmt
        L = LD(fmt.largest)
        v = fmt.from_ord(ords)
        _, vals = self.eval(ords)
        exact = self.exact
        if self.spec[0] == "axis" and self.spec[2] == 0:
            variants = [(0.0, None), (-0.0, None), (0.0, 0.0), (0.0, -0.0), (-0.0, 0.0), (-0.0, -0.0)]
        elif self.spec[0] == "ray":
            variants = [(None, None), (None, 0.0), (None, -0.0), (0.0, None), (-0.0, None)]
        else:
            variants = [(None, None), (None, 0.0), (None, -0.0)]
        best = np.full(v.shape, np.inf)
        z0 = None
        for sd, ts in variants:
            ref, z = self.ref(v, sd, ts)
            if z0 is None:
                z0 = z
            worst = np.zeros(v.shape)
            for ci, pv in enumerate(vals):
                pv = pv.astype(LD)
                tv = (np.real(ref) if ci == 0 else np.imag(ref)) if np.iscomplexobj(ref) else ref
                with np.errstate(all="ignore"):
                    ulp = np.maximum(np.abs(tv), LD(fmt.smallest)) * LD(2.0 ** (1 - fmt.p))
                    e = np.abs(pv - tv) / ulp
                    e = np.where(np.isnan(tv), 0.0, np.where(np.isnan(e), np.inf, e))
                    e = np.where(np.isinf(pv) & np.isinf(tv) & (pv == tv), 0.0, e)
                    e = np.where((np.abs(tv) >= L) & np.isinf(pv), 0.0, e)
                    # an overflowed result stands for the next power of two: a true value a few ULP below the largest float may round there
                    ovf = np.isinf(pv) & (np.abs(tv) < L) & (np.sign(pv) == np.sign(tv))
                    e = np.where(ovf, (LD(2.0) ** int(np.finfo(fmt.ft).maxexp) - np.abs(tv)) / (L * LD(2.0 ** (1 - fmt.p))), e)
                    e = np.where((tv == 0) & (np.abs(pv) <= LD(fmt.tiny) * 16), 0.0, e)
                worst = np.maximum(worst, e.astype(np.float64))
            best = np.minimum(best, worst)
        best = np.where(exact, best, np.nan)
        return best, z0, vals


def probe_lines(root, ctype, name, oracle, specs, simp, classify, grid_cap=600):
    """-> dict(lines, points, flips, worst, failures=[(label, region or None, text)], error)"""
    fa = load_package(root)
    fmt = Fmt({"complex64": "float32", "complex128": "float64"}[ctype])
    res = dict(lines=0, points=0, flips=0, worst=0.0, failures=[], error=None, regions={}, undecided=0, worst_at="")
    try:
        tre0, tim0 = base_terms(fa, name, ctype)
        grid = grid_ordinals(fmt)
        for label, spec in specs:
            tre, tim, var = restrict(tre0, tim0, spec, simp)
            lp = LineProbe(name, oracle, spec, tre, tim, var, fmt)
            lo, hi = lp.flips(grid)
            # probes: both neighbours of every flip (and one float further out), the middle of every piece, a coarse grid
            cuts = np.unique(np.concatenate([[grid[0]], lo, [grid[-1]]]))
            mids = cuts[:-1] + (cuts[1:] - cuts[:-1]) // 2
            coarse = grid[:: max(1, len(grid) // grid_cap)]
            near = np.unique(np.concatenate([lo - 1, lo, hi, hi + 1, mids, coarse]))
            oi = fmt.ord_inf
            near = near[(near >= -oi - 1) & (near <= oi)]
            err, z, vals = lp.errors(near)
            res["lines"] += 1
            res["points"] += len(near)
            res["flips"] += len(lo)
            und = np.isnan(err)
            res["undecided"] += int(und.sum())
            bad = np.nonzero(~(err <= PROBE_ULP) & ~und)[0]
            okm = err <= PROBE_ULP
            for i in np.nonzero(okm & (err > PROBE_ULP / 2))[0].tolist():
                # points inside a named region do not count towards the reported worst case
                if classify(name, spec, var, fmt, int(near[i]), z[i]) is not None:
                    okm[i] = False
            if okm.any():
                w = float(err[okm].max())
                if w > res["worst"]:
                    i = int(np.nonzero(okm & (err == err[okm].max()))[0][0])
                    res["worst"] = w
                    res["worst_at"] = f"z = ({float(np.real(z[i]))!r}, {float(np.imag(z[i]))!r}) on {label}"
            by_region = {}
            for i in bad.tolist():
                rg = classify(name, spec, var, fmt, int(near[i]), z[i])
                by_region.setdefault(rg, []).append(i)
            for rg, idx in by_region.items():
                i = idx[0]
                got = ", ".join(repr(float(v_[i])) for v_ in vals)
                text = (f"{len(idx)} probe point(s) on {label}, e.g. z = ({float(np.real(z[i]))!r}, {float(np.imag(z[i]))!r}) "
                        f"[{var} = {float(fmt.from_ord(near[i])).hex()}]: computed ({got}), error {err[i]:.3g} ULP against the long-double reference")
                if rg is None:
                    res["failures"].append((label, text))
                else:
                    ent = res["regions"].setdefault(rg, [0, text, []])
                    ent[0] += len(idx)
                    ent[2].append(label)
    except (Unsupported, Unmodelled) as e:
        res["error"] = f"{name}[{ctype}] boundary probes: {e}"
    return res
