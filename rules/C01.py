"""C01 (partial) — complex algorithms on six lines through the complex plane, for every float on each line.

The expanded expression DAG of a complex algorithm (all complex sub-operations expanded by the package's own
definitions, as C01 requires) is restricted to a line

    real axis (y = +0, y = -0), imaginary axis (x = +0, x = -0), diagonals y = x and y = -x

by fixing one component to a signed zero or substituting y := +-x at the term level (so that |x| == |y|, x - y, x / y
are recognised as operations on one value), and the resulting one-variable program is interpreted over floating-point
intervals with an adaptive partition of the whole float line (sa/ival.py, sa/boxes.py), exactly as for C02:

  R1.1  on every box the real and the imaginary part contain no NaN (where the reference is defined) and lie within a
        relative bound d of the range of the true function over the box (numpy long-double complex reference evaluated
        at both ends and the middle); boxes are refined until the reference is narrow, so every single input of the
        line has relative error below about 2d per component; overflow to infinity is accepted exactly where the true
        value overflows; on a branch cut (a zero component) the value of either side is accepted.

Lines are where branch cuts, signed zeros, the |z| = 1 and safe_min/safe_max region boundaries and the overflow
handling of the algorithms are exercised; the relational guards that defeat a two-dimensional analysis (DESIGN.md §3/C01)
degenerate on them.  The compensated logarithms (log, log2, log10, log1p) are decided by R1.1 since the interval
evaluator encloses Veltkamp splits, Dekker product errors and 2Sum / Fast2Sum error terms by their contracts
(sa/eft_terms.py) instead of following their cancellations.  What is NOT decided: inputs off these lines between the probes
of R1.5; the 3-ULP bound (d is 2**-6, thorough 2**-9); what is listed in UNDECIDED (exp(i*y) is periodic).
"""

from __future__ import annotations

import os

import numpy as np

from sa.core import AnalysisError, Report
from sa.ival import Fmt, Domain, ErrDomain, evaluate, Unsupported, LIBM_SLACK, GuardedEvaluator, _Ctx
from sa.boxes import refine, Budget
from ir.frontend import load_package, expand
from ir.normal import Importer, sym, subst, T, Unmodelled

LD = np.longdouble
CLD = np.clongdouble
REL = "algorithms.py"

def _ref_log1p(z):
    from rules.C01_probe import ref_log1p
    return ref_log1p(z)


ORACLE = dict(absolute=np.abs, acos=np.arccos, acosh=np.arccosh, asin=np.arcsin, asinh=np.arcsinh, atan=np.arctan, atanh=np.arctanh, exp=np.exp,
              log=np.log, log2=np.log2, log10=np.log10, log1p=_ref_log1p, sqrt=np.sqrt, square=lambda z: z * z)
LINES = {
    "real axis y=+0": ("axis", "y", 0.0), "real axis y=-0": ("axis", "y", -0.0),
    "imaginary axis x=+0": ("axis", "x", 0.0), "imaginary axis x=-0": ("axis", "x", -0.0),
    "diagonal y=x": ("diag", 1), "diagonal y=-x": ("diag", -1),
}
AXES_DIAGS = set(LINES)
# rays y = +-2**k * x (the product is exact, or correctly rounded to a subnormal / infinity: every (x, fl(c*x)) is an input)
RAY_EXPONENTS = (-20, -8, -3, -1, 1, 3, 8, 20)
for _k in RAY_EXPONENTS:
    for _s in (1, -1):
        LINES[f"ray y={'-' if _s < 0 else ''}2**{_k}*x"] = ("ray", _s * 2.0 ** _k)
# lines parallel to an axis through the singular points +-1, +-i
for _v, _c in (("x", 1.0), ("x", -1.0), ("y", 1.0), ("y", -1.0)):
    LINES[f"line {_v}={_c:g}"] = ("axis", _v, _c)
RAYS = {k for k in LINES if k.startswith("ray ")}
SHIFTED = {k for k in LINES if k.startswith("line ")}
ALL = set(AXES_DIAGS)
EVERY = AXES_DIAGS | RAYS | SHIFTED
DECIDED = {
    "absolute": EVERY, "square": EVERY, "sqrt": EVERY, "atan": EVERY, "atanh": EVERY, "asin": EVERY, "acos": EVERY, "asinh": EVERY, "acosh": EVERY,
    "exp": {"real axis y=+0", "real axis y=-0"},
    # the compensated logarithms: decidable since the interval evaluator encloses the error-free transformations by contract (sa/eft_terms.py)
    "log": EVERY, "log2": EVERY, "log10": EVERY, "log1p": EVERY,
}
# (log1p in complex128 needs the correlated enclosure of its compensated sum: next to the circle |1 + z| = 1 the sum 2x + x*x + y*y
# cancels to ~(1+x)**2; sa/eft_terms.cascade_summary recognises the 2Sum cascade and encloses it by the range of the exact quadratic)
DECIDED_TYPES = {}
# R1.2 (forward error analysis) is not applicable to compensated arithmetic: its error terms are the computation
NO_ERR = {"log", "log1p", "log2", "log10"}
QUICK_RAYS = {k for k in RAYS if any(k.endswith(f"2**{e}*x") for e in (-8, -1, 1, 8))}
UNDECIDED = {
    "log, log2, log10, log1p (R1.2, R1.3)": "forward error analysis does not apply to the compensated (Dekker/2Sum) kernels; they are decided by R1.1 (value enclosure with the error-free transformations summarised by their contracts), R1.4 and R1.5",
    "exp (off the real axis)": "cos/sin of arguments beyond 2**24 change sign between adjacent floats: no box wider than a point is decidable",
}
DELTA = {"quick": 2.0 ** -6, "thorough": 2.0 ** -9}


def _simp(t, memo):
    if t in memo:
        return memo[t]
    if t[0] in ("sym", "const"):
        r = t
    else:
        args = [_simp(a, memo) for a in t[1:]]
        if t[0] == "absolute" and args[0][0] == "negative":
            r = T("absolute", args[0][1])
        elif t[0] == "negative" and args[0][0] == "negative":
            r = args[0][1]
        elif t[0] == "subtract" and args[1][0] == "negative":
            r = T("add", args[0], args[1][1])
        elif t[0] == "add" and args[1][0] == "negative":
            r = T("subtract", args[0], args[1][1])
        elif t[0] == "add" and args[0][0] == "negative":
            r = T("subtract", args[1], args[0][1])
        else:
            r = T(t[0], *args)
    memo[t] = r
    return r


def line_terms(fa, name, ctype, line):
    ex = expand(fa, name, (f"z:{ctype}",))
    imp = Importer(fa.expr.Expr, {"z": ("PAIR", sym("x"), sym("y"))})
    t = imp.imp(ex.body)
    tre, tim = (t[1], t[2]) if isinstance(t, tuple) and len(t) == 3 and t[0] == "PAIR" else (t, None)
    spec = LINES[line]
    if spec[0] == "ray":
        from ir.normal import const
        rep = T("multiply", const(("num", float(spec[1]).hex())), sym("x"))
        m1, m2 = {}, {}
        tre = _simp(subst(tre, {"y": rep}, m1), m2)
        tim = _simp(subst(tim, {"y": rep}, m1), m2) if tim is not None else None
        return tre, tim, "x"
    if spec[0] == "diag":
        rep = sym("x") if spec[1] == 1 else T("negative", sym("x"))
        m1, m2 = {}, {}
        tre = _simp(subst(tre, {"y": rep}, m1), m2)
        tim = _simp(subst(tim, {"y": rep}, m1), m2) if tim is not None else None
        return tre, tim, "x"
    return tre, tim, ("x" if spec[1] == "y" else "y")


def make_judge(name, line, tre, tim, var, fmt, dom, delta, exempt=None):
    spec = LINES[line]
    f = ORACLE[name]
    L = LD(fmt.largest)
    abs_slack = LD(float(fmt.tiny)) * (2 * LIBM_SLACK + 8)
    # error-free transformations inside the DAG (compensated log kernels) are enclosed by their contracts
    from sa.eft_terms import summaries as _eft_summaries

    summ = _eft_summaries([tre, tim]) or None
    # cascaded compensated sums (sum_2sum): on a line their items add up to an exact quadratic in the parameter
    if summ is not None:
        from sa.eft_terms import cascade_summary

        consts_ = {("x" if var == "y" else "y"): float(spec[2])} if spec[0] == "axis" else {}
        seen_, stack_ = set(), [t_ for t_ in (tre, tim) if t_ is not None]
        while stack_:
            t_ = stack_.pop()
            if t_ in seen_ or t_[0] in ("sym", "const"):
                continue
            seen_.add(t_)
            if t_[0] == "add" and t_ not in summ:
                cs = cascade_summary(t_, var, consts_)
                if cs is not None:
                    summ[t_] = ("cascade", var, consts_, cs[0], cs[1])
            stack_.extend(a_ for a_ in t_[1:] if isinstance(a_, tuple))

    def cplx(t, side, tsign=None):
        tf = t
        t = t.astype(LD)
        if tsign is not None:
            t = np.where(t == 0, LD(tsign), t)
            tf = np.where(tf == 0, fmt.ft(tsign), tf)
        if spec[0] == "axis":
            c = np.full(t.shape, LD(spec[2] if side is None else side))
            re, im = (t, c) if var == "x" else (c, t)
        elif spec[0] == "ray":
            with np.errstate(all="ignore"):
                re, im = t, (fmt.ft(spec[1]) * tf).astype(LD)
        else:
            re, im = t, (t if spec[1] == 1 else -t)
        z = np.empty(t.shape, dtype=CLD)
        z.real = re
        z.imag = im
        return z

    def judge(l, h):
        lo, hi = fmt.from_ord(l[:, 0]), fmt.from_ord(h[:, 0])
        mid = fmt.from_ord(l[:, 0] + (h[:, 0] - l[:, 0]) // 2)
        env = {var: dom.box(lo, hi)}
        if spec[0] == "axis":
            env["x" if var == "y" else "y"] = dom.const(spec[2])
        memo = {}
        R = evaluate(tre, env, dom, memo, summ)
        Im = evaluate(tim, env, dom, memo, summ) if tim is not None else None
        shp = lo.shape
        # reference values: both sides of a zero component (branch cuts), and both signs of the variable when it is zero
        if spec[0] == "axis" and spec[2] == 0:
            sides = [(0.0, None), (-0.0, None), (0.0, 0.0), (0.0, -0.0), (-0.0, 0.0), (-0.0, -0.0)]
        else:
            sides = [(None, None), (None, 0.0), (None, -0.0)]
        with np.errstate(all="ignore"):
            vals = [[f(cplx(p, sd, ts)) for p in (lo, mid, hi)] for sd, ts in sides]
        proved = np.ones(shp, bool)
        refuted = np.zeros(shp, bool)
        info = []
        ex_mask = exempt(l[:, 0], h[:, 0]) if exempt is not None else None
        for ci, V in enumerate((R, Im)):
            if V is None:
                continue
            rlo = np.broadcast_to(V.lo, shp).astype(LD)
            rhi = np.broadcast_to(V.hi, shp).astype(LD)
            rn, re_ = np.broadcast_to(V.nan, shp), np.broadcast_to(V.emp, shp)
            okc = np.zeros(shp, bool)
            dis = np.ones(shp, bool)
            first = None
            for vv3 in vals:
                vv = [(np.real(v) if ci == 0 else np.imag(v)) if np.iscomplexobj(v) else v for v in vv3]
                with np.errstate(all="ignore"):
                    tlo = np.minimum(np.minimum(vv[0], vv[1]), vv[2])
                    thi = np.maximum(np.maximum(vv[0], vv[1]), vv[2])
                    tnan = np.isnan(vv[0]) | np.isnan(vv[1]) | np.isnan(vv[2])
                    acc_lo = tlo - delta * np.abs(tlo) - abs_slack
                    acc_hi = thi + delta * np.abs(thi) + abs_slack
                    acc_lo = np.where(np.isnan(acc_lo), tlo, acc_lo)
                    acc_hi = np.where(np.isnan(acc_hi), thi, acc_hi)
                    acc_lo = np.where(acc_lo > L, L, acc_lo)
                    acc_hi = np.where(acc_hi >= L, LD(np.inf), acc_hi)
                    acc_hi = np.where(acc_hi < -L, -L, acc_hi)
                    acc_lo = np.where(acc_lo <= -L, -LD(np.inf), acc_lo)
                    tl_, th_ = np.clip(tlo, -L, L), np.clip(thi, -L, L)
                    narrow = (th_ - tl_ <= delta * np.minimum(np.abs(tl_), np.abs(th_)) + abs_slack) | (tlo == thi)
                inside = ~rn & ~re_ & (rlo >= acc_lo) & (rhi <= acc_hi)
                okc |= (inside & narrow) | tnan
                dis &= (re_ | (rhi < acc_lo) | (rlo > acc_hi)) & ~tnan
                if first is None:
                    first = (acc_lo, acc_hi)
            proved &= okc
            refuted |= dis
            info.append((ci, rlo, rhi, rn, re_, first))
        if ex_mask is not None:
            proved = proved | ex_mask
            refuted = refuted & ~ex_mask

        def describe(i):
            out = f"{var} in [{float(lo[i]).hex()}, {float(hi[i]).hex()}] = [{float(lo[i])!r}, {float(hi[i])!r}] on the {line}:"
            for ci, rlo, rhi, rn, re_, (alo, ahi) in info:
                got = "NaN only" if re_[i] else f"[{float(rlo[i])!r}, {float(rhi[i])!r}]" + (" or NaN" if rn[i] else "")
                out += f" {'re' if ci == 0 else 'im'} computed {got}, accepted [{float(alo[i])!r}, {float(ahi[i])!r}];"
            return out

        return proved, refuted, describe

    return judge


ERR_BOUND_U = 64.0   # forward error bound per component proved on boxes, in units of u = 2**-p
POINT_ULP = 16.0     # the property's hard bound, used at single points where the forward bound is not provable
P_ULP = 16.0
PLANE_BOUND_U = 256.0  # forward error bound proved over two-dimensional boxes (wider boxes, undecided region tests: looser)


def make_err_judge(name, line, tre, tim, var, fmt, region, counters):
    """R1.2: forward error analysis of both components on boxes; exact evaluation against the reference at single points."""
    spec = LINES[line]
    f = ORACLE[name]
    edom = ErrDomain(fmt)
    pdom = Domain(fmt, slack=0)
    L = LD(fmt.largest)

    def ref_at(t, side=None, tsign=None):
        tf = t
        tl = t.astype(LD)
        if tsign is not None:
            tl = np.where(tl == 0, LD(tsign), tl)
            tf = np.where(tf == 0, fmt.ft(tsign), tf)
        if spec[0] == "axis":
            c = np.full(tl.shape, LD(spec[2] if side is None else side))
            re, im = (tl, c) if var == "x" else (c, tl)
        elif spec[0] == "ray":
            with np.errstate(all="ignore"):
                re, im = tl, (fmt.ft(spec[1]) * tf).astype(LD)
        else:
            re, im = tl, (tl if spec[1] == 1 else -tl)
        z = np.empty(tl.shape, dtype=CLD)
        z.real = re
        z.imag = im
        with np.errstate(all="ignore"):
            return f(z)

    def judge(l, h):
        lo, hi = fmt.from_ord(l[:, 0]), fmt.from_ord(h[:, 0])
        shp = lo.shape
        point = l[:, 0] == h[:, 0]
        in_region = np.array([region((int(a),), (int(b),)) is not None for a, b in zip(l[:, 0], h[:, 0])]) if region is not None else np.zeros(shp, bool)

        def env_for(dom):
            env = {var: dom.box(lo, hi)}
            if spec[0] == "axis":
                env["x" if var == "y" else "y"] = dom.const(spec[2])
            return env

        memo = {}
        env = env_for(edom)
        ok = np.ones(shp, bool)
        tots = []
        for t in (tre, tim):
            if t is None:
                continue
            R = evaluate(t, env, edom, memo)
            rlo = np.broadcast_to(R.lo, shp).astype(LD)
            rhi = np.broadcast_to(R.hi, shp).astype(LD)
            rel = np.broadcast_to(0.0 if R.rel is None else R.rel, shp)
            abe = np.broadcast_to(LD(0.0) if R.abe is None else R.abe, shp)
            with np.errstate(all="ignore"):
                rmin = np.where((rlo <= 0) & (rhi >= 0), LD(0.0), np.minimum(np.abs(rlo), np.abs(rhi)))
                tot = rel + np.where(abe <= 4 * edom.eta, 0.0, (abe / rmin).astype(np.float64))
                tot = np.where(np.isnan(tot), 1e30, tot)
                fin = np.isfinite(rlo) & np.isfinite(rhi)
            tots.append(tot)
            # an enclosure that is infinite at one end only is a coarse abstraction (or a box straddling the overflow
            # threshold), not a proof: such boxes are refined; a box on which the result is the same infinity throughout is exempt
            allinf = np.isinf(rlo) & np.isinf(rhi) & (rlo == rhi)
            ok &= ((tot <= ERR_BOUND_U * edom.u) & fin) | allinf | np.broadcast_to(R.emp, shp)
        proved = ok | in_region
        refuted = np.zeros(shp, bool)
        errs = np.zeros(shp)
        cand = point & ~proved
        if cand.any():
            memo2 = {}
            env2 = env_for(pdom)
            # on a branch cut (a zero component, or the variable itself zero) the value of either side is accepted
            if spec[0] == "axis" and spec[2] == 0:
                variants = [(0.0, None), (-0.0, None), (0.0, 0.0), (0.0, -0.0), (-0.0, 0.0), (-0.0, -0.0)]
            else:
                variants = [(None, None), (None, 0.0), (None, -0.0)]
            comps = []
            for t in (tre, tim):
                if t is not None:
                    comps.append(np.broadcast_to(evaluate(t, env2, pdom, memo2).lo, shp).astype(LD))
            best = np.full(shp, np.inf)
            for sd, ts in variants:
                ref = ref_at(lo, sd, ts)
                worst = np.zeros(shp)
                for ci, pv in enumerate(comps):
                    tv = (np.real(ref) if ci == 0 else np.imag(ref)) if np.iscomplexobj(ref) else ref
                    with np.errstate(all="ignore"):
                        ulp = np.maximum(np.abs(tv), LD(fmt.smallest)) * LD(2.0 ** (1 - fmt.p))
                        e = np.abs(pv - tv) / ulp
                        e = np.where(np.isnan(tv), 0.0, np.where(np.isnan(e), np.inf, e))
                        e = np.where(np.isinf(pv) & np.isinf(tv) & (pv == tv), 0.0, e)
                        e = np.where((np.abs(tv) >= L) & np.isinf(pv), 0.0, e)
                        # an overflowed result stands for the next power of two: a true value a few ULP below the largest float may round there
                        ovf = np.isinf(pv) & (np.abs(tv) < L) & (np.sign(pv) == np.sign(tv))
                        e = np.where(ovf, (LD(2.0) ** int(np.finfo(fmt.ft).maxexp) - np.abs(tv)) / (L * LD(2.0 ** (1 - fmt.p))), e)
                        e = np.where((tv == 0) & (np.abs(pv) <= LD(fmt.tiny) * 16), 0.0, e)
                    worst = np.maximum(worst, e.astype(np.float64))
                best = np.minimum(best, worst)
            worst = best
            errs = worst
            okp = cand & (worst <= POINT_ULP)
            proved = proved | okp
            refuted = cand & ~okp
            counters["points_checked"] += int(cand.sum())

        def describe(i):
            base = f"{var} in [{float(lo[i]).hex()}, {float(hi[i]).hex()}] (= {float(lo[i])!r}) on the {line}"
            b = ", ".join(f"{float(t[i]) / edom.u:.0f}u" for t in tots)
            if point[i]:
                return f"{base}: error {errs[i]:.1f} ULP against the long-double reference; forward error bounds (re, im) {b}"
            return f"{base}: forward error bounds (re, im) {b}"

        return proved, refuted, describe

    return judge


def initial_boxes(fmt):
    oi = fmt.ord_inf
    one = int(fmt.to_ord(fmt.ft(1.0)))
    rng = [(-oi - 1, -oi - 1), (-oi, -one - 2), (-one - 1, -one - 1), (-one, -2), (-1, -1), (0, 0), (1, one - 1), (one, one), (one + 1, oi - 1), (oi, oi)]
    return np.array([[a[0]] for a in rng]), np.array([[a[1]] for a in rng])


def _analyse(root, ctype, name, line, tier):
    fa = load_package(root)
    ftype = {"complex64": "float32", "complex128": "float64"}[ctype]
    fmt = Fmt(ftype)
    dom = Domain(fmt)
    res = dict(refuted=[], ok=None, error=None, stats=dict(boxes=0, proved=0, points=0, levels=0), regions={}, err_refuted=[], err_ok=None, err_error=None)
    try:
        tre, tim, var = line_terms(fa, name, ctype, line)
        exempt = None
        if name in NO_ERR:
            # where the larger component squared is within 2**-8 of the largest float the Dekker parts of the compensated sum may
            # overflow on one side of a box only (inf - inf): the guard |s| < 0.5 is false on every point there but undecidable on
            # boxes; that band (2**-9 wide in the parameter) is judged by R1.5
            spec_ = LINES[line]
            k_ = max(1.0, abs(spec_[1])) if spec_[0] == "ray" else 1.0
            root = float(np.sqrt(np.float64(fmt.largest)))
            z_lo, z_hi = int(fmt.to_ord(fmt.ft(root * (1 - 2.0 ** -9) / k_))), int(fmt.to_ord(fmt.ft(min(root * (1 + 2.0 ** -9) / k_, float(fmt.largest)))))

            def exempt(l_, h_):
                pos = (l_ >= z_lo) & (h_ <= z_hi)
                neg = (l_ >= -z_hi - 1) & (h_ <= -z_lo - 1)
                return pos | neg

        judge = make_judge(name, line, tre, tim, var, fmt, dom, DELTA[tier], exempt)
        lo0, hi0 = initial_boxes(fmt)
        sub_lo, sub_hi = -int(fmt.to_ord(fmt.smallest)), int(fmt.to_ord(fmt.smallest)) - 1
        sq = fmt.ft(np.sqrt(np.float64(fmt.smallest)))
        pole_lo, pole_hi = -int(fmt.to_ord(sq)) - 1, int(fmt.to_ord(sq))
        near_pole = (name == "atanh" and line in ("line x=1", "line x=-1")) or (name == "atan" and line in ("line y=1", "line y=-1"))
        near_m1 = name == "log1p" and line == "line x=-1"

        def known_region(lo_, hi_):
            if near_pole and pole_lo <= lo_[0] and hi_[0] <= pole_hi:
                return "next to the pole, where the square of the offset underflows"
            if near_m1 and pole_lo <= lo_[0] and hi_[0] <= pole_hi:
                return "next to the branch point -1, where the square of the imaginary part underflows"
            if sub_lo <= lo_[0] and hi_[0] <= sub_hi:
                return "subnormal inputs"
            return None

        try:
            out = refine(lo0, hi0, judge, max_boxes=12_000_000, region=known_region)
        except Budget as e:
            out = e.outcome
            if not out.refuted:
                res["error"] = f"{name}[{ctype}] {line}: {e}; the abstraction is too coarse for this shape of the algorithm"
                return res
        res["refuted"] = [(str(lo_), info) for lo_, hi_, info in out.refuted[:4]]
        res["regions"] = {k: (v[0], v[1]) for k, v in out.region_refuted.items()}
        if not out.refuted and out.unknown:
            res["error"] = f"{name}[{ctype}] {line}: {len(out.unknown)} point(s) undecided within the library-function slack, e.g. {out.unknown[0][2]}"
            return res
        res["ok"] = f"{out.proved} boxes ({out.proved_points} single points) proved, {out.levels} refinement levels, bound 2**{int(np.log2(DELTA[tier]))}"
        res["stats"] = dict(boxes=out.evaluated, proved=out.proved, points=out.proved_points, levels=out.levels)
        if name in NO_ERR:
            return res
        # R1.2 forward error analysis (the named regions are reported by R1.1 and skipped here)
        counters = dict(points_checked=0)
        # the first-order error model is relative: it does not apply where a component of the input is subnormal (on a ray
        # y = c*x that is |x| < smallest_normal / min(1, |c|)); those inputs are judged by R1.1 and R1.5
        spec_ = LINES[line]
        cmin = min(1.0, abs(spec_[1])) if spec_[0] == "ray" else 1.0
        thr = float(fmt.smallest) / cmin
        thr_o = int(fmt.to_ord(fmt.ft(thr))) if thr < float(fmt.largest) else int(fmt.ord_inf)

        def err_region(lo_, hi_):
            rg = known_region(lo_, hi_)
            if rg is None and -thr_o - 1 <= lo_[0] and hi_[0] <= thr_o:
                return "a subnormal input component"
            return rg

        ej = make_err_judge(name, line, tre, tim, var, fmt, err_region, counters)
        try:
            eout = refine(lo0, hi0, ej, max_boxes=4_000_000, probe_limit=1_000_000, probe_dims=1)
        except Budget as e:
            eout = e.outcome
            if not eout.refuted:
                res["err_error"] = f"{name}[{ctype}] {line}: forward error bound of {ERR_BOUND_U:.0f}u not provable and no single point exceeds {POINT_ULP:.0f} ULP so far ({e})"
                return res
        res["err_refuted"] = [(str(lo_), info) for lo_, hi_, info in eout.refuted[:3]]
        res["err_ok"] = f"{eout.proved} boxes proved ({counters['points_checked']} single points by exact evaluation), {eout.levels} refinement levels"
    except (Unsupported, Unmodelled) as e:
        res["error"] = f"{name}[{ctype}] {line}: {e}"
    return res


# R1.3: two-dimensional forward error analysis.  zone: neighbourhood of the branch points / poles, decided on the lines only
PLANE = {
    "absolute": None, "sqrt": None, "square": "overflow",
    "atanh": "x~1", "atan": "y~1", "asin": "x~1", "acos": "x~1", "acosh": "x~1", "asinh": "y~1",
}
PLANE_QUICK = set(PLANE)  # all of them: with the overflow band left to R1.1/R1.5 the asin family takes a few seconds


def _analyse_plane(root, ctype, name, tier):
    fa = load_package(root)
    ftype = {"complex64": "float32", "complex128": "float64"}[ctype]
    fmt = Fmt(ftype)
    edom = ErrDomain(fmt)
    pdom = Domain(fmt, slack=0)
    res = dict(refuted=[], ok=None, error=None)
    zone = PLANE[name]
    f = ORACLE[name]
    L = LD(fmt.largest)
    counters = dict(points=0)
    try:
        ex = expand(fa, name, (f"z:{ctype}",))
        imp = Importer(fa.expr.Expr, {"z": ("PAIR", sym("x"), sym("y"))})
        t = imp.imp(ex.body)
        tre, tim = (t[1], t[2]) if isinstance(t, tuple) and len(t) == 3 and t[0] == "PAIR" else (t, None)
        comps = [c for c in (tre, tim) if c is not None]

        def judge(l, h):
            xl, xh = fmt.from_ord(l[:, 0]), fmt.from_ord(h[:, 0])
            yl, yh = fmt.from_ord(l[:, 1]), fmt.from_ord(h[:, 1])
            shp = xl.shape
            env = {"x": edom.box(xl, xh), "y": edom.box(yl, yh)}
            c0 = _Ctx(GuardedEvaluator(comps, env, edom), None, {})
            ok = np.ones(shp, bool)
            tots = []
            for c in comps:
                R = c0.value(c)
                rlo = np.broadcast_to(R.lo, shp).astype(LD)
                rhi = np.broadcast_to(R.hi, shp).astype(LD)
                rel = np.broadcast_to(0.0 if R.rel is None else R.rel, shp)
                abe = np.broadcast_to(LD(0.0) if R.abe is None else R.abe, shp)
                rn = np.broadcast_to(R.nan, shp)
                with np.errstate(all="ignore"):
                    rmin = np.where((rlo <= 0) & (rhi >= 0), LD(0.0), np.minimum(np.abs(rlo), np.abs(rhi)))
                    tot = rel + np.where(abe <= 4 * edom.eta, 0.0, (abe / rmin).astype(np.float64))
                    tot = np.where(np.isnan(tot), 1e30, tot)
                    fin = np.isfinite(rlo) & np.isfinite(rhi)
                tots.append(tot)
                allinf = np.isinf(rlo) & np.isinf(rhi) & (rlo == rhi)
                ok &= ((tot <= PLANE_BOUND_U * edom.u) & fin & ~rn) | (allinf & ~rn)
            with np.errstate(all="ignore"):
                ax0, ax1 = np.minimum(np.abs(xl), np.abs(xh)).astype(LD), np.maximum(np.abs(xl), np.abs(xh)).astype(LD)
                ay0, ay1 = np.minimum(np.abs(yl), np.abs(yh)).astype(LD), np.maximum(np.abs(yl), np.abs(yh)).astype(LD)
                if zone == "x~1":
                    excl = (ax0 >= 0.5) & (ax1 <= 2) & (ay1 <= 0.5)
                elif zone == "y~1":
                    excl = (ay0 >= 0.5) & (ay1 <= 2) & (ax1 <= 0.5)
                elif zone == "overflow":
                    excl = (ax0 + ay0) >= L / 2
                else:
                    excl = np.zeros(shp, bool)
                # where a component is within a factor 4 of the largest float the result or an intermediate may overflow along a
                # curve that boxes cannot isolate: that band is judged on the lines (R1.1) and by the probes (R1.5)
                excl = excl | (np.maximum(ax1, ay1) >= L / 4)
            point = (l == h).all(axis=1)
            proved = ok | excl
            refuted = np.zeros(shp, bool)
            errs = np.zeros(shp)
            cand = point & ~proved
            if cand.any():
                memo2 = {}
                env2 = {"x": pdom.box(xl, xh), "y": pdom.box(yl, yh)}
                z = np.empty(shp, dtype=CLD)
                z.real = xl.astype(LD)
                z.imag = yl.astype(LD)
                with np.errstate(all="ignore"):
                    ref = f(z)
                worst = np.zeros(shp)
                for ci, c in enumerate(comps):
                    pv = np.broadcast_to(evaluate(c, env2, pdom, memo2).lo, shp).astype(LD)
                    tv = (np.real(ref) if ci == 0 else np.imag(ref)) if np.iscomplexobj(ref) else ref
                    with np.errstate(all="ignore"):
                        ulp = np.maximum(np.abs(tv), LD(fmt.smallest)) * LD(2.0 ** (1 - fmt.p))
                        e = np.abs(pv - tv) / ulp
                        e = np.where(np.isnan(tv), 0.0, np.where(np.isnan(e), np.inf, e))
                        e = np.where(np.isinf(pv) & np.isinf(tv) & (pv == tv), 0.0, e)
                        e = np.where((np.abs(tv) >= L) & np.isinf(pv), 0.0, e)
                        # an overflowed result stands for the next power of two: a true value a few ULP below the largest float may round there
                        ovf = np.isinf(pv) & (np.abs(tv) < L) & (np.sign(pv) == np.sign(tv))
                        e = np.where(ovf, (LD(2.0) ** int(np.finfo(fmt.ft).maxexp) - np.abs(tv)) / (L * LD(2.0 ** (1 - fmt.p))), e)
                    worst = np.maximum(worst, e.astype(np.float64))
                errs = worst
                okp = cand & (worst <= POINT_ULP)
                proved = proved | okp
                refuted = cand & ~okp
                counters["points"] += int(cand.sum())

            def describe(i):
                b = ", ".join(f"{float(t_[i]) / edom.u:.0f}u" for t_ in tots)
                base = f"x in [{float(xl[i])!r}, {float(xh[i])!r}], y in [{float(yl[i])!r}, {float(yh[i])!r}]"
                return base + (f": error {errs[i]:.1f} ULP against the long-double reference; " if point[i] else ": ") + f"forward error bounds (re, im) {b}"

            return proved, refuted, describe

        oi = fmt.ord_inf
        sm = int(fmt.to_ord(fmt.smallest))
        half, two = int(fmt.to_ord(fmt.ft(0.5))), int(fmt.to_ord(fmt.ft(2.0)))
        rng = [(-oi + 1, -two - 1), (-two, -half), (-half + 1, -sm), (sm, half - 1), (half, two), (two + 1, oi - 1)]
        lo0 = np.array([[a[0], b[0]] for a in rng for b in rng])
        hi0 = np.array([[a[1], b[1]] for a in rng for b in rng])
        try:
            out = refine(lo0, hi0, judge, max_boxes=3_000_000, probe_dims=9)
        except Budget as e:
            out = e.outcome
            if not out.refuted:
                res["error"] = f"{name}[{ctype}] plane: forward error bound not provable within the box budget ({e})"
                return res
        res["refuted"] = [(str(lo_), info) for lo_, hi_, info in out.refuted[:3]]
        res["ok"] = f"{out.proved} boxes proved ({counters['points']} single points by exact evaluation), {out.levels} refinement levels" + (f"; outside the zone {zone}" if zone else "")
    except (Unsupported, Unmodelled) as e:
        res["error"] = f"{name}[{ctype}] plane: {e}"
    return res


# R1.5: boundary-value analysis of the region structure (rules/C01_probe.py)
PROBED = ("absolute", "square", "sqrt", "atan", "atanh", "asin", "acos", "asinh", "acosh", "log", "log1p", "log2", "log10", "exp")
PROBE_SLOPES = {
    "quick": (0, 1, 2, 4, 8, 16, 40),
    "thorough": tuple(range(0, 13)) + tuple(range(16, 65, 4)),
}
PROBE_SHIFTS = {"quick": (0,), "thorough": (-40, -20, -10, -3, -1, 0, 1, 3, 10, 20, 40)}
PROBE_CHUNK = 12


def probe_specs(tier):
    specs = [("real axis y=+0", ("axis", "y", 0.0)), ("real axis y=-0", ("axis", "y", -0.0)),
             ("imaginary axis x=+0", ("axis", "x", 0.0)), ("imaginary axis x=-0", ("axis", "x", -0.0))]
    for k in PROBE_SLOPES[tier]:
        for kk in sorted({k, -k}):
            for sg in (1, -1):
                specs.append((f"ray y={'-' if sg < 0 else ''}2**{kk}*x", ("ray", sg * 2.0 ** kk)))
    for j in PROBE_SHIFTS[tier]:
        for v in ("x", "y"):
            for sg in (1.0, -1.0):
                specs.append((f"line {v}={sg * 2.0 ** j:g}", ("axis", v, sg * 2.0 ** j)))
    return specs


def _probe_classify(name, spec, var, fmt, o, z):
    """named input regions whose failures are reported once per (function, type) by R1.1"""
    re, im = abs(float(np.real(z))), abs(float(np.imag(z)))
    sm = float(fmt.smallest)
    sq = float(fmt.ft(np.sqrt(np.float64(fmt.smallest))))
    if name == "atanh" and re == 1.0 and im <= sq:
        return "next to the pole, where the square of the offset underflows"
    if name == "atan" and im == 1.0 and re <= sq:
        return "next to the pole, where the square of the offset underflows"
    if name == "log1p" and float(np.real(z)) == -1.0 and im <= sq:
        return "next to the branch point -1, where the square of the imaginary part underflows"
    if (0 < re < sm) or (0 < im < sm):
        return "subnormal inputs"
    return None


def _analyse_probes(root, ctype, name, tier, chunk):
    from rules import C01_probe as P

    specs = probe_specs(tier)[chunk * PROBE_CHUNK:(chunk + 1) * PROBE_CHUNK]
    oracle = P.ref_log1p if name == "log1p" else ORACLE[name]
    return P.probe_lines(root, ctype, name, oracle, specs, _simp, _probe_classify, grid_cap=600 if tier == "quick" else 100000)


def _known_keys():
    from sa.core import load_known
    return {(k["rule"], k["key"]) for k in load_known() if k.get("property") == "C01" and k.get("status") == "known"}


def run(repo, tier):
    import multiprocessing as mp

    r = Report("C01", tier, repo, level="other", design_ref="DESIGN.md §3/C01")
    r.rule("R1.1", "on the real axis, the imaginary axis and both diagonals, for every float of the component type: no spurious NaN/inf, correct sign and branch-cut side, relative error per component below the coarse bound", floor=100)
    r.rule("R1.2", f"forward error analysis on the same lines: the rounding-error bound of each component is at most {ERR_BOUND_U:.0f}u on every box (u = 2**-p) or, at single points where it is not provable, the exactly evaluated result is within {POINT_ULP:.0f} ULP of the reference (inputs inside the regions reported by R1.1 excepted)", floor=100)
    r.rule("R1.5", f"boundary-value analysis of the region structure: along {len(probe_specs(tier))} lines (axes, rays y = +-2**k x, lines through +-2**j) the flips of every select guard are located by bisection on the IR evaluated at single points; at both floats next to every flip, in the middle of every piece and on a coarse grid the exactly evaluated result is within {P_ULP:.0f} ULP of the long-double reference (all 14 complex functions)", floor=20)
    r.rule("R1.3", f"forward error analysis over the whole plane: for all normal finite (x, y) - outside the stated neighbourhood of the branch points / the overflow band - the rounding-error bound of each component is at most {PLANE_BOUND_U:.0f}u, or the exactly evaluated point is within {POINT_ULP:.0f} ULP of the reference", floor=8)
    if np.finfo(LD).maxexp <= 1024:
        raise AnalysisError("numpy.longdouble is not an extended format on this machine; the reference ranges for complex128 would overflow")
    load_package(repo.root)
    for name in DECIDED:
        if not repo.has(REL, name):
            raise AnalysisError(f"anchor vanished: algorithms.{name}")
    tasks = [(repo.root, ctype, name, line, tier) for ctype in ("complex64", "complex128") for name in DECIDED for line in sorted(DECIDED[name])
             if (tier == "thorough" or line not in RAYS or line in QUICK_RAYS) and ctype in DECIDED_TYPES.get(name, ("complex64", "complex128"))]
    jobs = int(os.environ.get("VERIF_JOBS", "0") or 0) or min(len(tasks), os.cpu_count() or 1)
    ptasks = [(repo.root, ctype, name, tier) for ctype in ("complex64", "complex128") for name in PLANE if tier == "thorough" or name in PLANE_QUICK]
    for name in PROBED:
        if not repo.has(REL, name):
            raise AnalysisError(f"anchor vanished: algorithms.{name}")
    n_chunks = -(-len(probe_specs(tier)) // PROBE_CHUNK)
    btasks = [(repo.root, ctype, name, tier, ch) for ctype in ("complex128", "complex64") for name in PROBED for ch in range(n_chunks)]
    if jobs > 1:
        with mp.get_context("fork").Pool(jobs) as pool:
            presults_async = pool.starmap_async(_analyse_plane, ptasks, chunksize=1)
            bresults_async = pool.starmap_async(_analyse_probes, btasks, chunksize=1)
            results = pool.starmap(_analyse, tasks, chunksize=1)
            presults = presults_async.get()
            bresults = bresults_async.get()
    else:
        bresults = [_analyse_probes(*t) for t in btasks]
        results = [_analyse(*t) for t in tasks]
        presults = [_analyse_plane(*t) for t in ptasks]
    total = dict(boxes=0, proved=0, points=0)
    regional = {}
    pending_errors = []
    for (root, ctype, name, line, _), res in zip(tasks, results):
        where = f"functional_algorithms/{REL}::{name}"
        if res["error"] and not res["refuted"]:
            pending_errors.append(res["error"])
            continue
        key = f"{name}[{ctype}] {line}"
        for rg, (cnt, example) in res["regions"].items():
            ent = regional.setdefault((name, ctype, rg), dict(lines=[], count=0, example=example, where=where))
            ent["lines"].append(line)
            ent["count"] += cnt
        if res["refuted"]:
            for lo_, info in res["refuted"]:
                r.ob("R1.1", key + f" box {lo_}", False, info, where)
        else:
            r.ob("R1.1", key, True, res["ok"], where)
        for k in ("boxes", "proved", "points"):
            total[k] += res["stats"][k]
        if res.get("err_error") and not res.get("err_refuted"):
            pending_errors.append(res["err_error"])
            continue
        if res.get("err_refuted"):
            for lo_, info in res["err_refuted"]:
                r.ob("R1.2", key + f" forward error at {lo_}", False, info, where)
        elif res.get("err_ok"):
            r.ob("R1.2", key + " forward error", True, res["err_ok"], where)
    for (root, ctype, name, _), res in zip(ptasks, presults):
        where = f"functional_algorithms/{REL}::{name}"
        key = f"{name}[{ctype}] all normal finite inputs"
        if res["error"] and not res["refuted"]:
            pending_errors.append(res["error"])
            continue
        if res["refuted"]:
            for lo_, info in res["refuted"]:
                r.ob("R1.3", key + f" at {lo_}", False, info, where)
        else:
            r.ob("R1.3", key, True, res["ok"], where)
    # R1.5 boundary probes
    agg = {}
    for (root, ctype, name, _, ch), res in zip(btasks, bresults):
        a = agg.setdefault((name, ctype), dict(lines=0, points=0, flips=0, worst=0.0, undecided=0, failures=[], error=None))
        if res["error"]:
            a["error"] = res["error"]
            continue
        for k in ("lines", "points", "flips", "undecided"):
            a[k] += res[k]
        if res["worst"] > a["worst"]:
            a["worst"], a["worst_at"] = res["worst"], res["worst_at"]
        a["failures"] += res["failures"]
        for rg, (cnt, example, labels) in res["regions"].items():
            ent = regional.setdefault((name, ctype, rg), dict(lines=[], count=0, example=example, where=f"functional_algorithms/{REL}::{name}"))
            ent["lines"] += labels
            ent["count"] += cnt
    for (name, ctype), a in sorted(agg.items()):
        where = f"functional_algorithms/{REL}::{name}"
        if a["error"] and not a["failures"]:
            pending_errors.append(a["error"])
            continue
        for label, text in a["failures"][:6]:
            r.ob("R1.5", f"{name}[{ctype}] {label}", False, text, where)
        if not a["failures"]:
            decided = a["points"] - a["undecided"]
            r.ob("R1.5", f"{name}[{ctype}] region boundaries", decided > 0 and (a["flips"] > 0 or name in ("absolute", "square")),
                 f"{a['lines']} lines, {a['flips']} guard flips located, {decided} probe points within {P_ULP:.0f} ULP (worst {a['worst']:.2f} at {a.get('worst_at', '')})"
                 + (f", {a['undecided']} points undecided (a library function is only enclosed there)" if a["undecided"] else ""), where)
    # failures inside a named input region are one finding per (function, type, region), whatever lines show them
    for (name, ctype, rg), ent in sorted(regional.items()):
        r.ob("R1.1", f"{name}[{ctype}] {rg}", False,
             f"{ent['count']} box(es)/point(s) on {len(ent['lines'])} line(s) ({', '.join(sorted(ent['lines'])[:6])}{' ...' if len(ent['lines']) > 6 else ''}) are wrong beyond the coarse bound, e.g. {ent['example']}", ent["where"])
    # an inconclusive task matters only when nothing was refuted: a refutation is reported as such
    if pending_errors and not any(not o["ok"] and (o["rule"], o["key"]) not in _known_keys() for o in r.obligations):
        raise AnalysisError(pending_errors[0])
    r.info("R1.1", f"boxes evaluated {total['boxes']}, proved {total['proved']} (single points {total['points']}); {len(tasks)} (type, function, line) tasks, {jobs} worker process(es)")
    for k, why in UNDECIDED.items():
        r.info("R1.1", f"not decided: {k} - {why}")
    # R1.4: complex log / log1p are not decided above; their accuracy rests on the compensated kernels of algorithms.py
    # (2Sum, Fast2Sum, cascaded sums, Veltkamp split, Dekker square) being the proven error-free forms - shared with C10
    from rules import C10
    sub = C10.run(repo, tier)
    r.absorb(sub, {"R10.1": "R1.4", "R10.2": "R1.4"}, "the compensated-arithmetic kernels inside algorithms.py (used by complex log, log1p and the asin/acos kernel) are dataflow-equal to the proven error-free forms, with the proven splitter constants (shared clause with C10)",
             floor=6, select=lambda o: "algorithms.py" in o["key"])
    return r
