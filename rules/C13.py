"""C13 (thin) — IEEE-754 format tables used by the converters agree with binary16/32/64.  Rule R13.1."""

from __future__ import annotations

import ast
import re

from sa.core import AnalysisError, Report, loc, norm_src, enclosing_function
from sa.consteval import ev, Opaque, NameRef
from sa.paths import dotted
from sa.numconst import BITS, PREC, EXPBITS, MANTBITS, EMAX, EMIN

REL = "utils.py"
FLOATKEY = {"numpy.float16": 16, "numpy.float32": 32, "numpy.float64": 64}
NAMEKEY = {"float16": 16, "float32": 32, "float64": 64}


def _width(node):
    """numpy.uint32 -> ('uint', 32); numpy.complex64 -> ('complex', 64)."""
    d = dotted(node) or ""
    m = re.fullmatch(r"numpy\.(uint|int|complex|float)(\d+)", d)
    return (m.group(1), int(m.group(2))) if m else None


def check_format_dicts(r, repo, rule="R13.1", rel=REL):
    n = 0
    tree = repo.tree(rel)
    for d in [x for x in ast.walk(tree) if isinstance(x, ast.Dict)]:
        keys = [dotted(k) for k in d.keys if k is not None]
        if not any(k in FLOATKEY for k in keys):
            continue
        fn = enclosing_function(d) or "<module>"
        for k, v in zip(d.keys, d.values):
            kd = dotted(k)
            if kd not in FLOATKEY:
                continue
            bits = FLOATKEY[kd]
            key = f"{rel}::{fn} table[{kd}] = {norm_src(v)}"
            where = loc(rel, v)
            w = _width(v)
            if w is not None:
                n += 1
                kind, wb = w
                if kind in ("uint", "int"):
                    r.ob(rule, key, wb == bits, f"float{bits} is paired with a {wb}-bit integer type", where)
                elif kind == "complex":
                    r.ob(rule, key, wb == 2 * bits, f"float{bits} is paired with complex{wb}", where)
                continue
            if isinstance(v, ast.Tuple):
                ints = [ev(e) for e in v.elts]
                uints = [_width(e) for e in v.elts]
                nums = [x for x in ints if isinstance(x, int)]
                ut = [u for u in uints if u]
                if len(v.elts) == 3 and len(nums) == 2:
                    n += 1
                    e_, m_ = nums
                    ok = e_ == EXPBITS[bits] and m_ == MANTBITS[bits] and (not ut or ut[0][1] == bits)
                    r.ob(rule, key, ok, f"(exponent width, significand width, uint) = {nums}+{ut}; binary{bits} has {EXPBITS[bits]} and {MANTBITS[bits]} bits", where)
                elif len(v.elts) == 5 and len(nums) == 4:
                    n += 1
                    tot, e_, ip, m_ = nums
                    ok = tot == bits and e_ == EXPBITS[bits] and ip == 0 and m_ == MANTBITS[bits] and (not ut or ut[0][1] == bits)
                    r.ob(rule, key, ok, f"(total, exponent, integer part, significand) = {nums}; binary{bits} is ({bits}, {EXPBITS[bits]}, 0, {MANTBITS[bits]})", where)
                else:
                    r.info(rule, f"{key}: tuple shape not modelled")
                continue
            val = ev(v)
            if isinstance(val, int):
                if val == 2 ** bits or (val > 2 ** 15 and val & (val - 1) == 0):
                    n += 1
                    r.ob(rule, key, val == 2 ** bits, f"out-of-range marker for float{bits} is {val}, expected 2**{bits}", where)
                else:
                    r.info(rule, f"{key}: integer parameter of unknown meaning, not checked")
                continue
            r.info(rule, f"{key}: entry shape not modelled")
    return n


def check_mpmath_tables(r, repo, rule="R13.1"):
    cls = repo.find(REL, "vectorize_with_mpmath")
    want = {
        "float_prec": lambda b: PREC[b],
        "float_maxexp": lambda b: EMAX[b] + 1,
        "float_minexp": lambda b: EMIN[b] + 1,
        "float_subexp": lambda b: EMIN[b] - PREC[b] + 2,
    }
    n = 0
    for name, fn in want.items():
        node = repo.module_assign(REL, name, container=cls)
        tbl = ev(node)
        if not isinstance(tbl, dict):
            raise AnalysisError(f"vectorize_with_mpmath.{name} is not a constant table")
        for k, bits in NAMEKEY.items():
            if k not in tbl:
                raise AnalysisError(f"vectorize_with_mpmath.{name} lacks {k}")
            n += 1
            r.ob(rule, f"{REL}::vectorize_with_mpmath.{name}[{k}]", tbl[k] == fn(bits),
                 f"{name}[{k}] = {tbl[k]}, IEEE binary{bits} requires {fn(bits)}", loc(REL, node),
                 sample=dict(rule=rule, table=name, key=k, value=tbl[k]))
    node = repo.module_assign(REL, "map_float_to_complex", container=cls)
    tbl = ev(node)
    for k, bits in NAMEKEY.items():
        n += 1
        r.ob(rule, f"{REL}::vectorize_with_mpmath.map_float_to_complex[{k}]", tbl.get(k) == f"complex{2 * bits}", f"{k} maps to {tbl.get(k)}", loc(REL, node))
    return n


def check_float2fraction_algebra(r, repo, rule="R13.3"):
    """Symbolic (power-of-two algebra) evaluation of the numpy.floating branch of float2fraction, per format, per value class."""
    from sa.pow2alg import Val, Exp, evaluate as pev, NotAlgebraic

    f = repo.func(REL, "float2fraction")
    branch = None
    for n in f.body:
        if isinstance(n, ast.If):
            m = n
            while m is not None:
                if isinstance(m.test, ast.Call) and dotted(m.test.func) == "isinstance" and norm_src(m.test.args[1]) == "numpy.floating":
                    branch = m
                m = m.orelse[0] if len(m.orelse) == 1 and isinstance(m.orelse[0], ast.If) else None
    if branch is None:
        raise AnalysisError("float2fraction: numpy.floating branch not found")
    for bits in BITS:
        p, emax, emin = PREC[bits], EMAX[bits], EMIN[bits]
        finfo = {"fi.nexp": Val.const(bits - p), "fi.negep": Val.const(-p), "fi.minexp": Val.const(emin), "fi.maxexp": Val.const(emax + 1), "fi.machep": Val.const(1 - p)}
        for s_val in (0, 1):
            env = dict(finfo)
            env["one"] = Val.const(1)
            env["s"] = Val.const(s_val)
            env["fpart"] = Val.sym("fpart")
            env["epart"] = Val.sym("epart")
            results = {}

            def walk(stmts, conds):
                for st in stmts:
                    if isinstance(st, ast.Assign) and len(st.targets) == 1 and isinstance(st.targets[0], ast.Name):
                        nm = st.targets[0].id
                        if nm in ("fpart", "epart", "s", "i", "u", "dtype", "fi", "itype"):
                            continue
                        try:
                            env[nm] = pev(st.value, env)
                        except NotAlgebraic:
                            env.pop(nm, None)
                    elif isinstance(st, ast.If):
                        node = st
                        while True:
                            saved = dict(env)
                            walk(node.body, conds + [norm_src(node.test)])
                            if "num" in env and "denom" in env:
                                results[" & ".join(conds + [norm_src(node.test)])] = (env["num"], env["denom"])
                            env.clear()
                            env.update(saved)
                            if len(node.orelse) == 1 and isinstance(node.orelse[0], ast.If):
                                conds = conds + ["not " + norm_src(node.test)]
                                node = node.orelse[0]
                                continue
                            saved = dict(env)
                            walk(node.orelse, conds + ["not " + norm_src(node.test)])
                            if "num" in env and "denom" in env:
                                results[" & ".join(conds + ["not " + norm_src(node.test)])] = (env["num"], env["denom"])
                            env.clear()
                            env.update(saved)
                            break

            walk(branch.body, [])
            fsz = p - 1
            bias = emax
            sigma = 1 - 2 * s_val
            want_normal = (Val.const(sigma) * (Val.pow2(Exp({}, fsz)) + Val.sym("fpart"))) * Val.pow2(Exp({"epart": 1}, -bias - fsz))
            want_sub = Val.const(sigma) * Val.sym("fpart") * Val.pow2(Exp({}, emin - fsz))
            seen = 0
            for cond, (num, den) in results.items():
                try:
                    val = num.divide(den)
                except NotAlgebraic as e:
                    raise AnalysisError(f"float2fraction[{cond}]: {e}")
                c = cond.replace(" ", "")
                if "epart==0andfpart==0" in c and not c.startswith("not"):
                    want, cls = Val(), "zero"
                elif c.endswith("epart==0"):
                    want, cls = want_sub, "subnormal"
                    val = val.subst_exp("epart", 0)
                elif "epart==emaskandfpart==0" in c and not c.endswith("e<0"):
                    if c.endswith("epart==emaskandfpart==0"):
                        continue  # infinity: not a finite value
                    want, cls = want_normal, "normal"
                else:
                    want, cls = want_normal, "normal" + (" (e < 0)" if c.endswith("e<0") and not c.endswith("note<0") else " (e >= 0)")
                seen += 1
                ok = val == want
                r.ob(rule, f"{REL}::float2fraction float{bits} sign={s_val} {cls}", ok,
                     f"for {cls} numbers the branch [{cond[-60:]}] returns {val!r}; the IEEE binary{bits} value is {want!r}", loc(REL, branch),
                     sample=dict(rule=rule, format=f"float{bits}", cls=cls, value=repr(val)) if s_val == 0 else None)
            if seen < 3:
                raise AnalysisError(f"float2fraction float{bits}: only {seen} value-class branches recognised")
    # the field extraction itself: fpart = low fsz bits, epart = next esz bits
    env2 = {}
    for st in ast.walk(branch):
        if isinstance(st, ast.Assign) and isinstance(st.targets[0], ast.Name):
            env2[st.targets[0].id] = norm_src(st.value)
    ok = (env2.get("fmask") == "itype((one << fsz) - one)" and env2.get("emask") == "itype((one << esz) - one)" and env2.get("fpart") == "int(u & fmask)"
          and env2.get("epart") == "int(u >> fsz & emask)" and env2.get("u") == "i & umask" and env2.get("umask") == "itype((one << esz + fsz) - one)")
    r.ob(rule, f"{REL}::float2fraction field extraction", ok, f"fmask={env2.get('fmask')} emask={env2.get('emask')} fpart={env2.get('fpart')} epart={env2.get('epart')} u={env2.get('u')}", loc(REL, branch))
    r.ob(rule, f"{REL}::float2fraction exponent", env2.get("e") == "epart + fi.minexp - 1", f"e = {env2.get('e')}", loc(REL, branch))


def run(repo, tier):
    r = Report("C13", tier, repo, level="other", design_ref="§3/C13")
    r.explanation = (
        "Thin structural clause of C13: every literal table in utils.py that is keyed by numpy.float16/32/64 (converters, ULP "
        "distance, sample generators) and the mpmath backend's format tables are constant-evaluated and compared with the "
        "IEEE-754 binary16/32/64 parameters and with each other. Round-trip equalities on runtime values are NOT decided."
    )
    r.trusted_base = ["Python ast", "IEEE-754 binary16/32/64 parameters"]
    r.rule("R13.2", "float2expansion subtracts each word in the accumulator's own type (a Python float minus a numpy scalar is computed in the scalar's narrower type)", floor=1)
    r.rule("R13.4", "float2mpf: the power of two applied to the mantissa is subtracted from the exponent (man * 2**exp == mantissa * 2**exponent)", floor=1)
    r.rule("R13.3", "float2fraction decodes the IEEE fields exactly: for every finite bit pattern num/denom equals (-1)^s * significand * 2^exponent", floor=12)
    r.rule("R13.1", "format tables agree with IEEE-754 binary16/32/64 (widths, exponent/significand bits, precision, exponent ranges)", floor=30)
    n = check_format_dicts(r, repo)
    n += check_mpmath_tables(r, repo)
    # R13.2: float2expansion residual
    fe = repo.func(REL, "float2expansion")
    word = None  # name bound to dtype(q)
    upd = []
    for n in ast.walk(fe):
        if isinstance(n, ast.Assign) and isinstance(n.targets[0], ast.Name) and isinstance(n.value, ast.Call) and dotted(n.value.func) == "dtype" and n.value.args and dotted(n.value.args[0]) == "q":
            word = n.targets[0].id
        if isinstance(n, ast.Assign) and dotted(n.targets[0]) == "q" and isinstance(n.value, ast.BinOp) and isinstance(n.value.op, ast.Sub):
            upd.append(n)
    if word is None or len(upd) != 1:
        raise AnalysisError("float2expansion: `f = dtype(q)` / `q = q - ...` not found")
    rhs = upd[0].value.right
    bare = isinstance(rhs, ast.Name) and rhs.id == word
    cast_ok = isinstance(rhs, ast.Call) and norm_src(rhs.func) in ("type(q)", "float", "numpy.float64", "fractions.Fraction", "float2fraction") and rhs.args and dotted(rhs.args[0]) == word
    r.ob("R13.2", f"{REL}::float2expansion residual update", cast_ok and not bare,
         f"`{norm_src(upd[0])}`: q may be a Python float (number2expansion accepts `float`); under NumPy's weak-scalar promotion `python_float - numpy.{'{dtype}'}` is "
         "computed in the narrower dtype, the residual rounds to 0 and the expansion loses its tail (value no longer equals the input)", loc(REL, upd[0]))
    check_float2fraction_algebra(r, repo)
    # R13.4 float2mpf exponent bookkeeping
    from sa.pow2alg import Val, Exp, evaluate as pev, as_exp, NotAlgebraic
    fm = repo.func(REL, "float2mpf")
    env3 = {"mantissa": Val.sym("mantissa"), "exponent": Val.sym("exponent"), "prec": Val.sym("prec")}
    got = {}
    for st in ast.walk(fm):
        if isinstance(st, ast.Assign) and isinstance(st.targets[0], ast.Name) and st.targets[0].id in ("man_", "exp_", "man", "exp"):
            v = st.value
            try:
                if isinstance(v, ast.Call) and (dotted(v.func) or "").endswith("ldexp") and len(v.args) == 2:
                    got[st.targets[0].id] = pev(v.args[0], env3) * Val.pow2(as_exp(pev(v.args[1], env3)))
                else:
                    got[st.targets[0].id] = pev(v, {**env3, **got})
            except NotAlgebraic:
                pass
    if "man_" not in got or "exp_" not in got:
        raise AnalysisError("float2mpf: man_/exp_ not recognised")
    try:
        total = got["man_"] * Val.pow2(as_exp(got["exp_"]))
        ok = total == Val.sym("mantissa") * Val.pow2(Exp({"exponent": 1}))
        detail = f"man_ * 2**exp_ = {total!r}, expected mantissa * 2**exponent"
    except NotAlgebraic as e:
        ok, detail = False, str(e)
    r.ob("R13.4", f"{REL}::float2mpf man * 2**exp", ok, detail, loc(REL, fm))
    # the mpf is normalised to the float's own precision (or not rounded at all), never to the context's
    own_prec = set()
    for st in ast.walk(fm):
        if isinstance(st, ast.Assign) and isinstance(st.value, ast.Call) and (dotted(st.value.func) or "").endswith("get_precision") \
                and len(st.value.args) == 1 and dotted(st.value.args[0]) == "x":
            own_prec |= {t.id for t in st.targets if isinstance(t, ast.Name)}
    fme = [c for c in ast.walk(fm) if isinstance(c, ast.Call) and (dotted(c.func) or "").endswith("from_man_exp")]
    if not fme:
        raise AnalysisError("float2mpf: from_man_exp call not found")
    for c in fme:
        starred = any(isinstance(a, ast.Starred) for a in c.args) or any(kw.arg is None for kw in c.keywords)
        prec_arg = c.args[2] if len(c.args) > 2 else next((kw.value for kw in c.keywords if kw.arg == "prec"), None)
        if starred:
            ok, detail = False, f"`{norm_src(c)}` takes its precision/rounding from an unpacked sequence; a context precision below the float's precision rounds the significand"
        elif prec_arg is None:
            ok, detail = True, "from_man_exp without a precision does not round"
        else:
            ok = isinstance(prec_arg, ast.Name) and prec_arg.id in own_prec
            detail = f"normalisation precision is `{norm_src(prec_arg)}`; names bound to get_precision(x): {sorted(own_prec)}"
        r.ob("R13.4", f"{REL}::float2mpf normalisation precision", ok, detail, loc(REL, c))
    # float2fraction: field sizes derived from finfo
    f = repo.func(REL, "float2fraction")
    env = {}
    for st in ast.walk(f):
        if isinstance(st, ast.Assign) and isinstance(st.targets[0], ast.Name):
            env[st.targets[0].id] = norm_src(st.value)
    ok = env.get("ssz") == "1" and env.get("esz") == "itype(fi.nexp)" and env.get("fsz") == "itype(-ssz - fi.negep)"
    r.ob("R13.1", f"{REL}::float2fraction field sizes", ok, f"sign/exponent/fraction sizes are {env.get('ssz')}, {env.get('esz')}, {env.get('fsz')}; expected 1, nexp, -negep-1", loc(REL, f))
    return r
