"""C13 (thin) — IEEE-754 format tables used by the converters agree with binary16/32/64.  Rule R13.1."""

from __future__ import annotations

import ast
import re

from sa.core import AnalysisError, Report, loc, norm_src, enclosing_function
from sa.consteval import ev, Opaque, NameRef
from sa.paths import dotted
from sa.numconst import BITS, PREC, EXPBITS, MANTBITS, EMAX, EMIN

REL = "utils.py"
FLOATKEY = {"numpy.float16": 16, "numpy.float32": 32, "numpy.float64": 64}
NAMEKEY = {"float16": 16, "float32": 32, "float64": 64}


def _width(node):
    """numpy.uint32 -> ('uint', 32); numpy.complex64 -> ('complex', 64)."""
    d = dotted(node) or ""
    m = re.fullmatch(r"numpy\.(uint|int|complex|float)(\d+)", d)
    return (m.group(1), int(m.group(2))) if m else None


def check_format_dicts(r, repo, rule="R13.1", rel=REL):
    n = 0
    tree = repo.tree(rel)
    for d in [x for x in ast.walk(tree) if isinstance(x, ast.Dict)]:
        keys = [dotted(k) for k in d.keys if k is not None]
        if not any(k in FLOATKEY for k in keys):
            continue
        fn = enclosing_function(d) or "<module>"
        for k, v in zip(d.keys, d.values):
            kd = dotted(k)
            if kd not in FLOATKEY:
                continue
            bits = FLOATKEY[kd]
            key = f"{rel}::{fn} table[{kd}] = {norm_src(v)}"
            where = loc(rel, v)
            w = _width(v)
            if w is not None:
                n += 1
                kind, wb = w
                if kind in ("uint", "int"):
                    r.ob(rule, key, wb == bits, f"float{bits} is paired with a {wb}-bit integer type", where)
                elif kind == "complex":
                    r.ob(rule, key, wb == 2 * bits, f"float{bits} is paired with complex{wb}", where)
                continue
            if isinstance(v, ast.Tuple):
                ints = [ev(e) for e in v.elts]
                uints = [_width(e) for e in v.elts]
                nums = [x for x in ints if isinstance(x, int)]
                ut = [u for u in uints if u]
                if len(v.elts) == 3 and len(nums) == 2:
                    n += 1
                    e_, m_ = nums
                    ok = e_ == EXPBITS[bits] and m_ == MANTBITS[bits] and (not ut or ut[0][1] == bits)
                    r.ob(rule, key, ok, f"(exponent width, significand width, uint) = {nums}+{ut}; binary{bits} has {EXPBITS[bits]} and {MANTBITS[bits]} bits", where)
                elif len(v.elts) == 5 and len(nums) == 4:
                    n += 1
                    tot, e_, ip, m_ = nums
                    ok = tot == bits and e_ == EXPBITS[bits] and ip == 0 and m_ == MANTBITS[bits] and (not ut or ut[0][1] == bits)
                    r.ob(rule, key, ok, f"(total, exponent, integer part, significand) = {nums}; binary{bits} is ({bits}, {EXPBITS[bits]}, 0, {MANTBITS[bits]})", where)
                else:
                    r.info(rule, f"{key}: tuple shape not modelled")
                continue
            val = ev(v)
            if isinstance(val, int):
                if val == 2 ** bits or (val > 2 ** 15 and val & (val - 1) == 0):
                    n += 1
                    r.ob(rule, key, val == 2 ** bits, f"out-of-range marker for float{bits} is {val}, expected 2**{bits}", where)
                else:
                    r.info(rule, f"{key}: integer parameter of unknown meaning, not checked")
                continue
            r.info(rule, f"{key}: entry shape not modelled")
    return n


def check_mpmath_tables(r, repo, rule="R13.1"):
    cls = repo.find(REL, "vectorize_with_mpmath")
    want = {
        "float_prec": lambda b: PREC[b],
        "float_maxexp": lambda b: EMAX[b] + 1,
        "float_minexp": lambda b: EMIN[b] + 1,
        "float_subexp": lambda b: EMIN[b] - PREC[b] + 2,
    }
    n = 0
    for name, fn in want.items():
        node = repo.module_assign(REL, name, container=cls)
        tbl = ev(node)
        if not isinstance(tbl, dict):
            raise AnalysisError(f"vectorize_with_mpmath.{name} is not a constant table")
        for k, bits in NAMEKEY.items():
            if k not in tbl:
                raise AnalysisError(f"vectorize_with_mpmath.{name} lacks {k}")
            n += 1
            r.ob(rule, f"{REL}::vectorize_with_mpmath.{name}[{k}]", tbl[k] == fn(bits),
                 f"{name}[{k}] = {tbl[k]}, IEEE binary{bits} requires {fn(bits)}", loc(REL, node),
                 sample=dict(rule=rule, table=name, key=k, value=tbl[k]))
    node = repo.module_assign(REL, "map_float_to_complex", container=cls)
    tbl = ev(node)
    for k, bits in NAMEKEY.items():
        n += 1
        r.ob(rule, f"{REL}::vectorize_with_mpmath.map_float_to_complex[{k}]", tbl.get(k) == f"complex{2 * bits}", f"{k} maps to {tbl.get(k)}", loc(REL, node))
    return n


def check_float2fraction_algebra(r, repo, rule="R13.3"):
    """The numpy.floating branch of float2fraction is interpreted (sa/absint.py) on an abstract float whose bit pattern is the
    field list [fraction | exponent | sign] with symbolic field values; masks and shifts act on the field list, the class
    tests (`epart == 0`, `e < 0`, ...) fork in the linear domain (sa/linint.py), shifts by symbolic amounts become powers
    of two with affine exponents (sa/pow2alg.py).  On every feasible path that denotes a finite value the returned
    num/denom must equal (-1)^s * (2^fsz + F) * 2^(E - bias - fsz) (normal), (-1)^s * F * 2^(emin - fsz) (subnormal) or 0,
    identically in the field symbols F, E: that is exactness for every finite bit pattern of the format."""
    from sa.absint import Interp, ModRef, Unsupported as IUnsupported, PyRaise, _Return
    from sa.linint import Lin, Paths
    from sa.pow2alg import Val, Exp
    from sa.symint import SInt, SFrac, BitInt, to_int

    f = repo.func(REL, "float2fraction")
    if not f.args.args:
        raise AnalysisError("float2fraction: no parameter")
    arg = f.args.args[0].arg
    branch = None
    for n in f.body:
        if isinstance(n, ast.If):
            m = n
            while m is not None:
                t = m.test
                if isinstance(t, ast.Call) and dotted(t.func) == "isinstance" and dotted(t.args[0]) == arg and norm_src(t.args[1]) == "numpy.floating":
                    branch = m
                m = m.orelse[0] if len(m.orelse) == 1 and isinstance(m.orelse[0], ast.If) else None
    if branch is None:
        raise AnalysisError("float2fraction: numpy.floating branch not found")

    class FInfo:
        __absint_host__ = True

        def __init__(self, bits):
            p = PREC[bits]
            self.nexp, self.negep, self.machep, self.minexp, self.maxexp, self.nmant, self.bits = bits - p, -p, 1 - p, EMIN[bits], EMAX[bits] + 1, p - 1, bits

    class FArg:
        __absint_host__ = True

        def __init__(self, bits, sign):
            self.bits, self.sign = bits, sign
            self.__absint_type__ = ModRef("ext", f"numpy.float{bits}")

        def view(self, t=None):
            fsz = PREC[self.bits] - 1
            esz = self.bits - PREC[self.bits]
            return BitInt([("F", 0, fsz), ("E", fsz, esz), (self.sign, fsz + esz, 1)])

        def __lt__(self, o):
            if o != 0:
                raise TypeError("comparison with a non-zero value")
            return self.sign == 1

        def __ge__(self, o):
            return not self.__lt__(o)

    ext = {"numpy.finfo": lambda dt: FInfo(int(dt.name.replace("numpy.float", ""))), "fractions.Fraction": SFrac,
           "numpy.signbit": lambda v: v.sign == 1}
    for w in (8, 16, 32, 64):
        ext[f"numpy.uint{w}"] = lambda v=0: v
        ext[f"numpy.int{w}"] = lambda v=0: v
    n_paths = 0
    for bits in BITS:
        p, emax, emin = PREC[bits], EMAX[bits], EMIN[bits]
        fsz, esz = p - 1, bits - p
        emask = (1 << esz) - 1
        F, E = Lin.sym("F"), Lin.sym("E")
        facts = [(F, ">="), (Lin({}, (1 << fsz) - 1) - F, ">="), (E, ">="), (Lin({}, emask) - E, ">=")]
        for sign in (0, 1):
            sigma = 1 - 2 * sign
            want_normal = (Val.const(sigma) * (Val.pow2(Exp({}, fsz)) + Val.sym("F"))) * Val.pow2(Exp({"E": 1}, -emax - fsz))
            want_sub = Val.const(sigma) * Val.sym("F") * Val.pow2(Exp({}, emin - fsz))

            def run():
                I = Interp(repo)
                I.ext_calls = ext
                env = {arg: FArg(bits, sign), "int": to_int}
                try:
                    I.exec_block(branch.body, env, REL)
                    got = None
                except _Return as ret:
                    got = ret.v
                ctx = Paths.current()
                e_is0 = ctx.decide(E, "==") if True else None
                if e_is0:
                    cls = "zero" if ctx.decide(F, "==") else "subnormal"
                elif ctx.decide(E - emask, "=="):
                    cls = "non-finite"
                else:
                    cls = "normal"
                return got, cls

            bad = {}
            seen = set()
            try:
                for ctx, (got, cls) in Paths.explore(run, base_facts=facts):
                    n_paths += 1
                    if cls == "non-finite":
                        continue
                    seen.add(cls)
                    if not isinstance(got, SFrac):
                        bad.setdefault(cls, (ctx.describe(), repr(got), "a Fraction"))
                        continue
                    val = got.v
                    if cls in ("zero", "subnormal"):
                        val = val.subst_exp("E", 0)
                    want = Val() if cls == "zero" else want_sub if cls == "subnormal" else want_normal
                    if cls == "zero":
                        # F == 0 on this path
                        val = Val([((tuple(m for m in mono if m != "F"), e), c) for mono, e, c in val.items() if "F" not in mono])
                    if not (val == want):
                        bad.setdefault(cls, (ctx.describe(), repr(val), repr(want)))
            except (IUnsupported, PyRaise, TypeError) as e:
                msg = str(getattr(e, "what", e))
                if "cuts through the field" in msg:
                    r.ob(rule, f"{REL}::float2fraction float{bits} sign={sign} field extraction", False,
                         f"{msg}: the masks/shifts do not follow the IEEE layout (fraction {fsz} bits, exponent {esz} bits, sign 1 bit)", loc(REL, branch))
                    continue
                raise AnalysisError(f"float2fraction numpy.floating branch is not interpretable (float{bits}, sign bit {sign}): {msg}")
            for cls in ("zero", "subnormal", "normal"):
                if cls not in seen:
                    raise AnalysisError(f"float2fraction float{bits}: no feasible path for {cls} values")
                if cls in bad:
                    path, got, want = bad[cls]
                    r.ob(rule, f"{REL}::float2fraction float{bits} sign={sign} {cls}", False,
                         f"on the path [{path}] (F, E: fraction and exponent fields) the result is {got}; the IEEE binary{bits} value is {want}", loc(REL, branch))
                else:
                    r.ob(rule, f"{REL}::float2fraction float{bits} sign={sign} {cls}", True, "every feasible path returns the exact IEEE value", loc(REL, branch))
    r.info(rule, f"float2fraction: {n_paths} feasible paths interpreted (3 formats x 2 signs)")


def check_float2mpf(r, repo, rule="R13.4"):
    """The finite branch of float2mpf is interpreted on a symbolic float (frexp -> mantissa M, exponent X): the pair handed to
    from_man_exp must satisfy man * 2**exp == M * 2**X identically, and the normalisation precision must be the float's own
    precision (or absent), never the hosting context's."""
    from sa.absint import Interp, ModRef, Unsupported as IUnsupported, PyRaise, _Return
    from sa.linint import Paths
    from sa.pow2alg import Val, Exp
    from sa.symint import SInt, to_int

    fm = repo.func(REL, "float2mpf")
    params = [a.arg for a in fm.args.args]
    if len(params) != 2:
        raise AnalysisError("float2mpf: expected parameters (ctx, x)")
    cname, xname = params
    branch = None
    for n in ast.walk(fm):
        if isinstance(n, ast.If) and isinstance(n.test, ast.Call) and dotted(n.test.func) == "numpy.isfinite" and n.test.args and dotted(n.test.args[0]) == xname:
            branch = n
    if branch is None:
        raise AnalysisError("float2mpf: `numpy.isfinite(x)` branch not found")
    CTXPREC = "<precision of the hosting mpmath context>"

    class X:
        __absint_host__ = True

        def __init__(self, bits):
            self.bits = bits

    class Mpf:
        __absint_host__ = True

        def __init__(self, man, exp, prec=None, rnd=None, *rest, **kw):
            self.man, self.exp, self.prec, self.rnd = man, exp, kw.get("prec", prec), kw.get("rnd", rnd)
            self._mpf_ = (0, man, exp, 0)

    class Ctx:
        __absint_host__ = True
        _prec_rounding = [CTXPREC, "n"]
        prec = CTXPREC

        def ldexp(self, m, k):
            return SInt(m.v * Val.pow2(k._exp() if isinstance(k, SInt) else Exp({}, int(k))))

        def make_mpf(self, v):
            return v

        def isfinite(self, v):
            return True

    for bits in BITS:
        p = PREC[bits]

        def run():
            I = Interp(repo)
            I.ext_calls = {"numpy.frexp": lambda v: (SInt.sym("M"), SInt.sym("X")), "mpmath.libmp.from_man_exp": Mpf}
            I.globals_cache[(REL, "get_precision")] = lambda v: p
            env = {cname: Ctx(), xname: X(bits), "int": to_int}
            try:
                I.exec_block(branch.body, env, REL)
                return None
            except _Return as ret:
                return ret.v

        try:
            paths = list(Paths.explore(run))
        except (IUnsupported, PyRaise, TypeError) as e:
            raise AnalysisError(f"float2mpf finite branch is not interpretable (float{bits}): {getattr(e, 'what', e)}")
        for ctx, got in paths:
            if not isinstance(got, Mpf):
                raise AnalysisError(f"float2mpf: the finite branch returns {got!r}, not the result of from_man_exp")
            man = got.man.v if isinstance(got.man, SInt) else Val.const(got.man)
            try:
                ex = got.exp._exp() if isinstance(got.exp, SInt) else Exp({}, int(got.exp))
                total = man * Val.pow2(ex)
                ok = total == Val.sym("M") * Val.pow2(Exp({"X": 1}))
                detail = f"man * 2**exp = {total!r}; frexp gives mantissa M and exponent X, the value is M * 2**X"
            except TypeError as e:
                ok, detail = False, str(e)
            r.ob(rule, f"{REL}::float2mpf float{bits} man * 2**exp", ok, detail, loc(REL, fm))
            okp = got.prec is None or got.prec == p
            r.ob(rule, f"{REL}::float2mpf float{bits} normalisation precision", okp,
                 f"from_man_exp is given precision {got.prec!r}; the float's own precision is {p} (a smaller context precision rounds the significand, the mpf no longer equals the float)", loc(REL, fm))


def check_mpf2multiword(r, repo, rule="R13.5"):
    """Every word of the multiword is mpf2float of a raw mpf built from the fields of x: the sign field of x reaches it, its
    mantissa is a slice `(man & (mask << o)) >> o` of x's mantissa, its exponent is x's exponent plus the same shift `o`,
    and the bit-count field is the bit length of the slice (mpmath's raw-tuple invariant).  Decided on statement paths."""
    from sa.paths import enumerate_paths, calls_in, call_name
    from sa.defuse import last_def, origins

    from sa.core import inline_helpers
    f = inline_helpers(repo, REL, repo.func(REL, "mpf2multiword"))
    xname = f.args.args[1].arg
    unp = [st for st in f.body if isinstance(st, ast.Assign) and isinstance(st.targets[0], ast.Tuple) and dotted(st.value) == f"{xname}._mpf_"
           and len(st.targets[0].elts) == 4 and all(isinstance(e, ast.Name) for e in st.targets[0].elts)]
    if len(unp) != 1:
        raise AnalysisError("mpf2multiword: `sign, man, exp, bc = x._mpf_` not found")
    SIGN, MAN, EXP, _BC = (e.id for e in unp[0].targets[0].elts)
    # names bound to the context's mpf constructor
    ctor = {st.targets[0].id for st in f.body if isinstance(st, ast.Assign) and isinstance(st.targets[0], ast.Name) and norm_src(st.value) == f"{xname}.context.mpf"}
    n_words = 0
    seen = set()
    for p in enumerate_paths(f, unroll=(1, 2), limit=20000):
        for i, e in enumerate(p.events):
            if e.kind != "stmt":
                continue
            for c in calls_in(e.node):
                if (call_name(c) or "") != "mpf2float" or len(c.args) < 2:
                    continue
                w = c.args[1]
                if isinstance(w, ast.Name) and w.id == xname:
                    continue  # the whole of x rounded into one word
                if not (isinstance(w, ast.Call) and isinstance(w.func, ast.Name) and w.func.id in ctor and len(w.args) == 1):
                    raise AnalysisError(f"mpf2multiword: word `{norm_src(w)}` is neither x nor a raw mpf of its fields")
                key = f"{REL}::mpf2multiword word `{norm_src(w)}`"
                t = w.args[0]
                elts = t.elts if isinstance(t, ast.Tuple) else None
                og = origins(w, p.events, i)
                sign_in = any(k == "name" and v == SIGN for k, v in og) or any(isinstance(n_, ast.Name) and n_.id == SIGN for n_ in ast.walk(w)) or (elts is not None and len(elts) == 4 and dotted(elts[0]) == SIGN)
                detail = None
                if not sign_in:
                    detail = (f"the sign field `{SIGN}` of x does not reach the word: the mantissa `{MAN}` of an mpf is unsigned, so every word of a "
                              "negative value comes out positive and the multiword of -v has the value +v")
                elif elts is None or len(elts) != 4:
                    detail = None if elts is not None and len(elts) == 2 else f"`{norm_src(t)}` is not a (sign, man, exp, bc) tuple"
                else:
                    def resolve(e_, at=None):
                        # a local name stands for its last definition on the path (followed through plain copies `a = b`); any other
                        # expression stands for itself, evaluated here
                        cur = (i if at is None else at, e_)
                        while isinstance(cur[1], ast.Name) and cur[1].id not in (MAN, EXP, SIGN):
                            d_ = last_def(cur[1].id, p.events, cur[0])
                            if not d_:
                                return None if cur[1] is e_ else cur
                            cur = d_
                        return cur

                    mdef, xdef, bdef = resolve(elts[1]), resolve(elts[2]), resolve(elts[3])
                    if not (mdef and xdef and bdef):
                        raise AnalysisError("mpf2multiword: fields of a word are not locally defined names")
                    mv = mdef[1]
                    # (MAN & (mask << o)) >> o
                    okm = isinstance(mv, ast.BinOp) and isinstance(mv.op, ast.RShift) and isinstance(mv.left, ast.BinOp) and isinstance(mv.left.op, ast.BitAnd)
                    o = o2 = None
                    if okm:
                        sides = [mv.left.left, mv.left.right]
                        man_side = [x_ for x_ in sides if dotted(x_) == MAN]
                        sh = [x_ for x_ in sides if isinstance(x_, ast.BinOp) and isinstance(x_.op, ast.LShift)]
                        okm = len(man_side) == 1 and len(sh) == 1
                        if okm:
                            o, o2 = norm_src(sh[0].right), norm_src(mv.right)
                    if not okm:
                        raise AnalysisError(f"mpf2multiword: mantissa slice `{norm_src(mv)}` is not `(man & (mask << o)) >> o`")
                    xv = xdef[1]
                    xo = None
                    if isinstance(xv, ast.BinOp) and isinstance(xv.op, ast.Add):
                        a_, b_ = xv.left, xv.right
                        if dotted(a_) == EXP:
                            xo = norm_src(b_)
                        elif dotted(b_) == EXP:
                            xo = norm_src(a_)
                    bv = bdef[1]
                    bl_ok = isinstance(bv, ast.Call) and isinstance(bv.func, ast.Attribute) and bv.func.attr == "bit_length"
                    if bl_ok:
                        # the receiver of bit_length(), where it was evaluated, must be the very definition of the mantissa slice used here
                        rdef = resolve(bv.func.value, bdef[0])
                        bl_ok = rdef is not None and rdef[0] == mdef[0] and rdef[1] is mdef[1]
                    # the shift variable must not change between the slice, the exponent and the use
                    first = min(mdef[0], xdef[0])
                    changed = any(ev_.kind == "stmt" and any(dotted(tt) == o for tt, _ in _stores(ev_.node)) for ev_ in p.events[first + 1:i])
                    if o != o2:
                        detail = f"the slice `{norm_src(mv)}` masks at shift `{o}` but moves the bits down by `{o2}`"
                    elif xo != o:
                        detail = f"the word's exponent is `{norm_src(xv)}` while its mantissa slice was shifted down by `{o}`: the word is not man-slice * 2**(exp + {o})"
                    elif changed:
                        detail = f"`{o}` is modified between the definition of the slice / exponent and their use"
                    elif not bl_ok:
                        detail = f"the bit-count field `{norm_src(bv)}` is not the bit length of the current mantissa slice `{norm_src(elts[1])}` (raw mpf tuples must satisfy bc == man.bit_length())"
                k2 = (key, detail)
                if k2 in seen:
                    continue
                seen.add(k2)
                n_words += 1
                r.ob(rule, key, detail is None, detail or "", loc(REL, w))
    if n_words == 0:
        raise AnalysisError("mpf2multiword: no word construction found")
    # early exits of the word loop: a `break` taken because a word converted to zero is a truncation (the chunk underflows the
    # format) only when the chunk itself is non-zero; an all-zero chunk in the middle of a sparse significand must not end the loop
    # while lower bits remain
    n_brk = 0
    for n_ in ast.walk(f):
        if isinstance(n_, ast.If) and any(isinstance(b_, ast.Break) for b_ in n_.body):
            t = n_.test
            zero_word = isinstance(t, ast.Compare) and len(t.ops) == 1 and isinstance(t.ops[0], ast.Eq) and isinstance(t.left, ast.Name) \
                and ((isinstance(t.comparators[0], ast.Call) and t.comparators[0].args and isinstance(t.comparators[0].args[0], ast.Constant) and t.comparators[0].args[0].value == 0)
                     or (isinstance(t.comparators[0], ast.Constant) and t.comparators[0].value == 0))
            if not zero_word:
                continue
            # is the compared name a word (result of mpf2float)?
            defs = [st for st in ast.walk(f) if isinstance(st, ast.Assign) and any(isinstance(tt, ast.Name) and tt.id == t.left.id for tt in st.targets)]
            if not any(isinstance(d_.value, ast.Call) and (call_name(d_.value) or "") == "mpf2float" for d_ in defs):
                continue
            n_brk += 1
            # accepted when an enclosing / conjoined test establishes that the mantissa chunk is non-zero
            guarded = False
            anc = n_
            while anc is not None and anc is not f:
                anc = getattr(anc, "_parent", None)
                if isinstance(anc, ast.If) and any(isinstance(x, ast.Compare) and isinstance(x.ops[0], (ast.NotEq, ast.Gt)) and isinstance(x.comparators[0], ast.Constant)
                                                      and x.comparators[0].value == 0 for x in ast.walk(anc.test)):
                    guarded = True
            r.ob(rule, f"{REL}::mpf2multiword early exit on a zero word", guarded,
                 f"`if {norm_src(t)}: break` ends the loop whenever a word is zero, also when its mantissa chunk is all zero bits in the middle of a sparse "
                 "significand: the lower bits are then dropped although they are representable (float64(1 + 2**-52) in float32 words is [1.0])", loc(REL, n_))
    if n_brk == 0:
        raise AnalysisError("mpf2multiword: the truncation exit `if x1 == dtype(0): break` was not found")
    # multiword2mpf: interpreted (sa/absint.py) on symbolic word lists of length 0..4: float2mpf(ctx, word) is the only way a word
    # becomes a number (an exact polynomial atom), a word used natively has no arithmetic; the result must be w0 + ... + w(n-1),
    # every word once - whatever loop, comprehension or sum() spelling the function uses
    from sa.absint import Interp, Closure, Unsupported as IUnsupported, PyRaise
    from rules.C12 import Poly
    g = repo.func(REL, "multiword2mpf")

    class _Word:
        __absint_host__ = True

        def __init__(self, i_):
            self.i = i_

        def __repr__(self):
            return f"word{self.i}"

    class _Ctx:
        __absint_host__ = True

        def mpf(self, v=0):
            return Poly.const(v) if isinstance(v, (int, float)) else v

    def _float2mpf(ctx_, w_):
        if not isinstance(w_, _Word):
            raise TypeError(f"float2mpf of {w_!r}")
        return Poly.atom(f"w{w_.i}")

    raw_use, wrong_sum = None, None
    for n_words in range(0, 5):
        I_ = Interp(repo)
        I_.globals_cache[(REL, "float2mpf")] = _float2mpf
        words = [_Word(q) for q in range(n_words)]
        try:
            out = I_.call(Closure(g, {}, I_, REL, bound_self=None), [_Ctx(), list(words)])
        except (TypeError, PyRaise) as e_:
            msg = getattr(e_, "what", str(e_))
            if "IndexError" in msg and n_words == 0:
                continue  # the empty multiword is R13.9's subject
            raw_use = raw_use or f"with {n_words} words: {msg[:160]}"
            continue
        except IUnsupported as e_:
            raise AnalysisError(f"multiword2mpf is not interpretable: {getattr(e_, 'what', e_)}")
        want = Poly({})
        for q in range(n_words):
            want = want + Poly.atom(f"w{q}")
        if not (isinstance(out, Poly) and out == want) and not (n_words == 0 and out in (0, 0.0)):
            wrong_sum = wrong_sum or f"with {n_words} words the result is {out!r}, expected {want!r}"
    r.ob(rule, f"{REL}::multiword2mpf converts every word to mpf before adding", raw_use is None,
         f"a word is used as a native float (not as float2mpf(ctx, word)) - {raw_use}: the words are then added in the word format, which rounds "
         "at every step, and a float carried in narrower words (float64 in float32 words) comes back rounded to one word", loc(REL, g))
    r.ob(rule, f"{REL}::multiword2mpf sums every word once", wrong_sum is None and raw_use is None,
         f"multiword2mpf does not return the sum of all words: {wrong_sum or raw_use}", loc(REL, g))


def _stores(st):
    if isinstance(st, ast.Assign):
        for t in st.targets:
            yield t, st.value
    elif isinstance(st, (ast.AugAssign, ast.AnnAssign)):
        yield st.target, st.value


TO_FLOAT = ("mpf2float", "bin2float", "fraction2float", "number2float")
DTYPE_PRESERVING = {"numpy.ldexp", "numpy.nextafter", "numpy.copysign", "numpy.negative", "numpy.positive", "numpy.abs", "numpy.absolute", "abs"}


def check_result_format(r, repo, rule="R13.6"):
    """The converters *to* a float format return, on every return statement, a value constructed in the requested format: a call of
    the dtype parameter, a view/astype to it, another converter called with the same dtype, dtype-preserving numpy functions of such
    a value, a sign change, a selection between such values, a list of such values, or arithmetic whose other operand is a Python
    literal (weak scalar).  A product with a numpy scalar of another type (numpy.sign(int) is int64 for small integers) is promoted by
    NumPy - int64 * float16 is float64 - and the round trip no longer returns the bit pattern of the format."""
    n_ret = 0
    for fname in TO_FLOAT:
        f = repo.func(REL, fname)
        dt = f.args.args[0].arg
        assigns = {}
        for n in ast.walk(f):
            if isinstance(n, ast.Assign):
                for t in n.targets:
                    if isinstance(t, ast.Name):
                        assigns.setdefault(t.id, []).append(n.value)
            elif isinstance(n, ast.AugAssign) and isinstance(n.target, ast.Name):
                assigns.setdefault(n.target.id, []).append(n)

        def is_d(e, busy=()):
            """-> (True, None) or (False, offending sub-expression)"""
            if isinstance(e, ast.Call):
                fn = dotted(e.func) or ""
                if fn == dt:
                    return True, None
                if fn in TO_FLOAT and e.args and dotted(e.args[0]) == dt:
                    return True, None
                if isinstance(e.func, ast.Attribute) and e.func.attr in ("view", "astype") and e.args and dotted(e.args[0]) == dt:
                    return True, None
                if fn in DTYPE_PRESERVING and e.args:
                    return is_d(e.args[0], busy)
                if fn in ("list", "tuple") and len(e.args) == 1:
                    return is_d(e.args[0], busy)
                return False, e
            if isinstance(e, ast.UnaryOp) and isinstance(e.op, (ast.USub, ast.UAdd)):
                return is_d(e.operand, busy)
            if isinstance(e, ast.IfExp):
                a = is_d(e.body, busy)
                return a if not a[0] else is_d(e.orelse, busy)
            if isinstance(e, (ast.ListComp, ast.GeneratorExp)):
                return is_d(e.elt, busy)
            if isinstance(e, (ast.List, ast.Tuple)):
                for x in e.elts:
                    a = is_d(x, busy)
                    if not a[0]:
                        return a
                return True, None
            if isinstance(e, ast.BinOp):
                sides = [e.left, e.right]

                def weak(x):
                    """a Python scalar (weakly typed under NEP 50): literals, their signs, selections between them, int()/float()"""
                    if isinstance(x, ast.Constant):
                        return isinstance(x.value, (int, float)) and not isinstance(x.value, bool)
                    if isinstance(x, ast.UnaryOp) and isinstance(x.op, (ast.USub, ast.UAdd)):
                        return weak(x.operand)
                    if isinstance(x, ast.IfExp):
                        return weak(x.body) and weak(x.orelse)
                    if isinstance(x, ast.Call) and dotted(x.func) in ("int", "float"):
                        return True
                    return False

                lits = [weak(x) for x in sides]
                for x, lit in zip(sides, lits):
                    if lit:
                        continue
                    a = is_d(x, busy)
                    if not a[0]:
                        return False, (a[1] if a[1] is not None else x)
                return (True, None) if not all(lits) else (False, e)
            if isinstance(e, ast.AugAssign):
                return is_d(ast.BinOp(left=ast.Name(id=e.target.id, ctx=ast.Load()), op=e.op, right=e.value), busy)
            if isinstance(e, ast.Name):
                if e.id in busy:
                    return True, None  # self-reference: decided by the other definitions
                if e.id not in assigns:
                    return False, e
                for v in assigns[e.id]:
                    a = is_d(v, busy + (e.id,))
                    if not a[0]:
                        return a
                return True, None
            return False, e

        for n in ast.walk(f):
            if isinstance(n, ast.Return) and n.value is not None:
                n_ret += 1
                ok, bad = is_d(n.value)
                r.ob(rule, f"{REL}::{fname} `return {norm_src(n.value)[:60]}` is constructed in the requested format", ok,
                     "" if ok else f"`{norm_src(bad)}` is not a value of the format `{dt}` (nor a Python literal): NumPy promotes the result by the types of "
                     "both operands - e.g. numpy.sign of a small integer is numpy.int64 and int64 * float16 is float64 - so the conversion back "
                     "returns another width and the round trip is not bit-identical", loc(REL, n))
    if n_ret < 15:
        raise AnalysisError(f"converters to float: only {n_ret} return statements recognised")



SIGNED_INF_FUNCS = ("mpf2float", "bin2float", "fraction2float", "mpf2expansion", "float2mpf", "float2fraction", "mpf2multiword", "number2expansion", "float2expansion")


def check_infinity_sign(r, repo, rule="R13.7"):
    """"Infinities map to themselves": wherever a converter produces the *constant* +infinity (numpy.inf, float("inf"), ctx.inf, not
    under a minus sign), a test that dominates it - an enclosing if / conditional expression - must distinguish the sign of the
    value being converted (a comparison with zero, a sign / isneg flag, the sign field `_mpf_[0]`, isposinf / isneginf, a
    comparison with an infinity or with the strings "inf" / "-inf").  A +inf selected under `not isfinite(x)` or `isnan(x)` alone
    turns -inf into +inf."""
    def is_pos_inf(n):
        d = dotted(n) or ""
        if d in ("numpy.inf", "math.inf", "numpy.Inf", "numpy.infty") or d.endswith(".inf") and not d.startswith("-"):
            return True
        return isinstance(n, ast.Call) and dotted(n.func) == "float" and n.args and isinstance(n.args[0], ast.Constant) and str(n.args[0].value).lstrip("+").lower() in ("inf", "infinity")

    def sign_test(t):
        for x in ast.walk(t):
            if isinstance(x, ast.Compare):
                sides = [x.left] + list(x.comparators)
                if any(isinstance(o, (ast.Lt, ast.Gt, ast.LtE, ast.GtE)) for o in x.ops) and any(isinstance(c, ast.Constant) and c.value == 0 for c in sides) :
                    return True
                if any(isinstance(o, (ast.Lt, ast.Gt, ast.LtE, ast.GtE)) for o in x.ops) and any(isinstance(c, ast.Call) and c.args and isinstance(c.args[0], ast.Constant) and c.args[0].value == 0 for c in sides):
                    return True
                if any(isinstance(c, ast.Constant) and isinstance(c.value, str) and c.value.lstrip("+-") == "inf" for c in sides):
                    return True
                if any(is_pos_inf(c) or (isinstance(c, ast.UnaryOp) and is_pos_inf(c.operand)) for c in sides):
                    return True
            if isinstance(x, ast.Name) and any(k in x.id.lower() for k in ("sign", "isneg", "negative")):
                return True
            if isinstance(x, ast.Attribute) and any(k in x.attr.lower() for k in ("sign", "isneg")):
                return True
            if isinstance(x, ast.Subscript) and isinstance(x.value, ast.Attribute) and x.value.attr == "_mpf_" and isinstance(x.slice, ast.Constant) and x.slice.value == 0:
                return True
            if isinstance(x, ast.Call) and (dotted(x.func) or "").split(".")[-1] in ("isposinf", "isneginf", "signbit", "copysign"):
                return True
            # the sign character of a spelled value: b.startswith("-"), b[0] == "-", "-" in b
            if isinstance(x, ast.Call) and isinstance(x.func, ast.Attribute) and x.func.attr == "startswith" and x.args and isinstance(x.args[0], ast.Constant) and x.args[0].value in ("-", "+"):
                return True
            if isinstance(x, ast.Compare) and any(isinstance(c, ast.Constant) and c.value in ("-", "+") for c in [x.left] + list(x.comparators)):
                return True
        return False

    n_sites = 0
    for fname in SIGNED_INF_FUNCS:
        if not repo.has(REL, fname):
            continue
        f = repo.func(REL, fname)
        for n in ast.walk(f):
            if not is_pos_inf(n):
                continue
            par = getattr(n, "_parent", None)
            if isinstance(par, ast.UnaryOp) and isinstance(par.op, ast.USub):
                continue  # -inf written out: the sign is explicit
            if isinstance(par, ast.Compare):
                continue  # a test, not a produced value
            n_sites += 1
            ok = False
            child, anc = n, par
            negated = False
            while anc is not None and anc is not f:
                if isinstance(anc, ast.UnaryOp) and isinstance(anc.op, ast.USub):
                    negated = True
                if isinstance(anc, ast.IfExp) and (child is anc.body or child is anc.orelse) and sign_test(anc.test):
                    ok = True
                # the sign is applied as a factor or by copysign: (-1 if num < 0 else 1) * inf, numpy.sign(num) * inf, copysign(inf, num)
                if isinstance(anc, ast.BinOp) and isinstance(anc.op, ast.Mult):
                    other = anc.right if child is anc.left else anc.left
                    if sign_test(other) or any(isinstance(x_, ast.Call) and (dotted(x_.func) or "").split(".")[-1] == "sign" for x_ in ast.walk(other)):
                        ok = True
                if isinstance(anc, ast.Call) and (dotted(anc.func) or "").split(".")[-1] == "copysign":
                    ok = True
                if isinstance(anc, ast.If) and sign_test(anc.test):
                    ok = True
                # elif chains: earlier tests of the chain also dominate
                child, anc = anc, getattr(anc, "_parent", None)
            r.ob(rule, f"{REL}::{fname} constant +inf at `{norm_src(par)[:50]}` is selected under a test of the sign", ok or negated,
                 f"`{norm_src(par)[:80]}` produces the constant +infinity and no enclosing test distinguishes the sign of the converted value: -inf comes out as +inf", loc(REL, n))
    if n_sites < 4:
        raise AnalysisError(f"converters: only {n_sites} constant-infinity sites recognised")



def _ancestors_of(node):
    out = []
    n = getattr(node, "_parent", None)
    while n is not None:
        out.append(n)
        n = getattr(n, "_parent", None)
    return out


def check_signed_zero_string(r, repo, rule="R13.8"):
    """The binary significand/exponent string can spell a negative zero, so the round trip float -> string -> float has to keep
    it (the property exempts only the fraction, which cannot).  float2bin: a return that spells zero must distinguish the sign
    bit of its argument (signbit / copysign: `f >= 0` and `f < 0` are both blind to -0.0); bin2float: the negative-zero
    spelling has its own comparison, which returns a *float* negative zero (an integer -0 has no sign)."""
    import re as _re

    f2b = repo.func(REL, "float2bin")
    par = f2b.args.args[0].arg
    zero_spell = set()
    n_zero = 0
    for ret in [n for n in ast.walk(f2b) if isinstance(n, ast.Return) and n.value is not None]:
        owner = ret
        while owner is not None and not isinstance(owner, (ast.FunctionDef, ast.Lambda)):
            owner = getattr(owner, "_parent", None)
        if owner is not f2b:
            continue
        fstr = isinstance(ret.value, ast.JoinedStr)
        if not fstr and any(isinstance(x, (ast.JoinedStr, ast.FormattedValue)) for x in ast.walk(ret.value)):
            continue
        if fstr:
            # f"{sign}0": a prefix that is computed elsewhere, followed by the digits of zero
            text = "".join(x.value for x in ret.value.values if isinstance(x, ast.Constant))
            consts = [text] if _re.fullmatch(r"0(\.0*)?", text) and any(isinstance(x, ast.FormattedValue) for x in ret.value.values) else []
        else:
            consts = [x.value for x in ast.walk(ret.value) if isinstance(x, ast.Constant) and isinstance(x.value, str)]
        if not consts or not all(_re.fullmatch(r"[-+]?0(\.0*)?", c) for c in consts):
            continue
        n_zero += 1
        # names the returned text is built from, with the locals that define them (a `sign` prefix set by comparisons is blind)
        from sa.core import inline_locals
        rv = inline_locals(ret.value, f2b)
        sees_sign = any(isinstance(c, ast.Call) and (dotted(c.func) or "").split(".")[-1] in ("signbit", "copysign") and any(dotted(a) == par for a in c.args) for c in ast.walk(rv))
        if fstr and not sees_sign:
            # a prefix local with several definitions: every definition must come from a test of the sign bit
            for fv in [x for x in ret.value.values if isinstance(x, ast.FormattedValue) and isinstance(x.value, ast.Name)]:
                defs_ = [st for st in ast.walk(f2b) if isinstance(st, ast.Assign) and any(isinstance(t_, ast.Name) and t_.id == fv.value.id for t_ in st.targets)]
                under_signbit = defs_ and all(any(isinstance(anc_, ast.If) and any(isinstance(c, ast.Call) and (dotted(c.func) or "").split(".")[-1] in ("signbit", "copysign") for c in ast.walk(anc_.test))
                                                   for anc_ in _ancestors_of(st)) for st in defs_)
                sees_sign = sees_sign or bool(under_signbit)
        if not sees_sign:
            # or the return is reached under a test of the sign bit
            node = ret
            while node is not None and node is not f2b:
                parent = getattr(node, "_parent", None)
                if isinstance(parent, ast.If) and any(isinstance(c, ast.Call) and (dotted(c.func) or "").split(".")[-1] in ("signbit", "copysign") for c in ast.walk(parent.test)):
                    sees_sign = True
                node = parent
        neg = [c for c in consts if c.startswith("-")]
        zero_spell |= set(neg)
        r.ob(rule, f"{REL}::float2bin zero spelling `{norm_src(ret.value)}` keeps the sign bit", sees_sign,
             f"float2bin returns `{norm_src(ret.value)}` for a zero whatever its sign bit: float2bin(-0.0) and float2bin(0.0) are the same string, so bin2float gives +0.0 back "
             "for -0.0 (comparisons such as `f >= 0` do not see the sign of zero)", loc(REL, ret))
    if n_zero == 0:
        raise AnalysisError("float2bin: no return spelling zero found")
    b2f = repo.func(REL, "bin2float")
    bpar = b2f.args.args[1].arg
    handled = False
    for node in ast.walk(b2f):
        if isinstance(node, ast.If) and isinstance(node.test, ast.Compare) and len(node.test.ops) == 1 and isinstance(node.test.ops[0], ast.Eq) and dotted(node.test.left) == bpar \
                and isinstance(node.test.comparators[0], ast.Constant) and isinstance(node.test.comparators[0].value, str) and _re.fullmatch(r"-0(\.0*)?", node.test.comparators[0].value):
            rets = [x for x in node.body if isinstance(x, ast.Return) and x.value is not None]
            for rt in rets:
                v = rt.value
                int_neg_zero = any(isinstance(x, ast.UnaryOp) and isinstance(x.op, ast.USub) and isinstance(x.operand, ast.Constant) and type(x.operand.value) is int for x in ast.walk(v))
                neg_float = (isinstance(v, ast.UnaryOp) and isinstance(v.op, ast.USub) and isinstance(v.operand, ast.Call)) or "copysign" in norm_src(v) \
                    or any(isinstance(x, ast.Constant) and isinstance(x.value, float) and str(x.value) == "-0.0" for x in ast.walk(v)) \
                    or any(isinstance(x, ast.UnaryOp) and isinstance(x.op, ast.USub) and isinstance(x.operand, ast.Constant) and type(x.operand.value) is float for x in ast.walk(v))
                handled = handled or (neg_float and not int_neg_zero)
    r.ob(rule, f"{REL}::bin2float reads the negative-zero spelling", handled,
         "bin2float has no branch that turns the spelling of a negative zero into a float negative zero: the string round trip of -0.0 is +0.0", loc(REL, b2f))


def check_empty_expansion(r, repo, rule="R13.9"):
    """Zero is a finite float: its expansion must convert back.  A producer that builds its result by appending to an empty list
    and can leave the loop before the first append (the word is zero) returns [] for zero; the converter back then must not
    index its argument unguarded (`e[-1]` of an empty list raises IndexError).  Producers and consumers are found by shape:
    path enumeration over the producer (a returning path without any append/extend after `lst = []`), and an unguarded
    constant subscript of the parameter in the consumer."""
    from sa.paths import enumerate_paths

    for group, prods, cons in (("expansion", ("float2expansion", "fraction2expansion", "mpf2expansion"), "expansion2mpf"), ("multiword", ("mpf2multiword",), "multiword2mpf")):
        _check_empty_group(r, repo, rule, group, prods, cons)


def _check_empty_group(r, repo, rule, group, prods, cname):
    from sa.paths import enumerate_paths

    producers = []
    for fname in prods:
        f = repo.func(REL, fname)
        may_be_empty = False
        for p in enumerate_paths(f, unroll=(0, 1), limit=20000):
            if p.exit != "return" or p.exit_node.value is None or not isinstance(p.exit_node.value, ast.Name):
                continue
            lname = p.exit_node.value.id
            init = [i for i, e in enumerate(p.events) if e.kind == "stmt" and isinstance(e.node, ast.Assign) and any(isinstance(t, ast.Name) and t.id == lname for t in e.node.targets)]
            if not init or not (isinstance(p.events[init[-1]].node.value, ast.List) and not p.events[init[-1]].node.value.elts):
                continue
            grown = False
            for e in p.events[init[-1] + 1:]:
                if e.kind == "stmt":
                    for c in ast.walk(e.node):
                        if isinstance(c, ast.Call) and isinstance(c.func, ast.Attribute) and c.func.attr in ("append", "extend", "insert") and dotted(c.func.value) == lname:
                            # an extend guarded by an option (functional padding) does not count: it is not taken by default
                            grown = grown or c.func.attr == "append"
            if not grown:
                may_be_empty = True
        if may_be_empty:
            producers.append(fname)
    if not producers:
        r.ob(rule, f"{REL}::{group} producers never return an empty list", True, "", loc(REL, repo.func(REL, prods[0])))
        return
    for cname in (cname,):
        c = repo.func(REL, cname)
        par = c.args.args[1].arg
        bad = []
        for sub in ast.walk(c):
            if isinstance(sub, ast.Subscript) and dotted(sub.value) == par and isinstance(sub.slice, (ast.Constant, ast.UnaryOp)):
                # guarded when an enclosing if / an earlier returning if tests the parameter's truth or length
                guarded = False
                node = sub
                while node is not None and node is not c:
                    parent = getattr(node, "_parent", None)
                    if isinstance(parent, (ast.If, ast.IfExp)) and any(isinstance(x, ast.Name) and x.id == par for x in ast.walk(parent.test)):
                        guarded = True
                    node = parent
                st = sub
                while st is not None and not isinstance(st, ast.stmt):
                    st = getattr(st, "_parent", None)
                for prev in c.body:
                    if prev is st:
                        break
                    if isinstance(prev, ast.If) and any(isinstance(x, ast.Name) and x.id == par for x in ast.walk(prev.test)) and any(isinstance(x, (ast.Return, ast.Raise)) for x in prev.body):
                        guarded = True
                if not guarded:
                    bad.append(sub)
        r.ob(rule, f"{REL}::{cname} accepts the empty {group}", not bad,
             f"{', '.join(producers)} return [] for zero (the loop is left before the first append), and {cname} evaluates `{norm_src(bad[0]) if bad else ''}` unguarded: "
             f"the round trip float -> {group} -> back raises IndexError for 0.0 and -0.0", loc(REL, bad[0] if bad else c))


def check_special_spellings(r, repo, rule="R13.10"):
    """Writer/reader agreement on the special values of the binary string: every spelling without an exponent that float2bin or
    mpf2bin can return ("0", "-0", "inf", "-inf", "nan" ...) must be taken by one of the tests at the head of bin2float - a
    string that reaches the significand/exponent parser without a "p" raises.  The writers' spellings are read off their return
    statements (an f-string `{sign}inf` stands for both signs); the reader's tests are evaluated on each spelling."""
    import re as _re

    spellings = {}
    for wname in ("float2bin", "mpf2bin"):
        w = repo.func(REL, wname)
        for ret in [n for n in ast.walk(w) if isinstance(n, ast.Return) and n.value is not None]:
            v = ret.value
            outs = []
            if isinstance(v, ast.Constant) and isinstance(v.value, str):
                outs = [v.value]
            elif isinstance(v, ast.IfExp) and all(isinstance(a, ast.Constant) and isinstance(a.value, str) for a in (v.body, v.orelse)):
                outs = [v.body.value, v.orelse.value]
            elif isinstance(v, ast.JoinedStr):
                consts = "".join(x.value for x in v.values if isinstance(x, ast.Constant))
                nfmt = sum(1 for x in v.values if isinstance(x, ast.FormattedValue))
                if "p" not in consts and nfmt == 1 and isinstance(v.values[0], ast.FormattedValue):
                    outs = [consts, "-" + consts]  # `{sign}inf`
            for o in outs:
                if "p" not in o:
                    spellings.setdefault(o, (wname, ret))
    if not {"nan", "inf"} <= set(spellings):
        raise AnalysisError(f"float2bin/mpf2bin: special spellings not recognised (found {sorted(spellings)})")
    b2f = repo.func(REL, "bin2float")
    bpar = b2f.args.args[1].arg

    class _Unknown(Exception):
        pass

    def truth(t, sval):
        if isinstance(t, ast.BoolOp):
            vals = [truth(x, sval) for x in t.values]
            return all(vals) if isinstance(t.op, ast.And) else any(vals)
        if isinstance(t, ast.UnaryOp) and isinstance(t.op, ast.Not):
            return not truth(t.operand, sval)
        if isinstance(t, ast.Compare) and len(t.ops) == 1 and dotted(t.left) == bpar:
            c = t.comparators[0]
            if isinstance(c, ast.Constant) and isinstance(t.ops[0], (ast.Eq, ast.NotEq)):
                return (sval == c.value) == isinstance(t.ops[0], ast.Eq)
            if isinstance(c, (ast.Tuple, ast.List, ast.Set)) and all(isinstance(x, ast.Constant) for x in c.elts) and isinstance(t.ops[0], (ast.In, ast.NotIn)):
                return (sval in {x.value for x in c.elts}) == isinstance(t.ops[0], ast.In)
        if isinstance(t, ast.Call) and isinstance(t.func, ast.Attribute) and dotted(t.func.value) == bpar and t.func.attr in ("startswith", "endswith") \
                and len(t.args) == 1 and isinstance(t.args[0], ast.Constant):
            return getattr(sval, t.func.attr)(t.args[0].value)
        raise _Unknown(norm_src(t))

    def taken(stmts, sval):
        """the return statement reached by sval in a leading chain of if/elif tests on the parameter, or None"""
        for st in stmts:
            if isinstance(st, ast.If):
                try:
                    tv = truth(st.test, sval)
                except _Unknown:
                    return None
                branch = st.body if tv else st.orelse
                got = taken(branch, sval)
                if got is not None or tv:
                    return got
                continue
            if isinstance(st, ast.Return):
                return st
            if isinstance(st, (ast.Expr, ast.Pass)):
                continue
            return None
        return None

    for sval, (wname, ret) in sorted(spellings.items()):
        rt = taken(b2f.body, sval)
        ok = rt is not None and rt.value is not None
        detail = f"{wname} can return `{sval}` and no test at the head of bin2float takes it: the significand/exponent parser is reached and raises on a string without `p`"
        if ok:
            txt = norm_src(rt.value)
            want = "nan" if "nan" in sval else "inf" if "inf" in sval else "0"
            ok = want in txt
            detail = f"bin2float maps the spelling `{sval}` to `{txt}`"
        r.ob(rule, f"{REL}::bin2float reads the spelling `{sval}` written by {wname}", ok, detail, loc(REL, rt if rt is not None else b2f))


def check_nonfinite_multiword(r, repo, rule="R13.11"):
    """Infinities and NaN map to themselves where the format can express them - a list of floats can.  An infinite or NaN mpf has
    no mantissa (man == 0), so the word loop of mpf2multiword produces nothing for it and the converter back returns 0: the
    producer has to return the value itself as a single word *before* it unpacks the raw fields, as its sibling mpf2expansion
    does.  Decided structurally: on every path of mpf2multiword the unpacking `... = x._mpf_` is dominated by a test of the
    finiteness of x (isfinite / isinf / isnan) whose non-finite arm returns a word made from x itself."""
    from sa.paths import enumerate_paths

    f = repo.func(REL, "mpf2multiword")
    xname = f.args.args[1].arg
    n_paths, bad = 0, 0
    for p in enumerate_paths(f, unroll=(0,), limit=5000):
        idx = next((i for i, e in enumerate(p.events) if e.kind == "stmt" and isinstance(e.node, ast.Assign) and dotted(e.node.value) == f"{xname}._mpf_"), None)
        if idx is None:
            continue
        n_paths += 1
        guarded = any(e.kind == "test" and any(isinstance(c, ast.Call) and (dotted(c.func) or "").split(".")[-1] in ("isfinite", "isinf", "isnan") and any(dotted(a) == xname for a in c.args)
                                               for c in ast.walk(e.node)) for e in p.events[:idx])
        if not guarded:
            bad += 1
    if n_paths == 0:
        raise AnalysisError("mpf2multiword: unpacking of x._mpf_ not found on any path")
    # the non-finite arm returns a word built from x itself
    returns_self = False
    for node in ast.walk(f):
        if isinstance(node, ast.If) and any(isinstance(c, ast.Call) and (dotted(c.func) or "").split(".")[-1] in ("isfinite", "isinf", "isnan") for c in ast.walk(node.test)):
            for arm in (node.body, node.orelse):
                for st in arm:
                    if isinstance(st, ast.Return) and st.value is not None and any(isinstance(c, ast.Call) and (dotted(c.func) or "").split(".")[-1] == "mpf2float" and any(dotted(a) == xname for a in c.args)
                                                                               for c in ast.walk(st.value)):
                        returns_self = True
    r.ob(rule, f"{REL}::mpf2multiword returns a non-finite value as itself", bad == 0 and returns_self,
         "an infinite or NaN mpf has no mantissa: the word loop yields no word, mpf2multiword returns [] and multiword2mpf turns that into 0 - inf and nan do not map to themselves "
         "although a list of floats can express them (mpf2expansion returns [inf])", loc(REL, f))


def run(repo, tier):
    r = Report("C13", tier, repo, level="other", design_ref="§3/C13")
    r.explanation = (
        "Thin structural clause of C13: every literal table in utils.py that is keyed by numpy.float16/32/64 (converters, ULP "
        "distance, sample generators) and the mpmath backend's format tables are constant-evaluated and compared with the "
        "IEEE-754 binary16/32/64 parameters and with each other. Round-trip equalities on runtime values are NOT decided."
    )
    r.trusted_base = ["Python ast", "IEEE-754 binary16/32/64 parameters"]
    r.rule("R13.2", "float2expansion subtracts each word in the accumulator's own type (a Python float minus a numpy scalar is computed in the scalar's narrower type)", floor=1)
    r.rule("R13.4", "float2mpf: man * 2**exp == mantissa * 2**exponent identically, normalised to the float's own precision", floor=6)
    r.rule("R13.5", "mpf2multiword: every word carries x's sign, a slice (man & (mask << o)) >> o of its mantissa, the exponent exp + o and the slice's bit length; multiword2mpf sums every word once", floor=2)
    r.rule("R13.6", "mpf2float, bin2float, fraction2float, number2float: every returned value is constructed in the requested format (no NumPy promotion by an operand of another type)", floor=15)
    r.rule("R13.7", "converters: a constant +infinity is produced only under a test that distinguishes the sign of the converted value (infinities map to themselves)", floor=4)
    r.rule("R13.8", "the binary string round trip keeps the sign of zero: float2bin distinguishes the sign bit where it spells zero, bin2float turns the negative-zero spelling into a float negative zero", floor=2)
    r.rule("R13.9", "an expansion / multiword producer that can return the empty list (zero) is matched by a converter back that does not index it unguarded", floor=2)
    r.rule("R13.11", "mpf2multiword returns an infinite or NaN value as a single word before it touches the mantissa (infinities and NaN map to themselves)", floor=1)
    r.rule("R13.10", "every exponent-less spelling float2bin / mpf2bin can return (0, inf, -inf, nan ...) is taken by a test at the head of bin2float and mapped to the value it spells", floor=4)
    r.rule("R13.3", "float2fraction decodes the IEEE fields exactly: for every finite bit pattern num/denom equals (-1)^s * significand * 2^exponent", floor=18)
    r.rule("R13.1", "format tables agree with IEEE-754 binary16/32/64 (widths, exponent/significand bits, precision, exponent ranges)", floor=30)
    n = check_format_dicts(r, repo)
    n += check_mpmath_tables(r, repo)
    # R13.2: float2expansion residual
    fe = repo.func(REL, "float2expansion")
    word = None  # name bound to dtype(q)
    upd = []
    for n in ast.walk(fe):
        if isinstance(n, ast.Assign) and isinstance(n.targets[0], ast.Name) and isinstance(n.value, ast.Call) and dotted(n.value.func) == "dtype" and n.value.args and dotted(n.value.args[0]) == "q":
            word = n.targets[0].id
        if isinstance(n, ast.Assign) and dotted(n.targets[0]) == "q" and isinstance(n.value, ast.BinOp) and isinstance(n.value.op, ast.Sub):
            upd.append(n)
    if word is None or len(upd) != 1:
        raise AnalysisError("float2expansion: `f = dtype(q)` / `q = q - ...` not found")
    rhs = upd[0].value.right
    bare = isinstance(rhs, ast.Name) and rhs.id == word
    cast_ok = isinstance(rhs, ast.Call) and norm_src(rhs.func) in ("type(q)", "float", "numpy.float64", "fractions.Fraction", "float2fraction") and rhs.args and dotted(rhs.args[0]) == word
    r.ob("R13.2", f"{REL}::float2expansion residual update", cast_ok and not bare,
         f"`{norm_src(upd[0])}`: q may be a Python float (number2expansion accepts `float`); under NumPy's weak-scalar promotion `python_float - numpy.{'{dtype}'}` is "
         "computed in the narrower dtype, the residual rounds to 0 and the expansion loses its tail (value no longer equals the input)", loc(REL, upd[0]))
    check_float2fraction_algebra(r, repo)
    check_float2mpf(r, repo)
    check_mpf2multiword(r, repo)
    check_result_format(r, repo)
    check_infinity_sign(r, repo)
    check_signed_zero_string(r, repo)
    check_empty_expansion(r, repo)
    check_special_spellings(r, repo)
    check_nonfinite_multiword(r, repo)
    return r
