"""C12 (partial) — functional renormalisation conserves the exact sum; size-limit tables.  Rules R12.1, R12.2 (DESIGN.md §3/C12)."""

from __future__ import annotations

import ast
import warnings
from fractions import Fraction

from sa.core import AnalysisError, Report, loc, norm_src
from sa.paths import call_name, dotted
from sa.consteval import ev
from sa.numconst import PREC, EMAX, EMIN
from ir.frontend import load_package
from ir.normal import Importer, sym, T, Unmodelled

AP = "apmath.py"


# --------------------------------------------------------------------------- affine forms over atoms


class Aff:
    __slots__ = ("c", "k")

    def __init__(self, c=None, k=0):
        self.c = {a: Fraction(v) for a, v in (c or {}).items() if v != 0}
        self.k = Fraction(k)

    def __add__(self, o):
        c = dict(self.c)
        for a, v in o.c.items():
            c[a] = c.get(a, 0) + v
        return Aff(c, self.k + o.k)

    def __neg__(self):
        return Aff({a: -v for a, v in self.c.items()}, -self.k)

    def __sub__(self, o):
        return self + (-o)

    def is_zero(self):
        return not self.c and self.k == 0

    def key(self):
        return (tuple(sorted(self.c.items())), self.k)


_ATOM_TERMS = {}


def atom(x):
    """Atoms are keyed by identity of the hash-consed term (hashing nested tuples is linear in their size)."""
    _ATOM_TERMS[id(x)] = x
    return Aff({id(x): 1})


def in_span(target, eqs):
    """Is the affine form `target` a linear combination of the forms in eqs (each meaning form == 0)?  Gaussian elimination over Q."""
    rows = []
    for e in eqs:
        rows.append(dict(e.c, **({"__1__": e.k} if e.k else {})))
    t = dict(target.c, **({"__1__": target.k} if target.k else {}))
    # reduce rows
    pivots = []
    for row in rows:
        row = dict(row)
        for p, prow in pivots:
            if row.get(p):
                f = row[p] / prow[p]
                for a, v in prow.items():
                    row[a] = row.get(a, 0) - f * v
                row = {a: v for a, v in row.items() if v != 0}
        if row:
            p = sorted(row, key=str)[0]
            pivots.append((p, row))
    for p, prow in pivots:
        if t.get(p):
            f = t[p] / prow[p]
            for a, v in prow.items():
                t[a] = t.get(a, 0) - f * v
            t = {a: v for a, v in t.items() if v != 0}
    return not t


class NeedDecision(Exception):
    def __init__(self, cond):
        self.cond = cond


class Infeasible(Exception):
    pass


# --------------------------------------------------------------------------- evaluation of the imported DAG


class Evaluator:
    """Evaluate float-valued terms to affine forms and integer/boolean terms concretely, under a decision assignment."""

    def __init__(self, decisions, fast):
        self.dec = decisions  # term -> bool for atomic conditions ne(e, 0)
        self.fast = fast
        self.memo = {}
        self.eqs = []  # affine forms known to be 0 on this path
        self.atoms = 0
        self.twosum = 0

    def val(self, t):
        k = ("v", id(t))
        if k in self.memo:
            return self.memo[k]
        v = self._val(t)
        self.memo[k] = v
        return v

    def _val(self, t):
        k = t[0]
        if k == "sym":
            return atom(t)
        if k == "const":
            v = t[1]
            if v[0] == "num":
                return Aff({}, Fraction(float.fromhex(v[1])))
            if v[0] == "int":
                return Aff({}, v[1])
            raise Unmodelled(f"constant {v}")
        if k == "negative":
            return -self.val(t[1])
        if k in ("add", "subtract"):
            m = self.match_error_term(t)
            if m is not None:
                x, y, s = m
                self.twosum += 1
                return self.val(x) + self.val(y) - self.val(s)
            a, b = self.val(t[1]), self.val(t[2])
            exact = a + b if k == "add" else a - b
            # a rounded operation: its value is a fresh atom unless one side is identically zero (then it is exact)
            if a.is_zero() or b.is_zero():
                return exact
            self.atoms += 1
            return atom(t)
        if k == "select":
            if t[2] is t[3]:
                return self.val(t[2])
            c = self.cond(t[1])
            return self.val(t[2] if c else t[3])
        raise Unmodelled(f"float-valued kind {k}")

    def match_error_term(self, t):
        """t == (x - (s - z)) + (y - z) with z = s - x, s = x + y   (2Sum)   or   t == y - z (Fast2Sum)."""
        def is_(k, u):
            return isinstance(u, tuple) and u and u[0] == k
        if is_("add", t):
            for P, Q in ((t[1], t[2]), (t[2], t[1])):
                if is_("subtract", P) and is_("subtract", Q) and is_("subtract", P[2]):
                    x, (s, z) = P[1], (P[2][1], P[2][2])
                    y, z2 = Q[1], Q[2]
                    if z is z2 and is_("subtract", z) and z[1] is s and z[2] is x and is_("add", s) and ((s[1] is x and s[2] is y) or (s[1] is y and s[2] is x)):
                        return x, y, s
        if is_("subtract", t) and self.fast:
            y, z = t[1], t[2]
            if is_("subtract", z):
                s, x = z[1], z[2]
                if is_("add", s) and ((s[1] is x and s[2] is y) or (s[1] is y and s[2] is x)):
                    return x, y, s
        return None

    def cond(self, t):
        key = ("c", id(t))
        if key in self.memo:
            return self.memo[key]
        r = self._cond(t)
        self.memo[key] = r
        return r

    def _cond(self, t):
        k = t[0]
        if k == "const" and t[1][0] == "bool":
            return t[1][1]
        if k == "logical_and":
            return self.cond(t[1]) and self.cond(t[2])
        if k == "logical_or":
            return self.cond(t[1]) or self.cond(t[2])
        if k == "logical_not":
            return not self.cond(t[1])
        if k in ("ne", "eq"):
            a, b = t[1], t[2]
            if self.is_int(a) and self.is_int(b):
                r = self.ival(a) == self.ival(b)
                return r if k == "eq" else not r
            va, vb = self.val(a), self.val(b)
            d = va - vb
            if d.is_zero():
                nonzero = False
            elif not d.c:
                nonzero = True
            else:
                key = d.key()
                if key not in self.dec:
                    raise NeedDecision(key)
                nonzero = self.dec[key]
                if not nonzero and not any(e.key() == key for e in self.eqs):
                    self.eqs.append(d)
            return nonzero if k == "ne" else not nonzero
        if k in ("lt", "le", "gt", "ge") and self.is_int(t[1]) and self.is_int(t[2]):
            a, b = self.ival(t[1]), self.ival(t[2])
            return {"lt": a < b, "le": a <= b, "gt": a > b, "ge": a >= b}[k]
        if k in ("lt", "le", "gt", "ge"):
            # e.g. the dtype switch `largest > 1e38`: an uninterpreted boolean, both outcomes are explored
            key = ("uninterpreted", id(t))
            if key not in self.dec:
                raise NeedDecision(key)
            return self.dec[key]
        raise Unmodelled(f"condition kind {k}")

    def is_int(self, t):
        key = ("isint", id(t))
        if key not in self.memo:
            self.memo[key] = self._is_int(t)
        return self.memo[key]

    def ival(self, t):
        key = ("i", id(t))
        if key not in self.memo:
            self.memo[key] = self._ival(t)
        return self.memo[key]

    def _is_int(self, t):
        if t[0] == "const":
            return t[1][0] == "int" or (t[1][0] == "num" and False)
        if t[0] == "select":
            return self.is_int(t[2]) and self.is_int(t[3])
        if t[0] == "add":
            return self.is_int(t[1]) and self.is_int(t[2])
        return False

    def _ival(self, t):
        if t[0] == "const":
            v = t[1]
            return v[1] if v[0] == "int" else int(float.fromhex(v[1]))
        if t[0] == "select":
            if t[2] is t[3]:
                return self.ival(t[2])
            return self.ival(t[2]) if self.cond(t[1]) else self.ival(t[3])
        if t[0] == "add":
            return self.ival(t[1]) + self.ival(t[2])
        raise Unmodelled(f"integer kind {t[0]}")


def int_import_patch(importer):
    """Integer constants must stay integers (the generic importer folds small ints into floats)."""
    from ir import normal

    orig = normal._constval

    def cv(v):
        import numbers
        if isinstance(v, numbers.Integral) and not isinstance(v, bool):
            return ("int", int(v))
        return orig(v)

    return cv


def explore(outputs, inputs, fast, limit=20000):
    """Enumerate decision assignments by forking on demand; yield (decisions, ok, detail, stats)."""
    stack = [{}]
    n = 0
    while stack:
        dec = stack.pop()
        n += 1
        if n > limit:
            raise AnalysisError("too many case splits")
        ev_ = Evaluator(dec, fast)
        try:
            vals = [ev_.val(o) for o in outputs]
        except NeedDecision as nd:
            for b in (True, False):
                d2 = dict(dec)
                d2[nd.cond] = b
                stack.append(d2)
            continue
        total = Aff()
        for v in vals:
            total = total + v
        for i in inputs:
            total = total - atom(i)
        ok = in_span(total, ev_.eqs)
        yield dec, ok, total, ev_


class Poly:
    """Exact polynomial over formal atoms with rational coefficients (host value of the abstract interpreter)."""

    __absint_host__ = True

    def __init__(self, terms=None):
        self.t = {k: v for k, v in (terms or {}).items() if v != 0}

    @staticmethod
    def atom(name):
        from fractions import Fraction
        return Poly({(name,): Fraction(1)})

    @staticmethod
    def const(c):
        from fractions import Fraction
        return Poly({(): Fraction(c)})

    @staticmethod
    def lift(o):
        import numbers
        if isinstance(o, Poly):
            return o
        if isinstance(o, numbers.Rational) or isinstance(o, float):
            return Poly.const(o)
        return None

    def __add__(self, o):
        o = Poly.lift(o)
        if o is None:
            return NotImplemented
        d = dict(self.t)
        for k, v in o.t.items():
            d[k] = d.get(k, 0) + v
        return Poly(d)

    __radd__ = __add__

    def __neg__(self):
        return Poly({k: -v for k, v in self.t.items()})

    def __pos__(self):
        return self

    def __sub__(self, o):
        o = Poly.lift(o)
        return NotImplemented if o is None else self + (-o)

    def __rsub__(self, o):
        o = Poly.lift(o)
        return NotImplemented if o is None else o + (-self)

    def __mul__(self, o):
        o = Poly.lift(o)
        if o is None:
            return NotImplemented
        d = {}
        for k1, v1 in self.t.items():
            for k2, v2 in o.t.items():
                k = tuple(sorted(k1 + k2))
                d[k] = d.get(k, 0) + v1 * v2
        return Poly(d)

    __rmul__ = __mul__

    def __truediv__(self, o):
        o = Poly.lift(o)
        if o is None or set(o.t) != {()}:
            return NotImplemented
        return Poly({k: v / o.t[()] for k, v in self.t.items()})

    def __eq__(self, o):
        o = Poly.lift(o)
        return o is not None and self.t == o.t

    def __hash__(self):
        return hash(tuple(sorted(self.t.items())))

    def __repr__(self):
        if not self.t:
            return "0"
        return " + ".join(f"{v}*{'*'.join(k) if k else '1'}" for k, v in sorted(self.t.items()))


def check_product_accounting(r, repo, rule="R12.3", sizes=(1, 2, 3)):
    """add/subtract/multiply/square hand renormalize a list whose exact sum is the exact result.

    The function bodies are interpreted by the abstract interpreter (sa/absint.py) on symbolic expansions; the kernels are
    summarised by their contracts: two_prod(a, b) -> (p, a*b - p) with p a fresh atom (error-free product, C10), vecsum(l) ->
    fresh atoms whose sum is the sum of l (error-free, R12.1's subject), renormalize(l) is the sink.  Every product term,
    its error term and every doubling of an off-diagonal term of square() must be accounted for, or the polynomial identity
    fails."""
    from sa.absint import Interp, Closure, Unsupported as IUnsupported, PyRaise

    fresh = [0]

    class Ctx:
        __absint_host__ = True

        def constant(self, v, like=None):
            return Poly.const(v)

    def two_prod(ctx, a, b, *rest, **kw):
        fresh[0] += 1
        pa = Poly.atom(f"p{fresh[0]}")
        return (pa, a * b - pa)

    def vecsum(ctx, seq, *rest, **kw):
        seq = list(seq)
        if not seq:
            return []
        out = []
        for _ in seq[:-1]:
            fresh[0] += 1
            out.append(Poly.atom(f"v{fresh[0]}"))
        tot = Poly.const(0)
        for e in seq:
            tot = tot + e
        for o in out:
            tot = tot - o
        return out + [tot]

    sink = []

    sink_size = []

    def renormalize(ctx, seq, *rest, **kw):
        sink.append(list(seq))
        sink_size.append(kw.get("size", rest[2] if len(rest) > 2 else None))
        return list(seq)

    n_ob = 0
    cases = []
    for n1 in sizes:
        xs = [Poly.atom(f"x{i}") for i in range(n1)]
        sx = sum(xs, Poly.const(0))
        cases.append(("square", (xs,), {}, sx * sx, f"n={n1}"))
        for n2 in sizes:
            ys = [Poly.atom(f"y{i}") for i in range(n2)]
            sy = sum(ys, Poly.const(0))
            cases.append(("add", (xs, ys), {}, sx + sy, f"n=({n1},{n2})"))
            cases.append(("subtract", (xs, ys), {}, sx - sy, f"n=({n1},{n2})"))
            cases.append(("multiply", (xs, ys), {}, sx * sy, f"n=({n1},{n2})"))
            from fractions import Fraction
            scaled = sum((y * Fraction(1, 2 ** i) for i, y in enumerate(ys)), Poly.const(0))
            cases.append(("multiply", (xs, ys), {"base": 2}, sx * scaled, f"n=({n1},{n2}) base=2"))
            # a size limit truncates the renormalized result; it must not remove partial products or summands beforehand (the
            # package accepts overlapping expansions and expansions with zero items, whose high-order products are not small)
            for k in (1, 2):
                cases.append(("multiply", (xs, ys), {"size": k}, sx * sy, f"n=({n1},{n2}) size={k}"))
                cases.append(("add", (xs, ys), {"size": k}, sx + sy, f"n=({n1},{n2}) size={k}"))
        for k in (1, 2):
            cases.append(("square", (xs,), {"size": k}, sx * sx, f"n={n1} size={k}"))
    for fname, seqs, kw, want, tag in cases:
        for functional in (False, True):
            fn = repo.func(AP, fname)
            I = Interp(repo)
            for nm, impl in (("two_prod", two_prod), ("vecsum", vecsum), ("renormalize", renormalize)):
                I.globals_cache[(AP, nm)] = impl
            del sink[:]
            del sink_size[:]
            fresh[0] = 0
            clo = Closure(fn, {}, I, AP, bound_self=None)
            try:
                I.call(clo, [Ctx(), "DTYPE"] + [list(s_) for s_ in seqs], dict(kw, functional=functional))
            except (IUnsupported, PyRaise) as e:
                raise AnalysisError(f"{AP}::{fname} {tag}: not interpretable: {getattr(e, 'what', e)}")
            if len(sink) != 1:
                raise AnalysisError(f"{AP}::{fname} {tag}: renormalize is reached {len(sink)} times, expected once")
            got = sum(sink[0], Poly.const(0))
            ok = got == want
            # the size limit handed on is the caller's: no limit requested, none imposed (a default derived from the operand lengths
            # silently truncates the exact sum / difference, which can need len(seq1) + len(seq2) terms)
            size_ok = sink_size[0] == kw.get("size")
            n_ob += 1
            r.ob(rule, f"{AP}::{fname} {tag} functional={functional}", ok and size_ok,
                 (f"the terms handed to renormalize sum to {got!r}; the exact result is {want!r}; difference {got - want!r}" if not ok else
                  f"renormalize is called with size={sink_size[0]!r} although the caller asked for size={kw.get('size')!r}: the result is truncated to that many terms, "
                  "so it no longer equals the exact result whenever that needs more terms"), loc(AP, fn))
    return n_ob


def check_eager_renormalize(r, repo, rule="R12.4", sizes=(2, 3, 4, 5)):
    """The eager (functional=False) renormalize, interpreted by sa/absint.py on symbolic items for every sequence of
    `_is_nonzero` decisions: vecsum(l) -> fresh atoms e_i with sum(e) == sum(l), two_sum(a, b) -> (s, a + b - s) with s fresh; a
    decision `not _is_nonzero(v)` adds the fact v == 0.
      (a) size=None: on every decision path the returned items sum to the input sum (modulo the facts of the path);
      (b) size=k: the result is the first k items of the unlimited result on the same decisions - a size limit may truncate
          the output, it must not change which items are produced (seed C12d capped the loop by steps, not by emitted items)."""
    from fractions import Fraction
    from sa.absint import Interp, Closure, Unsupported as IUnsupported, PyRaise

    g = repo.func(AP, "renormalize")

    class V(Poly):
        __absint_host__ = True

        def __hash__(self):
            return id(self)

    def lift(p_):
        return p_ if isinstance(p_, V) else V(p_.t)

    def _wrap(name):
        base = getattr(Poly, name)

        def f(self, *a):
            out = base(self, *a)
            return V(out.t) if isinstance(out, Poly) and not isinstance(out, V) else out
        return f

    for _n in ("__add__", "__radd__", "__sub__", "__rsub__", "__mul__", "__rmul__", "__neg__"):
        setattr(V, _n, _wrap(_n))

    def subst(p_, sub):
        out = Poly.const(0)
        for mon, cf in p_.t.items():
            term = Poly.const(cf)
            for a_ in mon:
                term = term * (sub[a_] if a_ in sub else Poly.atom(a_))
            out = out + term
        return out

    def run(n, size, prefix):
        """-> (result list, decisions consumed [(value, polarity)], sum of inputs)"""
        dec = []
        cnt = [0]

        class Ctx:
            __absint_host__ = True

            def _is_nonzero(self, v):
                i = len(dec)
                val = prefix[i] if i < len(prefix) else True
                dec.append((v, val))
                return val

        xs = [V({(f"x{i}",): Fraction(1)}) for i in range(n)]
        total = Poly.const(0)
        for x_ in xs:
            total = total + x_

        def vecsum(ctx, seq, *a, **k):
            es = [V({(f"e{i}",): Fraction(1)}) for i in range(len(seq) - 1)]
            rest = Poly.const(0)
            for q in seq:
                rest = rest + q
            for e_ in es:
                rest = rest - e_
            return es + [lift(rest)]

        def two_sum(ctx, a, b, *rest, **kw):
            cnt[0] += 1
            s_ = V({(f"s{cnt[0]}",): Fraction(1)})
            return (s_, lift(a + b - s_))

        I = Interp(repo)
        I.globals_cache[(AP, "vecsum")] = vecsum
        I.globals_cache[(AP, "two_sum")] = two_sum
        try:
            out = I.call(Closure(g, {}, I, AP, bound_self=None), [Ctx(), list(xs)], dict(functional=False, size=size))
        except (IUnsupported, PyRaise, TypeError) as e:
            raise AnalysisError(f"{AP}::renormalize (eager) is not interpretable on symbolic items: {getattr(e, 'what', e)}")
        if not isinstance(out, list):
            raise AnalysisError("eager renormalize did not return a list")
        return out, dec, total

    def facts(dec):
        sub = {}
        for v, pol in dec:
            if pol or not isinstance(v, Poly):
                continue
            p_ = subst(Poly(dict(v.t)), sub)
            if not p_.t:
                continue
            # v == 0: solve for the newest atom that occurs linearly with coefficient +-1
            cands = [(mon[0], cf) for mon, cf in p_.t.items() if len(mon) == 1 and cf != 0 and not any(mon[0] in m and m != mon for m in p_.t)]
            if not cands:
                raise AnalysisError(f"eager renormalize: the fact `{p_!r} == 0` is not solvable for an atom")
            pick = sorted(cands, key=lambda c_: (c_[0][0] == "s", c_[0]))[-1]
            a_, cf = pick
            rest = p_ - Poly({(a_,): cf})
            sub = {k: subst(v2, {a_: rest * (-1 / cf)}) for k, v2 in sub.items()}
            sub[a_] = rest * (-1 / cf)
        return sub

    n_paths = 0
    for n in sizes:
        # enumerate decision paths of the unlimited run
        stack = [[]]
        full = {}
        while stack:
            prefix = stack.pop()
            out, dec, total = run(n, None, prefix)
            pols = tuple(p for _, p in dec)
            full[pols] = out
            n_paths += 1
            sub = facts(dec)
            ssum = Poly.const(0)
            for o in out:
                ssum = ssum + o
            d = subst(ssum - total, sub)
            r.ob(rule, f"{AP}::renormalize eager n={n} size=None decisions {''.join('N' if p else 'Z' for p in pols)}", not d.t,
                 f"sum(result) - sum(items) = `{d!r}` on this path: an item or an error term is lost", loc(AP, g))
            for i in range(len(prefix), len(dec)):
                stack.append([p for p in pols[:i]] + [not pols[i]])
        for k in range(1, n + 1):
            for pols, ref in full.items():
                out, dec, _ = run(n, k, list(pols))
                got = [Poly(dict(o.t)) for o in out]
                want = [Poly(dict(o.t)) for o in ref[:k]]
                ok = len(got) == len(want) and all(Poly.__eq__(a_, b_) for a_, b_ in zip(got, want))
                n_paths += 1
                r.ob(rule, f"{AP}::renormalize eager n={n} size={k} decisions {''.join('N' if p else 'Z' for p in pols)}", ok,
                     f"with size={k} the result is {[repr(o) for o in got]}, the first {k} item(s) of the unlimited result are {[repr(o) for o in want]}: "
                     "the size limit changes which items are produced, so terms that would have fitted are dropped", loc(AP, g))
    if n_paths < 20:
        raise AnalysisError(f"eager renormalize: only {n_paths} paths explored")



def check_nztopk(r, repo, rule="R12.5", sizes=(1, 2, 3, 4, 5)):
    """nztopk(ctx, seq, k) - the step that moves the zero items of the functional renormalize to the tail - is interpreted
    (sa/absint.py) for every list length n, every pattern of zero / non-zero items and every k in 1..n+2, with `select`,
    `logical_and`, `!=` and the integer counters evaluated concretely per pattern: the result must be the non-zero items in
    their order followed by zeros, min(k, n) items long.  A shortcut that returns the list as it is (seed C12f, for k > n)
    leaves zeros in front of non-zero items: the expansion is not in normal form and a second pass does not repair it."""
    import itertools
    from sa.absint import Interp, Closure, Unsupported as IUnsupported, PyRaise

    g = repo.func(AP, "nztopk")

    class Item:
        __absint_host__ = True

        def __init__(self, name, nonzero):
            self.name, self.nonzero = name, nonzero

        def __ne__(self, o):
            if isinstance(o, Item) and o.name == "0":
                return self.nonzero
            return NotImplemented

        def __eq__(self, o):
            if isinstance(o, Item) and o.name == "0":
                return not self.nonzero
            return NotImplemented

        def __hash__(self):
            return id(self)

        def __add__(self, o):
            if not isinstance(o, Item):
                return NotImplemented
            if self.name == "0":
                return o
            if o.name == "0":
                return self
            return Item(f"({self.name}+{o.name})", True)

        __radd__ = __add__

        def __repr__(self):
            return self.name

    ZERO = Item("0", False)

    class Ctx:
        __absint_host__ = True

        def constant(self, v, like=None):
            if isinstance(like, Item):
                if v != 0:
                    raise IUnsupported("non-zero item constant")
                return ZERO
            return int(v)

        def select(self, c, a, b):
            if not isinstance(c, bool):
                raise IUnsupported(f"select on a non-boolean {c!r}")
            return a if c else b

        def logical_and(self, a, b):
            return bool(a) and bool(b)

        def logical_or(self, a, b):
            return bool(a) or bool(b)

        def logical_not(self, a):
            return not a

    n_cases = 0
    bad = None
    for n in sizes:
        for pat in itertools.product((True, False), repeat=n):
            for k in range(1, n + 3):
                seq = [Item(f"x{i}", pat[i]) if pat[i] else Item(f"z{i}", False) for i in range(n)]
                I = Interp(repo)
                try:
                    out = I.call(Closure(g, {}, I, AP, bound_self=None), [Ctx(), list(seq), k])
                except (IUnsupported, PyRaise, TypeError) as e:
                    raise AnalysisError(f"{AP}::nztopk is not interpretable for n={n}, k={k}: {getattr(e, 'what', e)}")
                n_cases += 1
                nz = [it.name for it in seq if it.nonzero]
                want = (nz + ["0"] * n)[: min(k, n)]
                got = [("0" if (isinstance(o, Item) and not o.nonzero) else getattr(o, "name", repr(o))) for o in out] if isinstance(out, list) else None
                if got != want and bad is None:
                    bad = (n, k, ["x" if p_ else "0" for p_ in pat], got, want)
    r.ob(rule, f"{AP}::nztopk moves the zero items to the tail (n <= {max(sizes)}, every zero pattern, k = 1..n+2)", bad is None,
         "" if bad is None else f"nztopk of the pattern {bad[2]} with k={bad[1]} returns {bad[3]}, expected {bad[4]}: zeros are left in front of non-zero items, so the functional "
         "renormalize (and add / subtract / multiply / square, which pass the maximal size of the dtype as k) does not return a normal form", loc(AP, g),
         sample=dict(rule=rule, cases=n_cases))



def check_fast_mode_precondition(r, repo, rule="R12.6"):
    """fast=True replaces 2Sum by Fast2Sum, whose error term is a + b - s only when |a| >= |b| (exponent of a not below that of b).
    The property quantifies over all finite expansions, overlapping or not, in fast and safe mode, and the documented precondition
    of renormalize is only "absolute values decreasing".  In vecsum the second operand of the fast sum is the *accumulated sum of
    the tail*, which can exceed the next item although the items decrease (0.1199, 0.1094, 0.0405: the tail sums to 0.1499) - so
    the order |a| >= |b| has to be established where the fast sum is applied: by a test or selection on the magnitudes, or by
    ordering the operands.  Decided structurally: a call that forwards the fast flag to the summation kernel with a loop-carried
    accumulator as an operand, with no magnitude comparison in the function."""
    n = 0
    for fname in ("vecsum", "renormalize"):  # vecsumerr is not called by the package
        f = repo.func(AP, fname)
        params = [a.arg for a in f.args.args]
        if "fast" not in params:
            continue
        guards = [c for c in ast.walk(f) if isinstance(c, ast.Compare) and any(isinstance(x, ast.Call) and (dotted(x.func) or "").split(".")[-1] in ("abs", "absolute", "fabs") for x in ast.walk(c))]
        carried = set()
        for loop in [x for x in ast.walk(f) if isinstance(x, (ast.For, ast.While))]:
            for st in ast.walk(loop):
                if isinstance(st, ast.Assign):
                    for t in st.targets:
                        for nm in ([t] if isinstance(t, ast.Name) else list(t.elts) if isinstance(t, ast.Tuple) else []):
                            if isinstance(nm, ast.Name) and any(isinstance(y, ast.Name) and y.id == nm.id for y in ast.walk(st.value)):
                                carried.add(nm.id)
        for c in ast.walk(f):
            if not isinstance(c, ast.Call):
                continue
            nm = (call_name(c) or "").split(".")[-1]
            fast_fwd = any(isinstance(k.value, ast.Name) and k.value.id == "fast" and k.arg in ("assume_fma", "fast") for k in c.keywords)
            quick = nm == "quick_two_sum"
            if not ((nm in ("two_sum", "add_2sum") and fast_fwd) or quick):
                continue
            ops = [a for a in c.args[1:3]]
            acc = [a for a in ops if isinstance(a, ast.Name) and a.id in carried]
            if not acc:
                continue
            n += 1
            r.ob(rule, f"{AP}::{fname} fast sum with an accumulated operand has its operand order established", bool(guards),
                 f"in fast mode `{norm_src(c)[:90]}` is a Fast2Sum whose operand `{acc[0].id}` is a sum accumulated over the rest of the list; its magnitude is not bounded by the "
                 "other operand for decreasing (let alone arbitrary) input, and nothing in the function compares magnitudes: float16 renormalize([-0.11993, -0.1094, -0.04047], "
                 "fast=True) returns [-0.2698, 6.104e-05], whose sum differs from the input's by 2^-14", loc(AP, c))
    if n == 0:
        raise AnalysisError("apmath: no fast-mode summation with an accumulated operand was recognised (vecsum / renormalize)")


def run(repo, tier):
    r = Report("C12", tier, repo, level="other", design_ref="§3/C12")
    r.explanation = (
        "(R12.1) exact-sum conservation of the functional (select-based) renormalize: the expression DAG of "
        "apmath.renormalize(ctx, [x0..x_{n-1}], functional=True) is obtained through the package's tracer (constructed, not evaluated) "
        "and interpreted in an affine-equality domain: every recognised 2Sum (or, with fast=True, Fast2Sum) pair (s, t) gives "
        "val(t) = val(a)+val(b)-val(s) exactly, every other rounded operation is a fresh atom; the conditions `e != 0` are case-split "
        "(taking `e == 0` adds the linear constraint val(e)=0), the integer bookkeeping of nztopk is evaluated concretely per case; in "
        "every case sum(outputs) - sum(inputs) must vanish modulo the constraints (Gaussian elimination over Q). (R12.2) the maximal "
        "expansion-size tables agree with (maxexp-minexp-machep)//(-negep-1). Non-overlap/ordering, the two-pass claim, product and "
        "square error bounds and the eager variant are NOT decided."
    )
    r.trusted_base = ["package tracer as front end", "Knuth 2Sum / Dekker Fast2Sum exactness (absent overflow)", "exact rational Gaussian elimination"]
    r.assumptions = ["no overflow in intermediate sums", "fast=True: |a| >= |b| at every Fast2Sum (the documented precondition of the fast mode)",
                     "infeasible case splits are checked too (sound for a universal claim)"]
    r.rule("R12.1", "functional renormalize: in every case split, sum(outputs) == sum(inputs) exactly (affine-equality domain)", floor=8)
    r.rule("R12.3", "add/subtract/multiply/square hand renormalize a list whose exact sum is the exact sum/difference/product/square (two_prod and vecsum summarised by their error-free contracts)", floor=40)
    r.rule("R12.4", "eager renormalize on every sequence of is-nonzero decisions: the unlimited result sums to the input sum, and a size limit returns a prefix of the unlimited result", floor=20)
    r.rule("R12.6", "fast mode: where Fast2Sum is applied to an accumulated sum, the order |a| >= |b| of its operands is established in the function (the exact sum is preserved for every finite expansion)", floor=1)
    r.rule("R12.5", "nztopk returns the non-zero items in order followed by zeros for every zero pattern and every k (zeros at the tail of the functional normal form)", floor=1)
    r.rule("R12.2", "maximal expansion size tables equal (maxexp - minexp - machep) // (-negep - 1) for float16/32/64", floor=3)

    for rel in (AP, "floating_point_algorithms.py", "context.py", "expr.py"):
        repo.source(rel)
    check_product_accounting(r, repo, sizes=(1, 2, 3) if tier == "quick" else (1, 2, 3, 4, 5))
    check_eager_renormalize(r, repo, sizes=(2, 3, 4, 5) if tier == "quick" else (2, 3, 4, 5, 6, 7))
    check_nztopk(r, repo, sizes=(1, 2, 3, 4, 5) if tier == "quick" else (1, 2, 3, 4, 5, 6, 7))
    check_fast_mode_precondition(r, repo)
    fa = load_package(repo.root)
    from ir import normal
    apmath = fa.apmath
    sizes = (2, 3, 4, 5) if tier == "quick" else (2, 3, 4, 5, 6, 7)
    fasts = (False, True)
    for fast in fasts:
        for n in sizes:
            names = [f"x{i}" for i in range(n)]

            def f(ctx, *xs):
                return apmath.renormalize(ctx, list(xs), functional=True, fast=fast)

            # build a def with n float parameters for the tracer (it reads the signature)
            src = "def renorm(ctx, " + ", ".join(f"{a}: float" for a in names) + "):\n    return _ap.renormalize(ctx, [" + ", ".join(names) + f"], functional=True, fast={fast})\n"
            ns = {"_ap": apmath}
            exec(src, ns)  # construction of the traced wrapper only; nothing is evaluated numerically
            ctx = fa.Context(paths=[fa.algorithms])
            with warnings.catch_warnings():
                warnings.simplefilter("ignore")
                try:
                    g = ctx.trace(ns["renorm"], *[f"{a}:float64" for a in names])
                except Exception as e:  # noqa
                    raise AnalysisError(f"tracing renormalize(n={n}, fast={fast}) failed: {type(e).__name__}: {e}")
            body = g.operands[-1]
            if body.kind != "list":
                raise AnalysisError("renormalize did not trace to a list")
            saved = normal._constval
            imp = Importer(fa.expr.Expr, {a: sym(a) for a in names})
            normal._constval = int_import_patch(imp)
            try:
                outs = [imp.real(o) for o in body.operands]
            finally:
                normal._constval = saved
            inputs = [sym(a) for a in names]
            ncase = 0
            bad = None
            stats = None
            try:
                for dec, ok, total, ev_ in explore(outs, inputs, fast):
                    ncase += 1
                    stats = ev_
                    if not ok and bad is None:
                        bad = (dec, total)
            except Unmodelled as e:
                raise AnalysisError(f"renormalize(n={n}, fast={fast}): {e}")
            if stats is not None and stats.twosum == 0:
                raise AnalysisError(f"renormalize(n={n}, fast={fast}): no 2Sum pair recognised in the traced graph")
            detail = ""
            if bad:
                detail = (f"in the case {len(bad[0])} conditions fixed ({sum(1 for v in bad[0].values() if not v)} of them `== 0`), sum(outputs) - sum(inputs) does not vanish: "
                          f"residual has {len(bad[1].c)} terms, e.g. coefficient {list(bad[1].c.values())[:3]}")
            r.ob("R12.1", f"{AP}::renormalize functional n={n} fast={fast}", bad is None, detail, loc(AP, repo.func(AP, "renormalize")),
                 sample=dict(rule="R12.1", n=n, fast=fast, cases=ncase, graph_nodes=len(imp.memo), twosum_pairs=stats.twosum if stats else 0))
            r.extra.setdefault("case_splits", {})[f"n={n},fast={fast}"] = ncase

    # ------------------------------------------------------------------ R12.2 size tables
    def formula(b):
        maxexp, minexp, machep, negep = EMAX[b] + 1, EMIN[b], -(PREC[b] - 1), -PREC[b]
        return (maxexp - minexp - machep) // (-negep - 1)
    bits_of = {"numpy.float16": 16, "numpy.float32": 32, "numpy.float64": 64}
    found = 0
    for rel in (AP, "floating_point_algorithms.py"):
        for d in [x for x in ast.walk(repo.tree(rel)) if isinstance(x, ast.Dict)]:
            keys = [norm_src(k) for k in d.keys if k is not None]
            if set(keys) == set(bits_of) and all(isinstance(ev(v), int) for v in d.values):
                vals = {bits_of[norm_src(k)]: ev(v) for k, v in zip(d.keys, d.values)}
                # is it a size table?  it is assigned to / compared with max_size
                par = getattr(d, "_parent", None)
                ctxt = norm_src(par) if par is not None else ""
                gp = getattr(par, "_parent", None)
                if "max_size" not in ctxt and not (gp is not None and "max_size" in norm_src(gp)):
                    continue
                found += 1
                for b, v in vals.items():
                    r.ob("R12.2", f"{rel} max_size table float{b} (line-independent: {'renormalize' if rel == AP else 'make_api'})", v == formula(b),
                         f"maximal expansion length for float{b} is {v}; (maxexp - minexp - machep) // (-negep - 1) = {formula(b)}: a smaller cap silently drops the last term of a "
                         "legitimate expansion, a larger one is never reached", loc(rel, d))
    if found < 1:
        raise AnalysisError("no max_size table found in apmath.py / floating_point_algorithms.py")
    return r
