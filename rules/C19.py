"""C19 (partial) — sample generators: guarded divisors/indices, faithful product forwarding.  Rules R19.1, R19.2."""

from __future__ import annotations

import ast
import math

from sa.consteval import ev
from sa.core import AnalysisError, Report, loc, norm_src, enclosing_function, canon_locals, canon_src
from sa.paths import dotted, calls_in, call_name
from sa.domfacts import dominating_facts

REL = "utils.py"
INF = math.inf


def _refine(interval, test, pol, var):
    """Refine the interval of integer variable `var` by `test` holding with polarity pol."""
    lo, hi = interval
    if isinstance(test, ast.BoolOp) and isinstance(test.op, ast.And) and pol:
        for v in test.values:
            lo, hi = _refine((lo, hi), v, True, var)
        return lo, hi
    if isinstance(test, ast.BoolOp) and isinstance(test.op, ast.Or) and not pol:
        for v in test.values:
            lo, hi = _refine((lo, hi), v, False, var)
        return lo, hi
    if isinstance(test, ast.UnaryOp) and isinstance(test.op, ast.Not):
        return _refine(interval, test.operand, not pol, var)
    if not (isinstance(test, ast.Compare) and len(test.ops) == 1):
        return lo, hi
    l, r = test.left, test.comparators[0]
    op = type(test.ops[0])
    # normalise to  var (op) const
    def lin(n):
        # var + c  /  var - c / var / const
        if isinstance(n, ast.Name) and n.id == var:
            return (1, 0)
        if isinstance(n, ast.Constant) and isinstance(n.value, int) and not isinstance(n.value, bool):
            return (0, n.value)
        if isinstance(n, ast.BinOp) and isinstance(n.op, (ast.Add, ast.Sub)):
            a, b = lin(n.left), lin(n.right)
            if a is None or b is None:
                return None
            s = 1 if isinstance(n.op, ast.Add) else -1
            return (a[0] + s * b[0], a[1] + s * b[1])
        return None
    a, b = lin(l), lin(r)
    if a is None or b is None:
        return lo, hi
    coef, const = a[0] - b[0], b[1] - a[1]  # coef*var (op) const
    if coef == 0:
        return lo, hi
    flip = {ast.Lt: ast.Gt, ast.Gt: ast.Lt, ast.LtE: ast.GtE, ast.GtE: ast.LtE, ast.Eq: ast.Eq, ast.NotEq: ast.NotEq}
    if coef < 0:
        op, coef, const = flip.get(op, op), -coef, -const
    if coef != 1:
        return lo, hi
    neg = {ast.Lt: ast.GtE, ast.GtE: ast.Lt, ast.Gt: ast.LtE, ast.LtE: ast.Gt, ast.Eq: ast.NotEq, ast.NotEq: ast.Eq}
    if not pol:
        op = neg.get(op, None)
    if op is ast.Lt:
        hi = min(hi, const - 1)
    elif op is ast.LtE:
        hi = min(hi, const)
    elif op is ast.Gt:
        lo = max(lo, const + 1)
    elif op is ast.GtE:
        lo = max(lo, const)
    elif op is ast.Eq:
        lo, hi = max(lo, const), min(hi, const)
    elif op is ast.NotEq:
        if lo == const:
            lo += 1
        if hi == const:
            hi -= 1
    return lo, hi


def interval_at(node, func, var):
    iv = (-INF, INF)
    for test, pol, killed in dominating_facts(node, func):
        if var in killed:
            continue
        iv = _refine(iv, test, pol, var)
    # clamps: the most recent dominating `var = max(var, c)` / `max(c, var)`
    return iv


def check_zero_bound_bit_pattern(r, repo, f, rule="R19.7"):
    """A branch of real_samples that is entered under a *non-strict* comparison of a bound with zero (`min_value >= dtype(0)`,
    `max_value <= -dtype(0)`) is also entered with the zero of the other sign: -0.0 >= 0 and 0.0 <= -0 are true.  The bit pattern of
    that bound then has the wrong sign bit; used as the start of an unsigned integer range it puts every sample outside the
    requested bounds.  So inside such a branch `<bound>.view(<unsigned type>)` must be taken from a sign-normalised value
    (abs(.), -abs(.), copysign) - the other bound of the branch cannot be a zero (the bounds differ and are ordered)."""
    n = 0
    for node in ast.walk(f):
        if not isinstance(node, ast.If):
            continue
        t = node.test
        if not (isinstance(t, ast.Compare) and len(t.ops) == 1 and isinstance(t.ops[0], (ast.GtE, ast.LtE)) and isinstance(t.left, ast.Name)):
            continue
        c = t.comparators[0]
        inner = c.operand if isinstance(c, ast.UnaryOp) and isinstance(c.op, ast.USub) else c
        is_zero = (isinstance(inner, ast.Constant) and inner.value == 0) or (isinstance(inner, ast.Call) and len(inner.args) == 1 and isinstance(inner.args[0], ast.Constant) and inner.args[0].value == 0)
        if not is_zero:
            continue
        bound = t.left.id
        from sa.core import inline_locals
        views = [v for st in node.body for v in ast.walk(st) if isinstance(v, ast.Call) and isinstance(v.func, ast.Attribute) and v.func.attr == "view"]
        # the receiver with single-definition locals replaced by their definitions (a helper's parameter, a named intermediate)
        recv = {id(v): inline_locals(v.func.value, f) for v in views}
        raw = [v for v in views if isinstance(recv[id(v)], ast.Name) and recv[id(v)].id == bound]
        normalised = [v for v in views if not isinstance(recv[id(v)], ast.Name) and any(isinstance(x, ast.Name) and x.id == bound for x in ast.walk(recv[id(v)]))
                      and any(isinstance(x, ast.Call) and (dotted(x.func) or "").split(".")[-1] in ("abs", "fabs", "absolute", "copysign") for x in ast.walk(recv[id(v)]))]
        if not raw and not normalised:
            continue
        n += 1
        r.ob(rule, f"{REL}::real_samples branch `{norm_src(t)}` takes the bit pattern of a sign-normalised `{bound}`", not raw,
             f"the branch is entered for `{bound}` equal to the zero of the other sign as well (`{norm_src(t)}` does not see the sign of zero) and uses `{norm_src(raw[0]) if raw else ''}`: "
             "the bit pattern of that zero has the wrong sign bit, the unsigned range starts at the wrong end and the samples leave the requested bounds "
             "(real_samples(10, min_value=-0.0, max_value=2) starts at -1e26)", loc(REL, raw[0] if raw else node))
    if n < 2:
        raise AnalysisError(f"real_samples: only {n} single-sign branches entered under a comparison of a bound with zero were recognised")


def run(repo, tier):
    r = Report("C19", tier, repo, level="other", design_ref="§3/C19")
    r.explanation = (
        "Structural clauses of C19: (R19.1) interval analysis of the sample count `num` from the conditions that dominate each "
        "`// (num - 1)` divisor and each negative index into the generated array in real_samples (facts from enclosing branches, "
        "asserts and early exits; no guard means the recursive calls with size 0/1 reach a zero divisor or an empty array); "
        "(R19.2) every inner call of the product generators forwards each shared option as P=P and uses axis k's size and bounds "
        "in the k-th call. Monotonicity, bounds inclusion and ULP-uniform spacing of returned arrays are NOT decided."
    )
    r.trusted_base = ["Python ast", "dominance in structured code (sa/domfacts.py)"]
    r.rule("R19.1", "real_samples: every `// (num - 1)` has num - 1 != 0 and every negative index has enough elements, on all dominating facts", floor=5)
    r.rule("R19.3", "real_samples: every returning path whose value is built from min_value/max_value passes the include_subnormal bound adjustment first", floor=1)
    r.rule("R19.4", "real_samples: the bit-pattern offset of every sample is computed in exact integer arithmetic (no true division, float literal or float call)", floor=3)
    r.rule("R19.5", "real_samples: for every sample count 2..33, 100, 1000 and ten bit-pattern distances up to 2**63-1 the offsets start at 0, end at the distance, never decrease and are equally spaced up to one unit", floor=3)
    r.rule("R19.7", "real_samples: in a single-sign branch entered under a non-strict comparison of a bound with zero, the bit pattern of that bound is taken from a sign-normalised value (a zero of the other sign passes the comparison)", floor=2)
    r.rule("R19.6", "real_samples: the recursive negative part starts at the requested min_value, the positive part ends at the requested max_value, both with the caller's dtype and include_subnormal", floor=6)
    r.rule("R19.2", "product generators forward every shared option unchanged and axis k's size/bounds to the k-th inner call", floor=30)

    from sa.core import inline_helpers

    f = inline_helpers(repo, REL, repo.func(REL, "real_samples"))
    cn = canon_locals(f)
    # arrays whose length is the sample count: built from `... for i in range(0, COUNT * step, step)` or a call with num=COUNT
    count_of = {}
    for st in ast.walk(f):
        if isinstance(st, ast.Assign) and len(st.targets) == 1 and isinstance(st.targets[0], ast.Name):
            for x in ast.walk(st.value):
                cnt = None
                if isinstance(x, ast.comprehension) and isinstance(x.iter, ast.Call) and dotted(x.iter.func) == "range" and len(x.iter.args) == 3:
                    stop, step = x.iter.args[1], x.iter.args[2]
                    if isinstance(stop, ast.BinOp) and isinstance(stop.op, ast.Mult) and isinstance(step, ast.Name):
                        others = [o for o in (stop.left, stop.right) if not (isinstance(o, ast.Name) and o.id == step.id)]
                        if len(others) == 1 and isinstance(others[0], ast.Name):
                            cnt = others[0].id
                if isinstance(x, ast.Call):
                    for kw in x.keywords:
                        if kw.arg == "num" and isinstance(kw.value, ast.Name):
                            cnt = kw.value.id
                if cnt:
                    count_of.setdefault(st.targets[0].id, set()).add(cnt)
    sites = 0
    for n in ast.walk(f):
        if isinstance(n, ast.BinOp) and isinstance(n.op, (ast.FloorDiv, ast.Div, ast.Mod)):
            d = n.right
            var = None
            if isinstance(d, ast.BinOp) and isinstance(d.op, ast.Sub) and isinstance(d.left, ast.Name) and isinstance(d.right, ast.Constant) and isinstance(d.right.value, int):
                var, c = d.left.id, d.right.value
            elif isinstance(d, ast.Name) and any(isinstance(a_, ast.comprehension) for a_ in _ancestors(n)):
                var, c = d.id, 0
            if var is not None:
                sites += 1
                lo, hi = interval_at(n, f, var)
                ok = not (lo <= c <= hi)
                # which enclosing branch (for a stable key)
                br = _branch_key(n, f, cn)
                r.ob(
                    "R19.1",
                    f"{REL}::real_samples divisor `{canon_src(d, cn)}` in branch [{br}]",
                    ok,
                    f"`{norm_src(n)}`: nothing that dominates this statement excludes {var} == {c} (interval of {var} here: [{lo}, {hi}]); "
                    f"with {var} == {c} the comprehension runs once and divides by zero — reachable through the recursive calls with size=neg_num/pos_num",
                    loc(REL, n),
                )
        if isinstance(n, ast.Subscript) and isinstance(n.slice, ast.UnaryOp) and isinstance(n.slice.op, ast.USub) and isinstance(n.slice.operand, ast.Constant):
            k = n.slice.operand.value
            arr = dotted(n.value)
            if arr not in count_of:
                continue
            if len(count_of[arr]) != 1:
                raise AnalysisError(f"real_samples: array {arr} is built with different counts {sorted(count_of[arr])}")
            cvar = next(iter(count_of[arr]))
            sites += 1
            lo, hi = interval_at(n, f, cvar)
            ok = lo >= k
            r.ob(
                "R19.1",
                f"{REL}::real_samples index [-{k}] of the sample array of `{cn.get(cvar, cvar) if isinstance(cn, dict) else cvar}` elements in branch [{_branch_key(n, f, cn)}]",
                ok,
                f"`{norm_src(n)}` needs at least {k} element(s) but the array has `{cvar}` elements and nothing dominating the statement gives {cvar} >= {k} (interval [{lo}, {hi}])",
                loc(REL, n),
            )
    if sites < 5:
        raise AnalysisError(f"real_samples: only {sites} divisor/index sites recognised (expected 5)")

    # ------------------------------------------------------------------ R19.4 offsets are exact integers
    EXACT = (ast.FloorDiv, ast.Mult, ast.Add, ast.Sub, ast.Mod, ast.LShift, ast.RShift, ast.BitAnd, ast.BitOr, ast.BitXor)
    n_off = 0
    for x in ast.walk(f):
        if isinstance(x, (ast.ListComp, ast.GeneratorExp)) and len(x.generators) == 1:
            g = x.generators[0]
            if not (isinstance(g.iter, ast.Call) and dotted(g.iter.func) == "range" and isinstance(g.target, ast.Name)):
                continue
            if g.target.id not in {m.id for m in ast.walk(x.elt) if isinstance(m, ast.Name)}:
                continue
            # only comprehensions whose result becomes an integer array that is added to a bit pattern
            par = getattr(x, "_parent", None)
            if not (isinstance(par, ast.Call) and (call_name(par) or "").split(".")[-1] in ("array", "asarray", "fromiter")):
                continue
            n_off += 1
            bad = None
            for m in ast.walk(x.elt):
                if isinstance(m, ast.BinOp) and not isinstance(m.op, EXACT):
                    bad = f"`{norm_src(m)}` uses {type(m.op).__name__}"
                elif isinstance(m, ast.Constant) and not (isinstance(m.value, int) and not isinstance(m.value, bool)):
                    bad = f"the non-integer literal {m.value!r}"
                elif isinstance(m, ast.Call) and (call_name(m) or "") not in ("int", "abs", "min", "max", "divmod"):
                    bad = f"the call `{norm_src(m)}`"
                elif isinstance(m, ast.UnaryOp) and not isinstance(m.op, (ast.USub, ast.UAdd, ast.Invert)):
                    bad = f"`{norm_src(m)}`"
            r.ob(
                "R19.4",
                f"{REL}::real_samples bit-pattern offsets in branch [{_branch_key(x, f, cn)}]",
                bad is None,
                f"the offset `{norm_src(x.elt)}` of the k-th sample from the first bit pattern is not computed in integer arithmetic ({bad}): "
                "for float64 the offsets reach 2**63 and a float64 intermediate keeps 53 bits, so interior samples drift and the ULP gaps "
                "between neighbours differ by far more than one",
                loc(REL, x),
            )
            if bad is not None:
                continue
            # R19.5: the offsets as a function of the sample count C and the bit-pattern distance S, on a finite model
            names = {m.id for m in ast.walk(x.elt) if isinstance(m, ast.Name)} | {m.id for a in g.iter.args for m in ast.walk(a) if isinstance(m, ast.Name)}
            names.discard(g.target.id)
            stepv = g.iter.args[2].id if len(g.iter.args) == 3 and isinstance(g.iter.args[2], ast.Name) else None
            cvars = names - {stepv}
            key5 = f"{REL}::real_samples offsets as a function of (count, distance) in branch [{_branch_key(x, f, cn)}]"
            if stepv is None or len(cvars) != 1:
                r.ob("R19.5", key5, False, f"`{norm_src(x)}`: the range is not `range(0, count * distance, distance)` over one count and one distance variable", loc(REL, x))
                continue
            cvar = next(iter(cvars))
            fail5 = None
            n_models = 0
            BUILT = {"int": int, "abs": abs, "min": min, "max": max, "divmod": divmod}
            for C in list(range(2, 34)) + [100, 1000]:
                for S in (1, 2, 3, 7, 100, 2**23 - 1, 2**31 + 5, 2**52 + 1, 2**62 + 12345, 2**63 - 1):
                    envm = {cvar: C, stepv: S}
                    ra = [ev(a, envm, calls=BUILT) for a in g.iter.args]
                    if not all(isinstance(v, int) for v in ra):
                        fail5 = f"range arguments not integer for count={C}, distance={S}"
                        break
                    offs = [ev(x.elt, dict(envm, **{g.target.id: i}), calls=BUILT) for i in range(*ra)]
                    n_models += 1
                    if not all(isinstance(o, int) and not isinstance(o, bool) for o in offs):
                        fail5 = f"offsets are not integers for count={C}, distance={S} (e.g. {offs[:3]})"
                    elif len(offs) != C:
                        fail5 = f"count={C}, distance={S}: {len(offs)} offsets are generated, not {C}"
                    elif offs[0] != 0 or offs[-1] != S:
                        fail5 = f"count={C}, distance={S}: the offsets run from {offs[0]} to {offs[-1]}, so the samples do not start at the lower bound and end at the upper bound (0 .. {S})"
                    else:
                        gaps = [b - a for a, b in zip(offs, offs[1:])]
                        if min(gaps) < 0 or max(gaps) - min(gaps) > 1:
                            fail5 = f"count={C}, distance={S}: consecutive offsets differ by {min(gaps)} .. {max(gaps)}: not monotone / not equally spaced up to one unit"
                    if fail5:
                        break
                if fail5:
                    break
            r.ob("R19.5", key5, fail5 is None, f"`{norm_src(x.elt)}` over `{norm_src(g.iter)}`: {fail5}", loc(REL, x),
                 sample=dict(rule="R19.5", models=n_models))
    if n_off < 3:
        raise AnalysisError(f"real_samples: only {n_off} offset comprehensions recognised (expected 3)")

    # ------------------------------------------------------------------ R19.6 the recursive halves of a mixed-sign range
    # real_samples splits [min_value, max_value] with min_value < 0 < max_value into a negative and a positive part by calling
    # itself; the array returned is concatenate([negative part, (zero), positive part]).  The part listed first must start at
    # the requested min_value, the part listed last must end at the requested max_value, and both get the caller's dtype and
    # include_subnormal.
    f0 = repo.func(REL, "real_samples")
    rec = {}
    for st in ast.walk(f0):
        if isinstance(st, ast.Assign) and len(st.targets) == 1 and isinstance(st.targets[0], ast.Name) and isinstance(st.value, ast.Call) \
                and (call_name(st.value) or "") == "real_samples":
            rec[st.targets[0].id] = st.value
    n_rec = 0
    for n in ast.walk(f0):
        if isinstance(n, ast.Call) and (call_name(n) or "").endswith("concatenate") and n.args and isinstance(n.args[0], (ast.List, ast.Name)):
            if isinstance(n.args[0], ast.List):
                elts = list(n.args[0].elts)
            else:
                # a list built up statement by statement: `pieces = [a]`, `pieces.append(b)` ... in source order
                lname = n.args[0].id
                built = []
                for st in ast.walk(f0):
                    if isinstance(st, ast.Assign) and len(st.targets) == 1 and isinstance(st.targets[0], ast.Name) and st.targets[0].id == lname and isinstance(st.value, ast.List):
                        built.append((st.lineno, st.col_offset, list(st.value.elts)))
                    elif isinstance(st, ast.Expr) and isinstance(st.value, ast.Call) and isinstance(st.value.func, ast.Attribute) and st.value.func.attr in ("append", "extend") \
                            and isinstance(st.value.func.value, ast.Name) and st.value.func.value.id == lname and len(st.value.args) == 1:
                        a0 = st.value.args[0]
                        built.append((st.lineno, st.col_offset, [a0] if st.value.func.attr == "append" else (list(a0.elts) if isinstance(a0, ast.List) else [a0])))
                elts = [e for _, _, es in sorted(built, key=lambda t: t[:2]) for e in es]
            names = [e.id for e in elts if isinstance(e, ast.Name) and e.id in rec]
            if len(names) != 2:
                continue
            n_rec += 1
            for part, bound, what in ((names[0], "min_value", "first (negative) part"), (names[-1], "max_value", "last (positive) part")):
                kws = {k.arg: k.value for k in rec[part].keywords}
                v = kws.get(bound)
                ok = isinstance(v, ast.Name) and v.id == bound
                r.ob("R19.6", f"{REL}::real_samples {what} of a mixed-sign range keeps the requested {bound}", ok,
                     f"the {what} is built with {bound}=`{norm_src(v) if v is not None else None}`: the samples then do not start/end at the requested bound "
                     "(they leave the range or do not cover it) unless the bounds happen to be symmetric", loc(REL, rec[part]))
                for opt in ("dtype", "include_subnormal"):
                    v2 = kws.get(opt)
                    r.ob("R19.6", f"{REL}::real_samples {what} forwards {opt}", isinstance(v2, ast.Name) and v2.id == opt,
                         f"the {what} is built with {opt}=`{norm_src(v2) if v2 is not None else None}`", loc(REL, rec[part]))
    if n_rec == 0:
        raise AnalysisError("real_samples: the concatenation of the recursive negative and positive parts was not found")

    # ------------------------------------------------------------------ R19.3 bounds are adjusted before they are used
    check_bounds_adjusted_before_use(r, repo, f)
    check_zero_bound_bit_pattern(r, repo, f)

    # ------------------------------------------------------------------ R19.2
    callee_params = {}
    for nm in ("real_samples", "complex_samples"):
        g = repo.func(REL, nm)
        callee_params[nm] = [a.arg for a in g.args.args]
    wrappers = {
        "complex_samples": ("real_samples", 2),
        "real_pair_samples": ("real_samples", 2),
        "complex_pair_samples": ("complex_samples", 2),
        "real_triple_samples": ("real_samples", 3),
    }
    AXIS = {"size", "min_value", "max_value", "min_real_value", "max_real_value", "min_imag_value", "max_imag_value"}
    for w, (callee, naxes) in wrappers.items():
        g = repo.func(REL, w)
        wparams = [a.arg for a in g.args.args]
        calls = sorted((c for c in calls_in(g) if (call_name(c) or "") == callee), key=lambda c: (c.lineno, c.col_offset))
        r.ob("R19.2", f"{REL}::{w} has {naxes} inner {callee} calls", len(calls) == naxes, f"found {len(calls)} inner calls", loc(REL, g))
        cparams = callee_params[callee]
        for k, c in enumerate(calls):
            # map arguments to parameter names
            bound = {}
            for i, a in enumerate(c.args):
                if i < len(cparams):
                    bound[cparams[i]] = a
            for kw in c.keywords:
                if kw.arg is not None:
                    bound[kw.arg] = kw.value
            for p in wparams:
                if p in AXIS or p not in cparams:
                    continue
                key = f"{REL}::{w} call {k} forwards {p}"
                a = bound.get(p)
                ok = a is not None and isinstance(a, ast.Name) and a.id == p
                r.ob("R19.2", key, ok,
                     f"inner {callee} call #{k} " + (f"passes {p}={norm_src(a)}" if a is not None else f"does not pass `{p}` (the callee default is used)") + f"; the wrapper's `{p}` must be forwarded unchanged",
                     loc(REL, c))
            # axis parameters
            a = bound.get("size")
            ok = a is not None and isinstance(a, ast.Subscript) and dotted(a.value) == "size" and isinstance(a.slice, ast.Constant) and a.slice.value == k
            r.ob("R19.2", f"{REL}::{w} call {k} size axis", ok, f"inner call #{k} uses size=`{norm_src(a) if a is not None else None}`, expected size[{k}]", loc(REL, c))
            for p, a in bound.items():
                if p in AXIS and p != "size":
                    txt = norm_src(a)
                    if callee == "real_samples" and w == "complex_samples":
                        want = ("real" if k == 0 else "imag")
                        ok = want in txt and p.split("_")[0] in txt
                        detail = f"{p}={txt}: the {'real' if k == 0 else 'imaginary'} axis must receive the {want} bound of the same side"
                    else:
                        # the k-th component of the per-axis sequence made from the wrapper's parameter of the same name
                        src_param = None
                        if isinstance(a, ast.Subscript) and isinstance(a.value, ast.Name):
                            defs = [st for st in ast.walk(g) if isinstance(st, ast.Assign) and any(isinstance(t, ast.Name) and t.id == a.value.id for t in st.targets)]
                            srcs = set()
                            for df in defs:
                                v = df.value
                                if isinstance(v, ast.Call) and (call_name(v) or "").endswith("_fix_limit_value") and v.args:
                                    srcs.add(dotted(v.args[0]))
                                else:
                                    # (None,) * n, (param,) * n or param itself: every parameter the definition reads
                                    srcs |= {x.id for x in ast.walk(v) if isinstance(x, ast.Name) and x.id in wparams}
                            if not defs and a.value.id in wparams:
                                srcs.add(a.value.id)
                            if len(srcs) == 1:
                                src_param = next(iter(srcs))
                        ok = isinstance(a, ast.Subscript) and src_param == p and isinstance(a.slice, ast.Constant) and a.slice.value == k
                        detail = f"{p}={txt}: expected component {k} of the per-axis sequence made from the wrapper's `{p}` (found source `{src_param}`)"
                    r.ob("R19.2", f"{REL}::{w} call {k} {p}", ok, detail, loc(REL, c))
            # bounds present at all
            need = [p for p in cparams if p in AXIS and p != "size"]
            for p in need:
                if p not in bound:
                    r.ob("R19.2", f"{REL}::{w} call {k} {p}", False, f"inner call #{k} does not pass {p}", loc(REL, c))
    return r


def check_bounds_adjusted_before_use(r, repo, f, rule="R19.3"):
    """Every returning path of real_samples whose result is built from min_value/max_value has passed the
    `include_subnormal` decision (the block that moves subnormal bounds to zero / the smallest normal) before the
    first statement that produces output from the bounds; otherwise a subnormal bound reaches the output although
    subnormals were not requested (and the degenerate-interval exit sees unadjusted bounds)."""
    from sa.paths import enumerate_paths
    from sa.defuse import origins

    BOUNDS = {"min_value", "max_value"}

    def mentions(test):
        return any(isinstance(x, ast.Name) and x.id == "include_subnormal" for x in ast.walk(test))

    if not any(isinstance(x, (ast.If, ast.While, ast.IfExp)) and mentions(x.test) for x in ast.walk(f)):
        raise AnalysisError("real_samples: no decision on include_subnormal found")
    # only the paths that never take a decision on include_subnormal are enumerated
    npaths = 0
    bad = {}
    for path in enumerate_paths(f, unroll=(0, 1), limit=400000, cut=mentions):
        npaths += 1
        if path.exit != "return":
            continue
        ev_ = path.events
        last = ev_[-1]
        if not (last.kind == "stmt" and isinstance(last.node, ast.Return) and last.node.value is not None):
            continue
        org = origins(last.node.value, ev_, len(ev_) - 1)
        if any(k[0] == "name" and k[1] in BOUNDS for k in org):
            bad.setdefault(last.node.lineno, last.node)
    for ln, node in sorted(bad.items()):
        r.ob(rule, f"{REL}::real_samples `{norm_src(node)[:60]}` after the subnormal-bound adjustment", False,
             "a path reaches this return without having tested include_subnormal: the bounds it uses were not moved out of the subnormal range", loc(REL, node))
    if not bad:
        r.ob(rule, f"{REL}::real_samples returns use adjusted bounds", True, f"none of the {npaths} paths that avoid the include_subnormal decision returns a value built from the bounds", loc(REL, f))


def _ancestors(n):
    # comprehension nodes are not parents of their element: report the comprehension of an enclosing ListComp/GeneratorExp
    while n is not None:
        n = getattr(n, "_parent", None)
        if isinstance(n, (ast.ListComp, ast.GeneratorExp, ast.SetComp)):
            yield from n.generators
        if n is not None:
            yield n


def _branch_key(node, func, cn=None):
    conds = []
    for test, pol, _ in dominating_facts(node, func):
        par = getattr(test, "_parent", None)
        if isinstance(par, ast.If) and any(node is x or _contains(x, node) for x in par.body + par.orelse):
            conds.append(("" if pol else "not ") + (canon_src(test, cn) if cn else norm_src(test)))
    return " & ".join(reversed(conds[:3]))


def _contains(a, b):
    for x in ast.walk(a):
        if x is b:
            return True
    return False
