"""C11 — is_power_of_two and next() derived for every significand (R11.1, R11.2); error-free accounting of the compound operations (R11.3-R11.5)."""

from __future__ import annotations

import ast
import re
from fractions import Fraction

from sa.core import AnalysisError, Report, loc, norm_src, fresh_copy
from sa.consteval import ev, Opaque, NameRef
from sa.paths import dotted, calls_in, call_name
from sa.numconst import BITS, PREC, dtype_switch, round_to, significant_bits

REL = "floating_point_algorithms.py"


def _formula_env(p):
    return {"p": p}


class _Finfo(ast.NodeTransformer):
    """Replace numpy.finfo attributes / get_precision(dtype) by their IEEE values for one format."""

    def __init__(self, bits, names):
        self.p = PREC[bits]
        self.names = names  # local names bound to numpy.finfo(dtype)
        fsz = self.p - 1
        ebits = {16: 5, 32: 8, 64: 11}[bits]
        self.attrs = dict(negep=-self.p, machep=-(self.p - 1), nmant=fsz, bits=bits, nexp=ebits, iexp=ebits,
                          maxexp=2 ** (ebits - 1), minexp=2 - 2 ** (ebits - 1))
        self.unknown = None

    def _is_finfo(self, n):
        if isinstance(n, ast.Name) and n.id in self.names:
            return True
        return isinstance(n, ast.Call) and (dotted(n.func) or "").endswith("finfo")

    def visit_Attribute(self, n):
        if self._is_finfo(n.value):
            if n.attr not in self.attrs:
                self.unknown = n.attr
                return n
            return ast.copy_location(ast.Constant(self.attrs[n.attr]), n)
        return self.generic_visit(n)

    def visit_Call(self, n):
        if (dotted(n.func) or "").endswith("get_precision"):
            return ast.copy_location(ast.Constant(self.p), n)
        return self.generic_visit(n)


def precision_expr_ok(func, node):
    """p must evaluate to the precision (11/24/53) of every format; returns (ok, detail)."""
    import copy

    names = set()
    for st in ast.walk(func):
        if isinstance(st, ast.Assign) and isinstance(st.value, ast.Call) and (dotted(st.value.func) or "").endswith("finfo"):
            names |= {t.id for t in st.targets if isinstance(t, ast.Name)}
    got = {}
    for bits in BITS:
        tr = _Finfo(bits, names)
        e = tr.visit(fresh_copy(node))
        if tr.unknown:
            return False, f"uses finfo.{tr.unknown}, which this check does not model"
        v = ev(e, {})
        got[bits] = v
    ok = all(got[b] == PREC[b] for b in BITS)
    return ok, f"`{norm_src(node)}` evaluates to {got} for float16/32/64; the precision is {dict((b, PREC[b]) for b in BITS)}"


def next_direction_ok(ret, cname="c"):
    """next(x, up): moving away from zero divides by c < 1, moving towards zero multiplies.  Semantic: evaluate the
    selected arm on x = +-1, c = 1/2 for both directions."""
    v = ret.value
    if not (isinstance(v, ast.IfExp)):
        return False, "return value is not a conditional on `up`"
    res = {}
    for up in (True, False):
        t = ev(v.test, {"up": up})
        if not isinstance(t, bool):
            return False, f"direction test `{norm_src(v.test)}` is not decided by `up`"
        arm = v.body if t else v.orelse
        if not (isinstance(arm, ast.Call) and (call_name(arm) or "").endswith("select") and len(arm.args) == 3):
            return False, f"arm `{norm_src(arm)}` is not a select"
        for x in (1.0, -1.0):
            c = ev(arm.args[0], {"x": x, cname: 0.5})
            if not isinstance(c, bool):
                return False, f"condition `{norm_src(arm.args[0])}` is not a sign test of x"
            val = ev(arm.args[1] if c else arm.args[2], {"x": x, cname: 0.5})
            if not isinstance(val, float):
                return False, f"selected value `{norm_src(arm.args[1] if c else arm.args[2])}` is not arithmetic in x and c"
            res[(up, x)] = val
    want = {(True, 1.0): 2.0, (True, -1.0): -0.5, (False, 1.0): 0.5, (False, -1.0): -2.0}
    bad = {k: (res[k], want[k]) for k in want if res[k] != want[k]}
    return not bad, (f"with c = 1/2: (up, x) -> result {res}" + (f"; expected {want}" if bad else ""))


def check_eft_accounting(r, repo, rule="R11.4"):
    """3Sum / double-word addition / 4Sum / dot2 / mul_add: error-free accounting under exact-arithmetic semantics.

    The bodies are interpreted (sa/absint.py) on exact polynomials with the kernels summarised by their contracts: 2Sum(a, b) ->
    (s, a + b - s), Dekker product(x, y) -> (p, x*y - p) with s, p fresh symbols.  add_3sum must return (s, e, t) with
    s + e + t == x + y + z for every choice of s; for the rounded results (add_dw, add_4sum, dot2, mul_add) the arm selected
    when the residual t vanishes, plus that residual, must equal the exact result, and every other arm must be that arm's base
    plus a multiple of the correction term (zh, zh + r, zh + 3/2 r).  A dropped, duplicated or mis-signed error term breaks the
    identity.  The rounding decision itself (which arm) and the ULP bounds are not decided."""
    from fractions import Fraction
    from sa.absint import Interp, Closure, Unsupported as IUnsupported, PyRaise
    from rules.C12 import Poly

    class Cond:
        __absint_host__ = True

        def __init__(self, op, a, b):
            self.op, self.a, self.b = op, a, b

    class RV(Poly):
        __absint_host__ = True

        def _c(op):
            def f(self, o):
                return Cond(op, self, o)
            return f

        __eq__, __ne__, __lt__, __le__, __gt__, __ge__ = _c("=="), _c("!="), _c("<"), _c("<="), _c(">"), _c(">=")

        def __hash__(self):
            return id(self)

        def same(self, o):
            return Poly.__eq__(self, o)

    def _wrap(name):
        base = getattr(Poly, name)

        def f(self, *a):
            if a and isinstance(a[0], Sel):
                return NotImplemented
            out = base(self, *a)
            return RV(out.t) if isinstance(out, Poly) and not isinstance(out, RV) else out
        return f

    def rv(p):
        return p if isinstance(p, (RV, Sel)) else RV(p.t)

    def A(name):
        return RV({(name,): Fraction(1)})

    class Sel:
        __absint_host__ = True

        def __init__(self, c, a, b, decision=False):
            self.c, self.a, self.b = c, a, b
            self.decision = decision  # made by ctx.select in the interpreted code (not derived by arithmetic on a selection)

        def _arith(self, other, f):
            # arithmetic on a selected value distributes over the arms; two selections on the same condition are paired arm by arm
            if isinstance(other, Sel) and other.c is self.c:
                return Sel(self.c, f(self.a, other.a), f(self.b, other.b))
            return Sel(self.c, f(self.a, other), f(self.b, other))

        def __sub__(self, o):
            return self._arith(o, lambda u, v: u - v)

        def __rsub__(self, o):
            return self._arith(o, lambda u, v: v - u)

        def __add__(self, o):
            return self._arith(o, lambda u, v: u + v)

        __radd__ = __add__

        def __mul__(self, o):
            return self._arith(o, lambda u, v: u * v)

        __rmul__ = __mul__

        def __neg__(self):
            return Sel(self.c, -self.a, -self.b)

        def _cmp(op):
            def f(self, o):
                return Cond(op, self, o)
            return f

        __eq__, __ne__, __lt__, __le__, __gt__, __ge__ = _cmp("=="), _cmp("!="), _cmp("<"), _cmp("<="), _cmp(">"), _cmp(">=")

        def __hash__(self):
            return id(self)

    for _n in ("__add__", "__radd__", "__sub__", "__rsub__", "__mul__", "__rmul__", "__neg__", "__truediv__"):
        setattr(RV, _n, _wrap(_n))

    class Ctx:
        __absint_host__ = True

        def select(self, c, a, b):
            return Sel(c, a, b, decision=True)

        def constant(self, v, like=None):
            return v if isinstance(v, (RV, Sel)) else RV({(): Fraction(v)})

    fresh = [0]

    def two_sum(ctx, a, b, *rest, **kw):
        fresh[0] += 1
        s_ = A(f"s{fresh[0]}")
        return (s_, rv(a + b - s_))

    def dekker(ctx, x, y, *rest, **kw):
        fresh[0] += 1
        p_ = A(f"p{fresh[0]}")
        return (p_, rv(x * y - p_))

    def leaves(v):
        if isinstance(v, Sel):
            return leaves(v.a) + leaves(v.b)
        return [v]

    def zero_tests(v, out):
        # the rounding decision is an if / elif chain: follow the else-arms only (the arms themselves may be selections
        # made by an inner kernel, whose own zero tests are about that kernel's result)
        node = v
        while isinstance(node, Sel) and node.decision:
            c = node.c
            if isinstance(c, Cond) and c.op == "==" and isinstance(c.b, (int, float)) and c.b == 0:
                out.append((c.a, node.a))
            node = node.b
        return out

    def interpret(fname, args, keep=()):
        fresh[0] = 0
        I = Interp(repo)
        for nm, impl in (("add_2sum", two_sum), ("mul_dekker", dekker), ("is_power_of_two", lambda *a, **k: Cond("pow2", a[1], None))):
            if nm not in keep:
                I.globals_cache[(REL, nm)] = impl
        g = repo.func(REL, fname)
        try:
            return I.call(Closure(g, {}, I, REL, bound_self=None), [Ctx()] + list(args)), g
        except (IUnsupported, PyRaise, TypeError) as e:
            raise AnalysisError(f"{REL}::{fname} is not interpretable on exact polynomials: {getattr(e, 'what', e)}")

    x, y, z, w, Q, P, T32, C = (A(n) for n in ("x", "y", "z", "w", "Q", "P", "three_over_two", "C"))
    # ---- 3Sum: exact decomposition
    out, g = interpret("add_3sum", [x, y, z, Q, P, T32])
    if not (isinstance(out, tuple) and len(out) == 3):
        raise AnalysisError("add_3sum does not return a triple")

    def total_of(parts):
        """sum of values that may be selections: all combinations of arms"""
        sums = [Poly.const(0)]
        for p_ in parts:
            sums = [s_ + l for s_ in sums for l in leaves(p_)]
        return sums

    # s, e, t are correlated selections of the same conditions: the sum is formed arm by arm through Sel arithmetic
    tot = out[0] + out[1] + out[2] if not isinstance(out[0], Sel) else out[0] + (out[1] + out[2])
    arms = leaves(tot)
    want = x + y + z
    ok = all(isinstance(a_, Poly) and Poly.__eq__(a_, want) for a_ in arms)
    r.ob(rule, f"{REL}::add_3sum s + e + t == x + y + z", ok,
         f"{len(arms)} arm combination(s); offending sums: {[repr(a_ - want) for a_ in arms if not (isinstance(a_, Poly) and Poly.__eq__(a_, want))][:2]}", loc(REL, g))
    # ---- rounded results
    cases = [
        ("add_dw", [A("xh"), A("xl"), A("yh"), A("yl"), Q, P, T32], A("xh") + A("xl") + A("yh") + A("yl")),
        ("add_4sum", [x, y, z, w, Q, P, T32], x + y + z + w),
        ("dot2", [x, y, z, w, C, Q, P, T32], x * y + z * w),
        ("mul_add", [x, y, z, C, Q, P, T32], x * y + z),
    ]
    for fname, args, exact in cases:
        out, g = interpret(fname, args)
        zt = zero_tests(out, [])
        if not zt:
            raise AnalysisError(f"{REL}::{fname}: no `residual == 0` selection found in the result")
        okz = True
        detail = ""
        n_arms = 0
        for resid, arm in zt:
            # arm and residual may be selections on the same conditions: add them arm by arm, then look at every combination
            tot = arm + resid if isinstance(arm, (Sel, Poly)) else None
            for l in leaves(tot):
                n_arms += 1
                if not (isinstance(l, Poly) and Poly.__eq__(l, exact)):
                    okz = False
                    detail = f"(arm + residual) = `{l!r}` differs from the exact result by {(l - exact)!r}" if isinstance(l, Poly) else "non-polynomial arm"
        r.ob(rule, f"{REL}::{fname} arm taken when the residual vanishes + residual == exact result", okz, detail or f"{n_arms} arm combination(s)", loc(REL, g))


def check_fma_accounting(r, repo, rule="R11.5"):
    """Emulated FMA (apmath.fma and apmath_algorithms.fma_real, algorithms a7 / a8 / a9, possibly_zero_z on and off).

    The bodies are interpreted on exact polynomials with two_prod -> (p, x*y - p), two_sum / quick_two_sum -> (s, a + b - s)
    (fresh atoms p, s; the recorded pairs are the error-free transformations of the trace).  With exact = x*y + z:
      (i)  some arm of the result is exact, or differs from exact by the error word of the last 2Sum only (the word the
           rounding decision is about) - a dropped, duplicated or mis-signed term breaks this;
      (ii) an arm selected by a zero test `E == 0` is judged under the facts of that test (E an input: the input is zero; E the
           error word of a 2Sum: that sum is exact; a 2Sum with a zero operand returns the other operand and a zero error):
           the arm must then be exact, or be the high word of a recorded error-free pair whose low word is exactly the
           remainder - i.e. the correctly rounded value by the kernel's contract.  A shortcut taken under a test that does
           not imply this (seed C11d: `sl == 0` instead of `z == 0`) drops a word that matters.
    The rounding decisions themselves (9/8, 7/8, 3/2 multipliers) and the ULP bound are not decided."""
    from fractions import Fraction
    from sa.absint import Interp, Closure, Unsupported as IUnsupported, PyRaise
    from rules.C12 import Poly

    class Cond:
        __absint_host__ = True

        def __init__(self, op, a, b):
            self.op, self.a, self.b = op, a, b

    def _c(op):
        def f(self, o):
            return Cond(op, self, o)
        return f

    class RV(Poly):
        __absint_host__ = True
        __eq__, __ne__, __lt__, __le__, __gt__, __ge__ = _c("=="), _c("!="), _c("<"), _c("<="), _c(">"), _c(">=")

        def __hash__(self):
            return id(self)

    class Sel:
        __absint_host__ = True

        def __init__(self, c, a, b):
            self.c, self.a, self.b = c, a, b

        def _arith(self, other, f):
            if isinstance(other, Sel) and other.c is self.c:
                return Sel(self.c, f(self.a, other.a), f(self.b, other.b))
            return Sel(self.c, f(self.a, other), f(self.b, other))

        def __add__(self, o):
            return self._arith(o, lambda u, v: u + v)

        __radd__ = __add__

        def __sub__(self, o):
            return self._arith(o, lambda u, v: u - v)

        def __rsub__(self, o):
            return self._arith(o, lambda u, v: v - u)

        def __mul__(self, o):
            return self._arith(o, lambda u, v: u * v)

        __rmul__ = __mul__

        def __neg__(self):
            return Sel(self.c, -self.a, -self.b)

        __eq__, __ne__, __lt__, __le__, __gt__, __ge__ = _c("=="), _c("!="), _c("<"), _c("<="), _c(">"), _c(">=")

        def __hash__(self):
            return id(self)

    def _wrap(name):
        base = getattr(Poly, name)

        def f(self, *a):
            if a and isinstance(a[0], Sel):
                return NotImplemented
            out = base(self, *a)
            return RV(out.t) if isinstance(out, Poly) and not isinstance(out, RV) else out
        return f

    for _n in ("__add__", "__radd__", "__sub__", "__rsub__", "__mul__", "__rmul__", "__neg__", "__truediv__"):
        setattr(RV, _n, _wrap(_n))

    def rv(p_):
        return p_ if isinstance(p_, (RV, Sel)) else RV(p_.t)

    def A(name):
        return RV({(name,): Fraction(1)})

    class Ctx:
        __absint_host__ = True

        def select(self, c, a, b):
            return Sel(c, a, b)

        def constant(self, v, like=None):
            return v if isinstance(v, (RV, Sel)) else RV({(): Fraction(v)})

        def logical_or(self, a, b):
            return Cond("or", a, b)

        def logical_and(self, a, b):
            return Cond("and", a, b)

        def logical_not(self, a):
            return Cond("not", a, None)

        def _assume_same_dtype(self, *a):
            return None

    class _Dtype:
        __absint_host__ = True

    def subst(p_, sub):
        """substitute atoms by polynomials"""
        out = Poly.const(0)
        for mon, cf in p_.t.items():
            term = Poly.const(cf)
            for a_ in mon:
                term = term * (sub[a_] if a_ in sub else Poly.atom(a_))
            out = out + term
        return out

    FPA = "floating_point_algorithms.py"
    sites = [("apmath_algorithms.py", "fma_real", False), ("apmath.py", "fma", True)]
    n_checked = 0
    for rel, fname, has_dtype in sites:
        g = repo.func(rel, fname)
        for algorithm in ("a7", "a8", "a9"):
            for pzz in (True, False):
                pairs = []  # (kind, hi atom name, lo polynomial, operands)
                cnt = [0]

                def two_sum(ctx, a, b, *rest, **kw):
                    cnt[0] += 1
                    if isinstance(a, Sel) or isinstance(b, Sel):
                        raise AnalysisError(f"{rel}::{fname}[{algorithm}]: 2Sum of a selected value is not modelled")
                    s_ = A(f"s{cnt[0]}")
                    lo = rv(a + b - s_)
                    pairs.append(("sum", f"s{cnt[0]}", lo, (a, b)))
                    return (s_, lo)

                def two_prod(ctx, x_, y_, *rest, **kw):
                    cnt[0] += 1
                    p_ = A(f"p{cnt[0]}")
                    lo = rv(x_ * y_ - p_)
                    pairs.append(("prod", f"p{cnt[0]}", lo, (x_, y_)))
                    return (p_, lo)

                I = Interp(repo)
                for nm, impl in (("two_sum", two_sum), ("quick_two_sum", two_sum), ("two_prod", two_prod)):
                    I.globals_cache[("apmath.py", nm)] = impl
                for nm in ("is_power_of_two", "is_one_or_three_times_power_of_two"):
                    I.globals_cache[(FPA, nm)] = (lambda *a, **k: Cond("pow2", a[1], None))
                x, y, z = A("x"), A("y"), A("z")
                args = [Ctx()] + ([_Dtype()] if has_dtype else []) + [x, y, z]
                key = f"{rel}::{fname}[{algorithm}, possibly_zero_z={pzz}]"
                try:
                    out = I.call(Closure(g, {}, I, rel, bound_self=None), args, dict(algorithm=algorithm, possibly_zero_z=pzz))
                except (IUnsupported, PyRaise, TypeError) as e:
                    raise AnalysisError(f"{key} is not interpretable on exact polynomials: {getattr(e, 'what', e)}")
                exact = x * y + z
                leaves = []

                def walk(v, path):
                    if isinstance(v, Sel):
                        walk(v.a, path + [(v.c, True)])
                        walk(v.b, path + [(v.c, False)])
                    else:
                        leaves.append((path, v))

                walk(out, [])
                if not leaves or not all(isinstance(l, Poly) for _, l in leaves):
                    raise AnalysisError(f"{key}: result is not a selection tree of polynomials")
                last_sum = [pr for pr in pairs if pr[0] == "sum"][-1] if any(pr[0] == "sum" for pr in pairs) else None
                # (i) full-precision arm
                ok_i = False
                for _, l in leaves:
                    d = Poly(dict((exact - l).t))
                    if not d.t or (last_sum is not None and Poly.__eq__(d, Poly(dict(last_sum[2].t)))):
                        ok_i = True
                worst = min((Poly(dict((exact - l).t)) for _, l in leaves), key=lambda d: len(d.t))
                r.ob(rule, f"{key} accounts for every word", ok_i,
                     f"no arm of the result equals x*y + z up to the error word of the last 2Sum; the closest arm leaves `{worst!r}`", loc(rel, g))
                n_checked += 1
                # (iii) an arm that leaves a remainder and is justified by "the remainder vanishes" must test that remainder
                def disjuncts(c):
                    if isinstance(c, Cond) and c.op == "or":
                        return disjuncts(c.a) + disjuncts(c.b)
                    return [c]

                def input_zero_test(c):
                    return isinstance(c, Cond) and c.op == "==" and isinstance(c.b, (int, float)) and c.b == 0 and isinstance(c.a, Poly) \
                        and len(c.a.t) == 1 and list(c.a.t.values()) == [1] and len(next(iter(c.a.t))) == 1

                for path, l in leaves:
                    d = Poly(dict((exact - l).t))
                    if not d.t:
                        continue
                    if any(pol and input_zero_test(c) for c, pol in path):
                        continue  # an arm taken because an input is zero is judged under that fact by (ii)
                    for c, pol in path:
                        if not pol:
                            continue
                        for dj in disjuncts(c):
                            if isinstance(dj, Cond) and dj.op == "==" and isinstance(dj.b, (int, float)) and dj.b == 0 and isinstance(dj.a, Poly):
                                E = Poly(dict(dj.a.t))
                                single_atom = len(E.t) == 1 and list(E.t.values()) == [1] and len(next(iter(E.t))) == 1
                                if not E.t or single_atom:
                                    continue  # identically zero probes and tests of an input are judged by (ii)
                                n_checked += 1
                                okr = Poly.__eq__(E, d)
                                r.ob(rule, f"{key} arm with remainder `{d!r}` is justified by a zero test of that remainder", okr,
                                     f"the arm `{l!r}` leaves `{d!r}` of x*y + z unaccounted and is taken when `{E!r} == 0` (or its alternative) holds: that "
                                     "is a zero test of another word - when it holds the remainder need not vanish and the rounding correction is skipped "
                                     "or applied in a meaningless direction (e.g. fma(3, RN(1/3), -1))", loc(rel, g))
                # (ii) arms selected by a zero test
                for path, l in leaves:
                    zt = [(c, pol) for c, pol in path if isinstance(c, Cond) and c.op == "==" and isinstance(c.b, (int, float)) and c.b == 0 and pol]
                    if not zt:
                        continue
                    sub = {}
                    described = []
                    for c, _ in zt:
                        E = c.a
                        if not isinstance(E, Poly):
                            continue
                        if len(E.t) == 1 and list(E.t.values()) == [1] and len(next(iter(E.t))) == 1:
                            sub[next(iter(E.t))[0]] = Poly.const(0)
                            described.append(f"{next(iter(E.t))[0]} == 0")
                        else:
                            for kind, hi, lo, ops in pairs:
                                if kind == "sum" and Poly.__eq__(Poly(dict(lo.t)), Poly(dict(E.t))):
                                    sub[hi] = Poly(dict(ops[0].t)) + Poly(dict(ops[1].t))
                                    described.append(f"the 2Sum {hi} is exact")
                    # a 2Sum with a zero operand returns the other operand
                    for _ in range(len(pairs) + 1):
                        for kind, hi, lo, ops in pairs:
                            if kind == "sum" and hi not in sub:
                                a_, b_ = subst(Poly(dict(ops[0].t)), sub), subst(Poly(dict(ops[1].t)), sub)
                                if not a_.t:
                                    sub[hi] = b_
                                elif not b_.t:
                                    sub[hi] = a_
                        # substitutions may mention substituted atoms
                        sub = {k: subst(v, {kk: vv for kk, vv in sub.items() if kk != k}) for k, v in sub.items()}
                    l2, e2 = subst(Poly(dict(l.t)), sub), subst(Poly(dict(exact.t)), sub)
                    d = e2 - l2
                    ok = not d.t
                    if not ok:
                        for kind, hi, lo, ops in pairs:
                            h2, lo2 = subst(Poly.atom(hi), sub), subst(Poly(dict(lo.t)), sub)
                            if Poly.__eq__(h2, l2) and Poly.__eq__(lo2, d):
                                ok = True
                    n_checked += 1
                    r.ob(rule, f"{key} arm under [{' and '.join(described) or 'a zero test'}]", ok,
                         f"under these facts the arm is `{l2!r}` and x*y + z is `{e2!r}`: the remainder `{d!r}` is neither zero nor the error word of an "
                         "error-free transformation whose high word is the arm, so the arm is not the correctly rounded result - the shortcut "
                         "drops a word that matters (e.g. when z cancels the product)", loc(rel, g))
    if n_checked < 12:
        raise AnalysisError(f"emulated FMA: only {n_checked} obligations recognised")



def derive_next(bits, c):
    """next(x) = x / c (away from zero) or x * c (towards zero), one correctly rounded operation.  For a normal x = m * 2^e with a
    normal neighbour the question is scale free: with M = 2^(p-1), for every integer significand m in [M, 2M) the quotient m / c
    must round to m + 1 and the product m * c to the float below m (m - 1, or M - 1/2 for m = M where the spacing halves).
    m/c - m = m*d and m - m*c = m*g are linear in m, so the conditions are decided at the end points, in exact rationals:
        away:    M*d > 1/2,  (2M-2)*d < 3/2,  2M - 1/2 < (2M-1)/c < 2M + 1
        towards: 1/4 < M*g < 3/4,  (M+1)*g > 1/2,  (2M-1)*g < 3/2"""
    M = Fraction(2) ** (PREC[bits] - 1)
    if not (0 < c < 1):
        return False, f"the multiplier {float(c)!r} is not inside (0, 1)"
    d, g = 1 / c - 1, 1 - c
    H = Fraction(1, 2)
    conds = [
        (M * d > H, f"x / c does not pass the midpoint above a power of two (m = 2^{PREC[bits] - 1}: excess {float(M * d)!r} ulp <= 1/2)"),
        ((2 * M - 2) * d < 3 * H, f"x / c overshoots the next float for large significands (excess {float((2 * M - 2) * d)!r} ulp >= 3/2)"),
        (2 * M - H < (2 * M - 1) / c < 2 * M + 1, "x / c misses the next power of two for the largest significand"),
        (Fraction(1, 4) < M * g < Fraction(3, 4), f"x * c misses the float below a power of two (deficit {float(M * g)!r} ulp outside (1/4, 3/4))"),
        ((M + 1) * g > H, f"x * c does not pass the midpoint below m = 2^{PREC[bits] - 1} + 1"),
        ((2 * M - 1) * g < 3 * H, "x * c undershoots the previous float for large significands"),
    ]
    bad = [msg for okc, msg in conds if not okc]
    return (not bad, "; ".join(bad) if bad else "")


def accepted_significands(bits, P, Q):
    """The set of integer significands m in [M, 2M), M = 2^(p-1), for which the test fl(fl(P*m) - fl(Q*m)) == m holds, in closed
    form (the question is scale free for normal x).  With Q = 2^j the product Q*m is exact; with P = Q + 1 the difference of
    fl(P*m) and Q*m is m plus the rounding error rho of P*m, an integer; m + rho is an integer that is either below 2^p (exact) or an
    even number >= 2^p > m, so the test holds iff rho = 0, i.e. iff (2^j + 1)*m fits in p bits.  Writing m = 2^v * odd that needs
    v >= j, so the candidates are the multiples of 2^j in [M, 2M).  Returns (set or None when not derivable, explanation)."""
    pp = PREC[bits]
    M = 2 ** (pp - 1)
    if not (isinstance(P, int) and isinstance(Q, int) and Q > 0):
        return None, "constants are not positive integers"
    if P == Q:
        return set(), "P == Q: the difference P*x - Q*x is 0 for every x"
    if Q & (Q - 1):
        return None, "Q is not a power of two"
    if P - Q != 1:
        d = P - Q
        smax = 2 ** max(0, (P * (2 * M - 1)).bit_length() - pp)
        if d >= 2 and 2 * (d - 1) * M > smax:
            return set(), f"P - Q = {d}: the difference is about {d}*x, never x"
        return None, f"P - Q = {d}"
    j = Q.bit_length() - 1
    if M >> j > 4096:
        return {"many"}, f"every significand that is a multiple of 2^{j + 1} passes the test: at least {M >> (j + 1)} values per binade"
    out = set()
    for m in range(M if M % Q == 0 else (M // Q + 1) * Q, 2 * M, Q):
        v = P * m
        if significant_bits(Fraction(v)) <= pp:
            out.add(Fraction(m, M))
    return out, ""


def check_fma_product_near_overflow(r, repo, rule="R11.6"):
    """The emulated FMA variants obtain x*y as an error-free pair from two_prod(..., fix_overflow=True).  That kernel falls back to
    (x*y, 0) - the error term is dropped - under its overflow guard.  The FMA clause holds "whenever x*y and x*y + z are finite", so
    the fallback may be taken only when x*y itself is not finite: the quantity the guard compares with `largest` must be |x*y|.  A
    guard on the product of the *head words* is wider: a head word exceeds its operand by up to 2^-(p-s) relative (s the split
    position), so finite products within (1 + 2^-(p-s))^2 of `largest` lose their error term, and with z ~ -RN(x*y) the result is
    wrong by the whole remainder."""
    from sa.kernels import Extractor, IN, normal as knf, show, Unsupported as KUnsupported

    ex = Extractor(repo)
    x, y, C = IN("x"), IN("y"), IN("C")
    f_md = repo.func(REL, "mul_dekker")
    try:
        got = ex.call(REL, "mul_dekker", [("opaque", "ctx"), x, y], dict(scale=False, fix_overflow=True, assume_fma=False, C=C))
    except KUnsupported as e:
        raise AnalysisError(f"{REL}::mul_dekker(fix_overflow=True): kernel shape not understood: {e}")
    low = got[1] if isinstance(got, tuple) and len(got) == 2 else None
    if not (isinstance(low, tuple) and low and low[0] == "select" and isinstance(low[1], tuple) and low[1][0] == "cmp"):
        raise AnalysisError(f"{REL}::mul_dekker(fix_overflow=True): the error term is not a selection on an overflow test: {show(low)[:200]}")
    cond = low[1]
    sides = [cond[2], cond[3]]
    qty = next((sd for sd in sides if not (isinstance(sd, tuple) and sd[0] == "const")), None)
    if isinstance(qty, tuple) and qty[0] in ("abs", "fn") and len(qty) >= 2:
        inner = qty[-1]
    else:
        inner = qty
    ok = inner is not None and knf(inner) == knf(("op", "*", x, y))
    r.ob(rule, f"{REL}::mul_dekker fix_overflow fallback is taken only when x*y overflows", ok,
         f"the error term of the product is dropped when `{show(cond)[:160]}`: that is the product of the head words, which overflows for finite x*y next to the "
         "overflow threshold (float16: 255.875 * 255.875 = 65472.0156 < 65504, heads 256 * 256 = 65536), so every emulated FMA variant returns "
         "RN(RN(x*y) + z) there - fma(255.875, 255.875, -65472) = 0 instead of 0.015625", loc(REL, f_md))


def run(repo, tier):
    r = Report("C11", tier, repo, level="other", design_ref="§3/C11")
    r.explanation = (
        "C11, the clauses that are decided: is_power_of_two / is_one_or_three_times_power_of_two - the constants are constant-evaluated "
        "at every definition site (Python precedence included) and the set of significands the test accepts is derived in closed form "
        "per format (exactly {1}, resp. {1, 3/2}); next() - for the multiplier that is there, x / c and x * c round to the neighbouring "
        "float for every significand (end-point inequalities in exact rationals); the error-free accounting of 3Sum / 4Sum / dot2 / "
        "mul_add and of the emulated FMA variants on exact polynomials with the 2Sum / Dekker contracts. The ULP bounds of 4Sum, "
        "dot2, mul_add and FMA are numeric and are NOT decided."
    )
    r.trusted_base = ["Python ast", "IEEE-754 binary16/32/64 precisions"]
    r.assumptions = ["x normal, no overflow or underflow in P*x, Q*x, x/c, x*c (the operations' stated domains); each operation is one correctly rounded IEEE-754 operation"]
    r.rule("R11.1", "P/Q constants equal 2^(p-1)+1 / 2^(p-1) (resp. 2^(p-2)+1 / 2^(p-2)) at every definition site and in the docstrings; derived per site and format: the set of significands for which fl(P*x - Q*x) == x holds is exactly {1} (resp. {1, 3/2})", floor=21)
    r.rule("R11.2", "next(): for every normal x with a normal neighbour, x / c rounds to the next float away from zero and x * c to the next float towards zero - derived per format for the multiplier that is there, scale free over all significands (end-point conditions in exact rationals); direction of the step", floor=4)
    r.rule("R11.4", "3Sum is an exact decomposition and the rounded compound operations account for every error term: under exact-arithmetic semantics with 2Sum / Dekker contracts, s + e + t == x + y + z and (arm taken when the residual vanishes) + residual == exact result", floor=5)
    r.rule("R11.5", "emulated FMA (a7, a8, a9; both copies): an arm of the result accounts for every word of x*y + z, and an arm selected by a zero test is exact or the high word of an error-free pair under the facts of that test", floor=12)
    r.rule("R11.6", "the product step of the emulated FMA delivers its error term whenever x*y is finite: the overflow fallback of two_prod / mul_dekker is guarded by |x*y| itself", floor=1)
    r.rule("R11.3", "the emulated FMA variants call two_prod with fix_overflow, and that guard is the sign-symmetric |xh*yh| > largest fallback", floor=2)

    want = {"Q": lambda p: 2 ** (p - 1), "P": lambda p: 2 ** (p - 1) + 1}
    want13 = {"Q": lambda p: 2 ** (p - 2), "P": lambda p: 2 ** (p - 2) + 1}
    pairs = {}

    # ---- site 1: get_is_power_of_two_constants (dtype switch on `largest`); the interface is the order of the returned pair (Q, P)
    f = repo.func(REL, "get_is_power_of_two_constants")
    rets = [n for n in ast.walk(f) if isinstance(n, ast.Return)]
    if len(rets) != 1 or not isinstance(rets[0].value, ast.Tuple) or len(rets[0].value.elts) != 2 or not all(isinstance(e, ast.Name) for e in rets[0].value.elts):
        raise AnalysisError("get_is_power_of_two_constants: `return <Q>, <P>` not found")
    role = {rets[0].value.elts[0].id: "Q", rets[0].value.elts[1].id: "P"}
    env = {}
    found = set()
    for st in f.body:
        if isinstance(st, ast.Assign) and isinstance(st.targets[0], ast.Name):
            nm = st.targets[0].id
            v = st.value
            if isinstance(v, ast.Call) and (call_name(v) or "").endswith("constant") and v.args:
                env[nm] = v.args[0]
                continue
            # strip .reference(...)
            while isinstance(v, ast.Call) and isinstance(v.func, ast.Attribute) and v.func.attr == "reference":
                v = v.func.value
            if isinstance(v, ast.Call) and (call_name(v) or "").endswith("select"):
                rl = role.get(nm)
                sw, why = dtype_switch(v)
                if sw is None:
                    r.ob("R11.1", f"{REL}::get_is_power_of_two_constants {rl or nm} dtype switch", False, why, loc(REL, st))
                    continue
                if rl is None:
                    continue
                found.add(rl)
                for bits, node in sw.items():
                    if not (isinstance(node, ast.Name) and node.id in env):
                        raise AnalysisError(f"get_is_power_of_two_constants: branch `{norm_src(node)}` is not one of the constants")
                    val = ev(env[node.id])
                    pairs.setdefault(("get_is_power_of_two_constants", bits), {})[rl] = (val, env[node.id])
                    exp = want[rl](PREC[bits])
                    r.ob(
                        "R11.1",
                        f"{REL}::get_is_power_of_two_constants {rl} float{bits}",
                        val == exp,
                        f"`{norm_src(env[node.id])}` evaluates to {val} (= 2**{val.bit_length() - 1}{'' if val & (val - 1) == 0 else ' + ...'}) under Python "
                        f"precedence; {rl} for float{bits} must be {exp}" if isinstance(val, int) else f"not an integer constant: {val!r}",
                        loc(REL, env[node.id]),
                        sample=dict(rule="R11.1", site="get_is_power_of_two_constants", name=rl, bits=bits, expr=norm_src(env[node.id]), value=str(val)),
                    )
    if found != {"P", "Q"}:
        raise AnalysisError(f"get_is_power_of_two_constants: P/Q selects not both found ({found})")

    # ---- sites 2/3: parameter functions returning dict(P=..., Q=...): evaluated per format under the finfo model
    from sa.numconst import local_env, eval_for_format, check_getters
    check_getters(r, repo, "R11.1")
    for fname, w in (("_is_power_of_two_parameters", want), ("_is_one_or_three_times_power_of_two_parameters", want13)):
        g = repo.func(REL, fname)
        rets = [n for n in ast.walk(g) if isinstance(n, ast.Return)]
        entries = {}
        if len(rets) == 1 and isinstance(rets[0].value, ast.Call) and dotted(rets[0].value.func) == "dict":
            entries = {kw.arg: kw.value for kw in rets[0].value.keywords if kw.arg}
        elif len(rets) == 1 and isinstance(rets[0].value, ast.Dict):
            entries = {k.value: v for k, v in zip(rets[0].value.keys, rets[0].value.values) if isinstance(k, ast.Constant)}
        if set(entries) != {"P", "Q"}:
            raise AnalysisError(f"{fname}: `return dict(P=..., Q=...)` not found")
        for nm, node in sorted(entries.items()):
            for bits in BITS:
                val = eval_for_format(node, bits, g, local_env(g, bits))
                pairs.setdefault((fname, bits), {})[nm] = (val, node)
                exp = w[nm](PREC[bits])
                r.ob("R11.1", f"{REL}::{fname} {nm} float{bits}", val == exp, f"`{norm_src(node)}` for float{bits} (p={PREC[bits]}) gives {val}, expected {exp}", loc(REL, node))
    # ---- derived: which significands does the test accept with the constants that are there?
    for (site, bits), d in sorted(pairs.items()):
        if set(d) != {"P", "Q"}:
            continue
        (pv, pn), (qv, qn) = d["P"], d["Q"]
        pv, qv = (int(v) if isinstance(v, float) and v == int(v) else v for v in (pv, qv))
        three = "three" in site
        expect = {Fraction(1), Fraction(3, 2)} if three else {Fraction(1)}
        got, why = accepted_significands(bits, pv, qv)
        if got is None:
            continue  # not of the analysed form: the comparison with the formula above is the verdict
        shown = "{" + ", ".join(f"{float(x)!r}*2^e" if isinstance(x, Fraction) else str(x) for x in sorted(got, key=str)) + "}"
        r.ob("R11.1", f"{REL}::{site} float{bits}: the test accepts exactly the significands {sorted(float(x) for x in expect)} (derived for every normal x)", got == expect,
             f"with P = {pv}, Q = {qv} the test fl(P*x - Q*x) == x holds for x in {shown} (times a power of two), not only for {'1 and 3/2' if three else '1'}" + (f": {why}" if why else ""),
             loc(REL, pn), sample=dict(rule="R11.1", site=site, bits=bits, P=str(pv), Q=str(qv), accepted=shown))
    # ---- docstring formulas
    for fname, w in (("is_power_of_two", want), ("is_one_or_three_times_power_of_two", want13)):
        g = repo.func(REL, fname)
        doc = ast.get_docstring(g) or ""
        for nm in ("P", "Q"):
            m = re.search(rf"^\s*{nm} = (.+)$", doc, re.M)
            if not m:
                r.info("R11.1", f"{fname}: docstring has no formula for {nm}")
                continue
            try:
                node = ast.parse(m.group(1).strip(), mode="eval").body
            except SyntaxError:
                r.info("R11.1", f"{fname}: docstring formula for {nm} does not parse")
                continue
            for bits in BITS:
                val = ev(node, {"p": PREC[bits]})
                exp = w[nm](PREC[bits])
                r.ob("R11.1", f"{REL}::{fname} docstring {nm} float{bits}", val == exp, f"documented `{m.group(1).strip()}` gives {val}, code oracle {exp}", loc(REL, g))
    # the test itself: D = P*x - Q*x compared with x (dataflow extraction, compared as normal forms)
    from sa.kernels import Extractor, IN, CONST, normal as knf, Unsupported as KUnsupported
    ex = Extractor(repo)
    x_ = IN("x")
    for fname, explicit in (("is_power_of_two", True), ("is_power_of_two", False), ("is_one_or_three_times_power_of_two", False)):
        g = repo.func(REL, fname)
        for inv in (False, True):
            P_, Q_ = (IN("P"), IN("Q")) if explicit else (CONST("P"), CONST("Q"))
            args = [("opaque", "ctx"), x_] + ([Q_, P_] if explicit else [])
            try:
                got = ex.call(REL, fname, args, dict(invert=inv))
                want_t = ("cmp", "!=" if inv else "==", ("op", "-", ("op", "*", P_, x_), ("op", "*", Q_, x_)), x_)
                ok = knf(got) == knf(want_t)
                detail = f"returns {got!r}"
            except KUnsupported as e:
                raise AnalysisError(f"{REL}::{fname}: kernel shape not understood: {e}")
            r.ob("R11.1", f"{REL}::{fname} kernel P*x - Q*x {'!=' if inv else '=='} x ({'explicit' if explicit else 'default'} constants, invert={inv})", ok,
                 f"{detail}; the test is (P*x - Q*x) {'!=' if inv else '=='} x", loc(REL, g))

    # ---- R11.3 overflow guard behind the fma variants
    from rules.C10 import check_mul_dekker_overflow, RefRepo
    from sa.kernels import Extractor
    check_mul_dekker_overflow(r, repo, Extractor(repo), Extractor(RefRepo()), "R11.3")
    n_fma = 0
    for rel2 in ("apmath.py", "apmath_algorithms.py"):
        for c in [c for c in ast.walk(repo.tree(rel2)) if isinstance(c, ast.Call) and (call_name(c) or "").endswith("two_prod")]:
            kws = {kw.arg: norm_src(kw.value) for kw in c.keywords}
            # inside a function that takes fix_overflow itself (the FMA variants), every product must be given it: a call that drops
            # the keyword runs the unguarded Dekker product whatever the caller asked for
            owner = c
            while owner is not None and not isinstance(owner, (ast.FunctionDef, ast.AsyncFunctionDef)):
                owner = getattr(owner, "_parent", None)
            owner_has = owner is not None and any(a.arg == "fix_overflow" for a in owner.args.args + owner.args.kwonlyargs)
            if "fix_overflow" not in kws and owner_has and owner.name != "two_prod":
                n_fma += 1
                r.ob("R11.3", f"{rel2}::{owner.name} two_prod without fix_overflow", False,
                     f"`{norm_src(c)[:90]}` does not forward the fix_overflow option of `{owner.name}`: this product has no overflow fallback, so a finite x*y next to the "
                     "overflow threshold yields inf/nan in this variant whatever fix_overflow the caller passed", loc(rel2, c))
            if "fix_overflow" in kws:
                n_fma += 1
                r.ob("R11.3", f"{rel2} two_prod(..., fix_overflow={kws['fix_overflow']})", kws["fix_overflow"] in ("fix_overflow", "True"),
                     f"two_prod is called with fix_overflow={kws['fix_overflow']}", loc(rel2, c))
    if n_fma == 0:
        raise AnalysisError("no two_prod(..., fix_overflow=...) call found in the fma implementations")

    check_fma_product_near_overflow(r, repo)
    check_eft_accounting(r, repo)
    check_fma_accounting(r, repo)
    # ---- R11.2 next(): the multiplier is whatever name the select arms multiply/divide x by
    nx = repo.func(REL, "next")
    ret = [n for n in ast.walk(nx) if isinstance(n, ast.Return)][0]
    mult = {y.id for b_ in ast.walk(ret.value) if isinstance(b_, ast.BinOp) and isinstance(b_.op, (ast.Mult, ast.Div)) for y in (b_.left, b_.right)
            if isinstance(y, ast.Name) and y.id != "x"}
    if len(mult) != 1:
        raise AnalysisError(f"next(): the multiplier of x is not a single local (found {sorted(mult)})")
    cname = next(iter(mult))
    cexpr = None
    for st in nx.body:
        if isinstance(st, ast.Assign) and isinstance(st.targets[0], ast.Name) and st.targets[0].id == cname and cexpr is None:
            v = st.value
            if isinstance(v, ast.Call) and (call_name(v) or "").endswith("constant") and v.args:
                cexpr = v.args[0]
    if cexpr is None:
        raise AnalysisError(f"next(): definition of the multiplier `{cname}` as ctx.constant(...) not found")
    from sa.numconst import local_env, eval_for_format
    for bits in BITS:
        p = PREC[bits]
        val = eval_for_format(cexpr, bits, nx, local_env(nx, bits))
        ok, why = isinstance(val, float), "not a float constant"
        if ok:
            ok, why = derive_next(bits, Fraction(round_to(bits, val)))
        r.ob("R11.2", f"{REL}::next multiplier float{bits}", ok, f"`{norm_src(cexpr)}` for float{bits} (p={p}) gives {val!r}: {why}", loc(REL, cexpr),
             sample=dict(rule="R11.2", bits=bits, multiplier=repr(val), derived="fl(m/c) = m + 1 and fl(m*c) = pred(m) for every significand m in [2^(p-1), 2^p)"))
    # direction selects
    ok, detail = next_direction_ok(ret, cname)
    r.ob("R11.2", f"{REL}::next direction", ok, f"next returns `{norm_src(ret.value)}`: moving away from zero must divide by the multiplier, towards zero multiply; {detail}", loc(REL, ret))
    return r
