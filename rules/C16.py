"""C16 (partial) — polynomial evaluators consume every coefficient exactly once.  Rules R16.1 .. R16.3."""

from __future__ import annotations

import ast
from fractions import Fraction

from sa.core import AnalysisError, Report, loc, norm_src, canon_locals
from sa.paths import enumerate_paths, dotted, calls_in, call_name
from sa.defuse import last_def

EVALUATORS = {
    "polynomial.py": {"fast_polynomial": "coeffs", "rpolynomial": "rcoeffs"},
    "floating_point_algorithms.py": {
        "horner": "coeffs", "compensated_horner": "coeffs", "fast_polynomial": "coeffs", "rpolynomial": "rcoeffs", "laurent": "C",
    },
}
ALL_EVALUATOR_NAMES = {n for d in EVALUATORS.values() for n in d}


# --------------------------------------------------------------------------- linear expressions over symbols


class Lin:
    __slots__ = ("c", "k")

    def __init__(self, c=None, k=0):
        self.c = {s: Fraction(v) for s, v in (c or {}).items() if v != 0}
        self.k = Fraction(k)

    def __add__(self, o):
        o = lin(o)
        c = dict(self.c)
        for s, v in o.c.items():
            c[s] = c.get(s, 0) + v
        return Lin(c, self.k + o.k)

    def __neg__(self):
        return Lin({s: -v for s, v in self.c.items()}, -self.k)

    def __sub__(self, o):
        return self + (-lin(o))

    def scale(self, f):
        return Lin({s: v * f for s, v in self.c.items()}, self.k * f)

    def __eq__(self, o):
        o = lin(o)
        return self.c == o.c and self.k == o.k

    def __hash__(self):
        return hash((tuple(sorted(self.c.items())), self.k))

    def subst(self, sym, val):
        if sym not in self.c:
            return self
        c = dict(self.c)
        f = c.pop(sym)
        return Lin(c, self.k) + lin(val).scale(f)

    def is_const(self):
        return not self.c

    def __repr__(self):
        parts = [f"{'' if v == 1 else ('-' if v == -1 else str(v) + '*')}{s}" for s, v in sorted(self.c.items())]
        if self.k or not parts:
            parts.append(str(self.k))
        return " + ".join(parts).replace("+ -", "- ")


def lin(x):
    if isinstance(x, Lin):
        return x
    return Lin({}, x)


L = Lin({"L": 1})


class NotLinear(Exception):
    pass


def to_lin(node, env, cname):
    """AST integer expression -> Lin.  env: name -> Lin.  len(cname) -> L."""
    if isinstance(node, ast.Constant) and isinstance(node.value, int) and not isinstance(node.value, bool):
        return Lin({}, node.value)
    if isinstance(node, ast.Name):
        if node.id in env:
            return env[node.id]
        return Lin({node.id: 1})
    if isinstance(node, ast.Call) and dotted(node.func) == "len" and node.args and dotted(node.args[0]) == cname:
        return L
    if isinstance(node, ast.UnaryOp) and isinstance(node.op, ast.USub):
        return -to_lin(node.operand, env, cname)
    if isinstance(node, ast.BinOp):
        if isinstance(node.op, ast.Add):
            return to_lin(node.left, env, cname) + to_lin(node.right, env, cname)
        if isinstance(node.op, ast.Sub):
            return to_lin(node.left, env, cname) - to_lin(node.right, env, cname)
        if isinstance(node.op, ast.Mult):
            a, b = to_lin(node.left, env, cname), to_lin(node.right, env, cname)
            if a.is_const():
                return b.scale(a.k)
            if b.is_const():
                return a.scale(b.k)
    raise NotLinear(norm_src(node))


# --------------------------------------------------------------------------- consumption along one path


def _range_bounds(node, env, cname):
    """range(a,b) / range(b) / reversed(range(..)) -> (lo, hi) as Lin."""
    if isinstance(node, ast.Call) and dotted(node.func) == "reversed" and node.args:
        return _range_bounds(node.args[0], env, cname)
    if isinstance(node, ast.Call) and dotted(node.func) == "range":
        a = node.args
        if len(a) == 1:
            return Lin({}, 0), to_lin(a[0], env, cname)
        if len(a) == 2:
            return to_lin(a[0], env, cname), to_lin(a[1], env, cname)
    raise NotLinear(norm_src(node))


def _slice_bounds(sl, env, cname, neg):
    """Slice -> (lo, hi).  neg: set of symbol names known to be negative on this path."""
    def norm(b, default):
        if b is None:
            return default
        v = to_lin(b, env, cname)
        if v.is_const() and v.k < 0:
            return L + v
        # a bare symbol known negative, or minus a symbol known positive
        if len(v.c) == 1 and v.k == 0:
            (s, f), = v.c.items()
            if (f == 1 and s in neg) or (f == -1 and ("+" + s) in neg):
                return L + v
        return v
    if sl.step is not None:
        st = to_lin(sl.step, env, cname)
        if not (st.is_const() and st.k == -1 and sl.lower is None and sl.upper is None):
            raise NotLinear(norm_src(sl))
        return Lin({}, 0), L
    return norm(sl.lower, Lin({}, 0)), norm(sl.upper, L)


def whole_or_slice(node, cname, env, neg):
    """If node denotes (a reordering of) a contiguous part of the coefficient list return (lo, hi) else None."""
    if isinstance(node, ast.Name) and node.id == cname:
        return Lin({}, 0), L
    if isinstance(node, ast.Call) and dotted(node.func) in ("list", "reversed", "tuple") and node.args:
        return whole_or_slice(node.args[0], cname, env, neg)
    if isinstance(node, ast.Subscript) and dotted(node.value) == cname and isinstance(node.slice, ast.Slice):
        return _slice_bounds(node.slice, env, cname, neg)
    if isinstance(node, ast.BinOp) and isinstance(node.op, ast.Add):
        # [zero] + C[m:]  /  C[:-m] + [zero] : padding with a constant zero does not consume coefficients
        for a, b in ((node.left, node.right), (node.right, node.left)):
            if isinstance(a, ast.List):
                return whole_or_slice(b, cname, env, neg)
    return None


def path_consumption(p, f, cname):
    """Return (intervals, equalities, notes) for one path: intervals = [(lo, hi, text)]"""
    env = {}
    eqs = []  # (sym Lin == value)
    neg = set()
    aliases = {}
    intervals = []
    evs = p.events
    seen_nodes = set()

    def note_stmt_assign(st):
        if isinstance(st, ast.Assign) and len(st.targets) == 1 and isinstance(st.targets[0], ast.Name):
            nm = st.targets[0].id
            try:
                env[nm] = to_lin(st.value, env, cname)
                return
            except NotLinear:
                pass
            ws = None
            try:
                ws = whole_or_slice(st.value, cname, env, neg)
            except NotLinear:
                ws = None
            if ws is not None and nm != cname:
                aliases[nm] = ws
            elif nm in env:
                del env[nm]

    for i, e in enumerate(evs):
        if e.kind == "test":
            t = e.node
            if isinstance(t, ast.Compare) and len(t.ops) == 1:
                try:
                    a, b = to_lin(t.left, env, cname), to_lin(t.comparators[0], env, cname)
                except NotLinear:
                    continue
                d = a - b
                op = t.ops[0]
                if isinstance(op, ast.Eq) and e.pol:
                    eqs.append(d)
                # sign facts on bare symbols:  m > 0 false & m == 0 false -> m < 0
                if len(d.c) == 1 and d.k == 0:
                    (s, fct), = d.c.items()
                    if fct in (1, -1):
                        sgn = fct
                        if isinstance(op, ast.Gt):
                            fact = ">" if e.pol else "<="
                        elif isinstance(op, ast.Lt):
                            fact = "<" if e.pol else ">="
                        elif isinstance(op, ast.Eq):
                            fact = "==" if e.pol else "!="
                        else:
                            fact = None
                        if fact:
                            env.setdefault("__facts__", {}) if False else None
                            p_f = neg  # store raw facts as strings
                            p_f.add(f"{s}{fact}0" if sgn == 1 else f"-{s}{fact}0")
            continue
        if e.kind == "stmt":
            note_stmt_assign(e.node)
    # derive negativity: m<=0 and m!=0  -> m<0
    syms = {x.split("<")[0].split(">")[0].split("=")[0].split("!")[0] for x in neg}
    for s in list(syms):
        if (f"{s}<0" in neg) or (f"{s}<=0" in neg and f"{s}!=0" in neg):
            neg.add(s)
        if (f"{s}>0" in neg) or (f"{s}>=0" in neg and f"{s}!=0" in neg):
            neg.add("+" + s)

    # second pass: consumption
    drops = []
    env2 = {}
    for i, e in enumerate(evs):
        node = e.node
        if e.kind == "stmt" and isinstance(node, ast.Assign) and len(node.targets) == 1 and isinstance(node.targets[0], ast.Name):
            try:
                env2[node.targets[0].id] = to_lin(node.value, env2, cname)
            except NotLinear:
                env2.pop(node.targets[0].id, None)
        if e.kind in ("def", "test", "assert"):
            continue
        # rebinding of the coefficient list to a proper slice of itself: indices are dropped without being consumed
        if e.kind == "stmt" and isinstance(node, ast.Assign) and len(node.targets) == 1 and dotted(node.targets[0]) == cname:
            v = node.value
            if isinstance(v, ast.Subscript) and dotted(v.value) == cname and isinstance(v.slice, ast.Slice):
                drops.append((i, node))
                for m in ast.walk(node):
                    seen_nodes.add(id(m))
                continue
        scan = [node]
        if e.kind == "iter":
            scan = [node]
        for root in scan:
            for n in ast.walk(root):
                if id(n) in seen_nodes:
                    continue
                # for rc in reversed(c[1:]) : the loop consumes the slice
                if e.kind == "iter" and n is root:
                    try:
                        ws = whole_or_slice(n, cname, env2, neg)
                    except NotLinear as ex:
                        raise AnalysisError(f"{f.name}: loop over `{norm_src(n)}` not understood ({ex})")
                    if ws is not None:
                        intervals.append((ws[0], ws[1], f"for over {norm_src(n)}"))
                        for m in ast.walk(n):
                            seen_nodes.add(id(m))
                        break
                if isinstance(n, ast.Call):
                    nm = (call_name(n) or "").split(".")[-1]
                    if nm in ALL_EVALUATOR_NAMES:
                        for a in list(n.args) + [k.value for k in n.keywords]:
                            try:
                                ws = whole_or_slice(a, cname, env2, neg)
                            except NotLinear as ex:
                                raise AnalysisError(f"{f.name}: argument `{norm_src(a)}` not understood ({ex})")
                            if ws is None and isinstance(a, ast.Name) and a.id in aliases:
                                ws = aliases[a.id]
                            if ws is not None:
                                intervals.append((ws[0], ws[1], f"{nm}({norm_src(a)})"))
                                for m in ast.walk(a):
                                    seen_nodes.add(id(m))
                if isinstance(n, ast.Subscript) and dotted(n.value) == cname and isinstance(n.ctx, ast.Load) and id(n) not in seen_nodes:
                    seen_nodes.add(id(n))
                    if isinstance(n.slice, ast.Slice):
                        # a slice that is not passed to an evaluator nor iterated: e.g. assigned to an alias (handled) — ignore here
                        par = getattr(n, "_parent", None)
                        continue
                    idx = n.slice
                    # loop variable?
                    loop = _enclosing_for(n, f)
                    if loop is not None and isinstance(idx, ast.Name) and isinstance(loop.target, ast.Name) and idx.id == loop.target.id:
                        it = loop.iter
                        if isinstance(it, ast.Name):
                            ld = last_def(it.id, evs, i)
                            if ld is None:
                                raise AnalysisError(f"{f.name}: loop iterable `{it.id}` has no definition on the path")
                            it = ld[1]
                        try:
                            lo, hi = _range_bounds(it, env2, cname)
                        except NotLinear as ex:
                            raise AnalysisError(f"{f.name}: loop bounds `{norm_src(it)}` not understood ({ex})")
                        intervals.append((lo, hi, f"{cname}[{idx.id}] for {idx.id} in {norm_src(it)}"))
                    else:
                        try:
                            k = to_lin(idx, env2, cname)
                        except NotLinear as ex:
                            raise AnalysisError(f"{f.name}: index `{norm_src(idx)}` not understood ({ex})")
                        if loop is not None and any(isinstance(x, ast.Name) and isinstance(loop.target, ast.Name) and x.id == loop.target.id for x in ast.walk(idx)):
                            raise AnalysisError(f"{f.name}: index `{norm_src(idx)}` depends on the loop variable non-trivially")
                        intervals.append((k, k + 1, f"{cname}[{norm_src(idx)}]"))
    # judge the drops: dropping c[-1] (resp. c[0]) is value preserving only when that coefficient is known to be zero AND it is the
    # highest-order coefficient, i.e. in the forward convention (reverse is False on this path) for c[-1]
    has_reverse = any(a.arg == "reverse" for a in f.args.args)
    for i, node in drops:
        sl = node.value.slice
        which = None
        if sl.lower is None and sl.upper is not None and norm_src(sl.upper) == "-1" and sl.step is None:
            which = "-1"
        elif sl.upper is None and sl.lower is not None and norm_src(sl.lower) == "1" and sl.step is None:
            which = "0"
        zero_known = which is not None and any(
            ev.kind == "test" and ev.pol and f"{cname}[{which}] == 0" in norm_src(ev.node) for ev in evs[:i])
        rev_false = (not has_reverse) or any(ev.kind == "test" and not ev.pol and norm_src(ev.node) == "reverse" for ev in evs)
        rev_true = has_reverse and any(ev.kind == "test" and ev.pol and norm_src(ev.node) == "reverse" for ev in evs)
        ok = zero_known and ((which == "-1" and rev_false and not rev_true) or (which == "0" and rev_true))
        if not ok:
            why = "its value is not known to be zero" if not zero_known else (
                "the list is still in the caller's coefficient order: with reverse=True the last entry is the constant term, and removing it shifts every other coefficient down one power")
            intervals.append((Lin({"dropped": 1}), Lin({"dropped": 1}) + 1, f"DROPPED by `{norm_src(node)}` ({why})"))
    return intervals, eqs


def _enclosing_for(n, f):
    p = getattr(n, "_parent", None)
    while p is not None and p is not f:
        if isinstance(p, ast.For):
            # only when n is in the body (not in the iter)
            return p
        p = getattr(p, "_parent", None)
    return None


def covers(intervals, eqs):
    """Do the intervals partition [0, L) under the equalities?  Returns (ok, explanation)."""
    # apply equalities of the form  (expr == 0): solve for L when possible, else for the single symbol
    subs = {}
    for d in eqs:
        if "L" in d.c:
            f = d.c["L"]
            rest = Lin({s: v for s, v in d.c.items() if s != "L"}, d.k)
            subs["L"] = (-rest).scale(1 / f)
        elif len(d.c) == 1:
            (s, f), = d.c.items()
            subs[s] = Lin({}, -d.k / f)
    def ap(x):
        for s, v in subs.items():
            x = x.subst(s, v)
        return x
    ivs = [(ap(lo), ap(hi), t) for lo, hi, t in intervals]
    end = ap(L)
    ivs = [iv for iv in ivs if iv[0] != iv[1]]
    cur = Lin({}, 0)
    used = [False] * len(ivs)
    order = []
    for _ in range(len(ivs)):
        nxt = [j for j, iv in enumerate(ivs) if not used[j] and iv[0] == cur]
        if not nxt:
            break
        j = nxt[0]
        used[j] = True
        order.append(j)
        cur = ivs[j][1]
    ok = all(used) and cur == end
    desc = ", ".join(f"[{lo}, {hi}) by {t}" for lo, hi, t in ivs) or "nothing"
    if ok:
        return True, desc
    if not all(used):
        left = [ivs[j] for j in range(len(ivs)) if not used[j]]
        return False, f"coefficients consumed: {desc}; starting from index 0 the chain stops at index {cur} (length {end}); not placed: " + ", ".join(f"[{lo}, {hi})" for lo, hi, _ in left)
    return False, f"coefficients consumed: {desc}; they cover [0, {cur}) but the list has indices [0, {end})"


def check_polynomial_algebra(r, repo, tier, rule="R16.6"):
    """polynomial.py is interpreted (sa/absint.py) on coefficient lists of formal symbols, the indeterminate x being a symbol
    too; every result is compared with the polynomial it denotes as an exact polynomial identity (rational coefficients).
    This is C16's 'exact polynomial algebra' for all coefficient values at once, for the degrees listed."""
    from fractions import Fraction
    from sa.absint import Interp, Closure, Unsupported as IUnsupported, PyRaise
    from rules.C12 import Poly
    import math

    rel = "polynomial.py"
    X = Poly.atom("x")

    def xpow(k):
        out = Poly.const(1)
        for _ in range(k):
            out = out * X
        return out

    def denote(coeffs, reverse=False):
        cs = list(reversed(coeffs)) if reverse else list(coeffs)
        tot = Poly.const(0)
        for i, c in enumerate(cs):
            tot = tot + Poly.lift(c) * xpow(i)
        return tot

    def call(name, *args, **kw):
        I = Interp(repo, max_steps=20_000_000)
        I.ext_calls = {"math.comb": math.comb, "math.log": math.log, "numpy.log": math.log}
        fn = repo.func(rel, name)
        try:
            return I.call(Closure(fn, {}, I, rel, bound_self=None), list(args), dict(kw))
        except (IUnsupported, PyRaise, TypeError, RecursionError) as e:
            raise AnalysisError(f"polynomial.{name} is not interpretable on symbolic coefficients: {getattr(e, 'what', e)}")

    def syms(prefix, n):
        return [Poly.atom(f"{prefix}{i}") for i in range(n)]

    def ob(key, ok, detail):
        r.ob(rule, f"{rel}::{key}", bool(ok), detail, loc(rel, repo.func(rel, key.split("(")[0].split()[0])))

    sizes = (1, 2, 3, 4) if tier == "quick" else (1, 2, 3, 4, 5, 6)
    for rev in (False, True):
        for n in sizes:
            P = syms("p", n)
            for m in sizes:
                Q = syms("q", m)
                got = call("multiply", P, Q, reverse=rev)
                ob(f"multiply (len {n} x len {m}, reverse={rev})", isinstance(got, list) and denote(got, rev) == denote(P, rev) * denote(Q, rev),
                   "the coefficient list does not denote P(x) * Q(x)")
                got = call("add", P, Q, reverse=rev)
                # in the reversed convention the shorter polynomial is aligned at the highest power
                want = denote(P, rev) + denote(Q, rev)
                ob(f"add (len {n} + len {m}, reverse={rev})", isinstance(got, list) and denote(got, rev) == want, "the coefficient list does not denote P(x) + Q(x)")
            # the empty list is the zero polynomial (divmod returns it as remainder of an exact division, as quotient of a lower degree)
            for A_, B_, tag in ((P, [], "+ []"), ([], P, "[] +")):
                got = call("add", list(A_), list(B_), reverse=rev)
                ob(f"add (len {n} {tag}, reverse={rev})", isinstance(got, list) and denote(got, rev) == denote(P, rev),
                   f"adding the empty (zero) polynomial returns {got!r}, not P: in the reversed convention `P[:-0]` is the empty list")
            for k in (0, 1, 2, 3):
                got = call("derivative", P, n=k, reverse=rev)
                cs = list(reversed(P)) if rev else list(P)
                for _ in range(k):
                    cs = [cs[i] * i for i in range(1, len(cs))]
                want = denote(cs, False)
                ob(f"derivative (len {n}, order {k}, reverse={rev})", isinstance(got, list) and denote(got, rev) == want, "the coefficient list does not denote the derivative")
            z0 = Poly.atom("z0")
            got = call("taylorat", P, z0, reverse=rev)
            if isinstance(got, list):
                cs = list(reversed(got)) if rev else list(got)
                tot = Poly.const(0)
                pw = Poly.const(1)
                for c in cs:
                    tot = tot + Poly.lift(c) * pw
                    pw = pw * (X - z0)
                okt = tot == denote(P, rev)
            else:
                okt = False
            ob(f"taylorat (len {n}, reverse={rev})", okt, "sum C_m (x - z0)**m differs from P(x)")
            R = syms("r", n)
            got = call("rpolynomial", X, R, reverse=rev)
            cs = list(reversed(R)) if rev else list(R)
            tot, prod = Poly.const(0), Poly.const(1)
            for i, c in enumerate(cs):
                prod = prod * c
                tot = tot + prod * xpow(i)
            ob(f"rpolynomial (len {n}, reverse={rev})", isinstance(got, Poly) and got == tot, "the value differs from the polynomial whose coefficient ratios are given")
    # division: symbolic dividend (generic coefficients), concrete divisors
    def eff_len(cs, rev):
        """number of coefficients up to the highest-order non-zero one"""
        cs = list(reversed(cs)) if rev else list(cs)
        while cs and (cs[-1] == 0 if not isinstance(cs[-1], Poly) else not cs[-1].t):
            cs.pop()
        return len(cs)

    for rev in (False, True):
        for D0 in ([3, -2, 5], [1, 0, 2], [7], [2, 1], [Fraction(1, 2), 0, 0, 3]):
            # the divisor as given, and padded with zeros at its high-order end (the same polynomial)
            for pad in (0, 2):
                D = (list(D0) + [0] * pad) if not rev else ([0] * pad + list(reversed(D0)))
                for n in (1, 2, 3, 4, 5, 6):
                    P = syms("p", n)
                    got = call("divmod", P, list(D), reverse=rev)
                    okd = False
                    detail = f"divmod returned {got!r}"
                    if isinstance(got, tuple) and len(got) == 2 and isinstance(got[0], list) and isinstance(got[1], list):
                        Qc, Rc = got
                        ident = denote(P, rev) == denote(Qc, rev) * denote(D, rev) + denote(Rc, rev)
                        degs = eff_len(Rc, rev) < eff_len(D, rev)
                        okd = ident and degs
                        detail = ("P != Q*D + R" if not ident else f"deg R >= deg D: {eff_len(Rc, rev)} remainder coefficient(s) against a divisor of "
                                  f"{eff_len(D, rev)} (the divisor is given with {pad} zero coefficient(s) at its high-order end)")
                    ob(f"divmod (len {n} by {D}, reverse={rev})", okd, detail)
    # every evaluation scheme of fast_polynomial, degrees 0..N
    maxdeg = 12 if tier == "quick" else 24
    schemes = [None] + [repo.func(rel, nm) for nm in ("canonical_scheme", "horner_scheme", "estrin_dac_scheme", "balanced_dac_scheme")]
    for sc in schemes:
        for rev in (False, True):
            bad = []
            for deg in range(0, maxdeg + 1):
                C = syms("c", deg + 1)
                I = Interp(repo, max_steps=50_000_000)
                I.ext_calls = {"math.log": math.log, "numpy.log": math.log, "math.comb": math.comb}
                scv = None if sc is None else Closure(sc, {}, I, rel, bound_self=None)
                try:
                    got = I.call(Closure(repo.func(rel, "fast_polynomial"), {}, I, rel, bound_self=None), [X, C], dict(reverse=rev, scheme=scv))
                except (IUnsupported, PyRaise, TypeError, RecursionError) as e:
                    raise AnalysisError(f"polynomial.fast_polynomial(scheme={getattr(sc, 'name', None)}) is not interpretable: {getattr(e, 'what', e)}")
                if not (isinstance(got, Poly) and got == denote(C, rev)):
                    bad.append(deg)
            nm = "default" if sc is None else sc.name
            r.ob(rule, f"{rel}::fast_polynomial scheme={nm} reverse={rev} degrees 0..{maxdeg}", not bad,
                 f"the value differs from sum c_i x**i for degree(s) {bad[:12]}", loc(rel, repo.func(rel, "fast_polynomial")))


def check_zero_polynomial(r, repo, rule="R16.7"):
    """The algebra of polynomial.py produces the zero polynomial as the empty coefficient list (derivative of a constant, add of
    empty operands), so the evaluator must accept it.  fast_polynomial is interpreted (sa/absint.py) on coeffs = [] with its
    recursive call replaced by a probe: reaching the recursion with an empty list again means the base cases (N == 0, N == 1) do
    not cover it and the evaluation never terminates."""
    from sa.absint import Interp, Closure, Unsupported as IUnsupported, PyRaise
    from rules.C12 import Poly

    rel = "polynomial.py"
    d = repo.func(rel, "derivative")
    produces_empty = None
    I0 = Interp(repo)
    try:
        out0 = I0.call(Closure(d, {}, I0, rel, bound_self=None), [[Poly.atom("c0")]])
        produces_empty = isinstance(out0, list) and len(out0) == 0
    except (IUnsupported, PyRaise, TypeError):
        produces_empty = None
    if not produces_empty:
        r.ob(rule, f"{rel}::derivative of a constant is not the empty list (nothing to check)", True, "", loc(rel, d))
        return
    f = repo.func(rel, "fast_polynomial")
    hits = []

    def probe(x, coeffs, *a, **k):
        hits.append(len(coeffs) if isinstance(coeffs, (list, tuple)) else None)
        return Poly.const(0)

    verdict = None
    I = Interp(repo)
    I.globals_cache[(rel, "fast_polynomial")] = probe
    try:
        out = I.call(Closure(f, {}, I, rel, bound_self=None), [Poly.atom("x"), []])
        verdict = "returns" if not hits else "recurses"
    except PyRaise as e:
        verdict = "raises " + str(getattr(e, "what", e))[:80]
    except (IUnsupported, TypeError) as e:
        raise AnalysisError(f"fast_polynomial is not interpretable on the empty list: {getattr(e, 'what', e)}")
    ok = verdict == "returns"
    r.ob(rule, f"{rel}::fast_polynomial evaluates the zero polynomial (empty coefficient list)", ok,
         f"derivative([c]) returns [] and fast_polynomial(x, []) {('calls itself on the empty list again (' + str(hits[:3]) + '): no base case covers N = -1, the evaluation ends in RecursionError') if verdict == 'recurses' else verdict}",
         loc(rel, f))


def run(repo, tier):
    r = Report("C16", tier, repo, level="other", design_ref="§3/C16")
    r.explanation = (
        "Coefficient-coverage analysis of the polynomial evaluators: on every statement path that returns a value, the index "
        "sets of the coefficient list that are read, iterated or handed to a (recursive or sibling) evaluator are tracked as "
        "intervals with bounds affine in the list length and must partition [0, len) exactly (recursion on a slice covers the "
        "slice by induction). Plus exponent bookkeeping of fast_exponent_by_squaring and of the split recombination, and "
        "agreement of the duplicated implementations. The arithmetic combining the coefficients is otherwise NOT decided."
    )
    r.trusted_base = ["Python ast", "induction hypothesis: an evaluator applied to a slice consumes exactly that slice"]
    r.assumptions = ["scheme(k, N) returns d with 0 <= d <= N", "coefficient lists are Python lists (slicing semantics)"]
    r.rule("R16.1", "every returning path of an evaluator consumes each coefficient index exactly once", floor=20)
    r.rule("R16.2", "the duplicated implementations (polynomial.py / floating_point_algorithms.py) consume coefficients identically", floor=2)
    r.rule("R16.4", "a running power/accumulator updated in a loop (`v *= w`) is updated on every path through the loop body", floor=1)
    r.rule("R16.5", "polynomial division shifts the divisor by the degree of the current remainder, not by an iteration counter", floor=1)
    r.rule("R16.6", "polynomial algebra on symbolic coefficients: multiply, add, derivative, taylorat, rpolynomial and every scheme of fast_polynomial return exactly the polynomial they denote (identity of exact polynomials in the coefficient symbols and x)", floor=100)
    r.rule("R16.7", "the evaluator accepts the zero polynomial in the form the algebra produces it (empty coefficient list)", floor=1)
    r.rule("R16.3", "exponent bookkeeping: fast_exponent_by_squaring returns x**n; the high part of a split is multiplied by x**d", floor=6)

    signatures = {}
    for rel, fns in EVALUATORS.items():
        for fname, cname in fns.items():
            f = repo.func(rel, fname)
            params = [a.arg for a in f.args.args]
            if cname not in params:
                raise AnalysisError(f"{rel}::{fname}: coefficient parameter `{cname}` vanished (has {params})")
            sig = []
            # interval bounds mention locals (the split point): compare siblings on rename-invariant names
            locals_ = set(canon_locals(f))
            import re as _re2

            def _canon_sig(items, locals_=locals_):
                """the intervals with locals numbered by first occurrence (after ordering by their name-free shape)"""
                ident = r"[A-Za-z_][A-Za-z_0-9]*"
                shape = lambda t: _re2.sub(ident, lambda m_: "@" if m_.group(0) in locals_ else m_.group(0), t)
                items = sorted(items, key=lambda t: (shape(t), t))
                num = {}

                def ren(m_):
                    w = m_.group(0)
                    if w not in locals_:
                        return w
                    return num.setdefault(w, f"@{len(num) + 1}")

                return tuple(sorted(_re2.sub(ident, ren, t) for t in items))

            for p in enumerate_paths(f, unroll=(1,)):
                if p.exit != "return":
                    continue
                ivs, eqs = path_consumption(p, f, cname)
                ok, why = covers(ivs, eqs)
                conds = [("" if e.pol else "not ") + norm_src(e.node) for e in p.events if e.kind == "test"]
                key = f"{rel}::{fname} path [{' & '.join(conds) or 'true'}]"
                r.ob("R16.1", key, ok, why, loc(rel, p.exit_node), sample=dict(rule="R16.1", key=key, consumed=why[:300]))
                sig.append((tuple(c for c in conds if "500" not in c and "scheme is None" not in c and "_N is None" not in c), _canon_sig([f"{lo}..{hi}" for lo, hi, _ in ivs])))
            signatures[(rel, fname)] = set(sig)

    # ---- R16.2 sibling agreement
    for fname in ("fast_polynomial", "rpolynomial"):
        a = {s[1] for s in signatures[("polynomial.py", fname)]}
        b = {s[1] for s in signatures[("floating_point_algorithms.py", fname)]}
        r.ob("R16.2", f"{fname}: polynomial.py vs floating_point_algorithms.py consumption patterns", a == b,
             f"the two copies consume coefficients differently: only in polynomial.py {sorted(a - b)}, only in floating_point_algorithms.py {sorted(b - a)}", loc("polynomial.py", repo.func("polynomial.py", fname)))

    # ---- R16.3 exponent bookkeeping: one unfolding of fast_exponent_by_squaring with the recursive call summarised by its
    # contract (induction hypothesis), interpreted for n = 0..16 and for n = 8q + r (q >= 1 symbolic, r = 0..7)
    from sa.absint import Interp, Closure, Unsupported as IUnsupported, PyRaise
    from sa.linint import Lin as SLin, Paths

    class XPow:
        __absint_host__ = True

        def __init__(self, e):
            self.e = e

        def __mul__(self, o):
            if isinstance(o, XPow):
                return XPow(self.e + o.e)
            if isinstance(o, int) and o == 1:
                return self
            return NotImplemented

        __rmul__ = __mul__

    class PCtx:
        __absint_host__ = True

        def constant(self, v, like=None):
            if v == 1:
                return XPow(0)
            raise TypeError(f"constant {v!r} in a power")

    for rel in ("polynomial.py", "floating_point_algorithms.py"):
        f = repo.func(rel, "fast_exponent_by_squaring")
        params = [a_.arg for a_ in f.args.args]
        with_ctx = len(params) == 3

        def summary(*args):
            xx, m = args[-2], args[-1]
            if not isinstance(xx, XPow):
                raise TypeError("recursive call on something that is not a power of x")
            return XPow(xx.e * m if isinstance(xx.e, int) else m * xx.e)

        def run_for(nval):
            def run():
                I = Interp(repo)
                I.globals_cache[(rel, "fast_exponent_by_squaring")] = summary
                args = ([PCtx()] if with_ctx else []) + [XPow(1), nval]
                return I.call(Closure(f, {}, I, rel, bound_self=None), args)
            return run

        cases = [(f"n={k_}", k_, []) for k_ in range(0, 17)] + [(f"n=8q+{r_}", SLin({"q": 8}, r_), [(SLin({"q": 1}, -1), ">=")]) for r_ in range(8)]
        for label, nval, facts in cases:
            try:
                outs = list(Paths.explore(run_for(nval), base_facts=facts))
            except (IUnsupported, PyRaise, TypeError) as e:
                raise AnalysisError(f"{rel}::fast_exponent_by_squaring is not interpretable for {label}: {getattr(e, 'what', e)}")
            for ctx_, got in outs:
                if isinstance(got, int) and got == 1:
                    got = XPow(0)
                e_ = got.e if isinstance(got, XPow) else None
                if isinstance(nval, int):
                    ok = e_ is not None and (e_ == nval if isinstance(e_, int) else (isinstance(e_, SLin) and e_.same(nval)))
                else:
                    ok = isinstance(e_, SLin) and e_.same(nval)
                r.ob("R16.3", f"{rel}::fast_exponent_by_squaring {label}", ok,
                     f"with the recursive call returning x**(its exponent argument), the function returns x**({e_!r}) for n = {nval!r}", loc(rel, f))
        # split recombination in fast_polynomial
        g = repo.func(rel, "fast_polynomial")
        ret = [n for n in ast.walk(g) if isinstance(n, ast.Return) and isinstance(n.value, ast.BinOp) and isinstance(n.value.op, ast.Add)]
        env = {}
        for st in ast.walk(g):
            if isinstance(st, ast.Assign) and isinstance(st.targets[0], ast.Name):
                env[st.targets[0].id] = st.value
        ok = False
        detail = "recombination `a * xd + b` not found"
        for rt in ret:
            v = rt.value
            mul, rest = (v.left, v.right) if isinstance(v.left, ast.BinOp) and isinstance(v.left.op, ast.Mult) else (v.right, v.left)
            if not (isinstance(mul, ast.BinOp) and isinstance(mul.op, ast.Mult)):
                continue
            names = [dotted(mul.left), dotted(mul.right), dotted(rest)]
            hi_part = lo_part = power = None
            for nm in names[:2]:
                val = env.get(nm)
                if isinstance(val, ast.Call) and (call_name(val) or "").endswith("fast_exponent_by_squaring"):
                    power = val
                elif isinstance(val, ast.Call) and (call_name(val) or "").endswith("fast_polynomial"):
                    hi_part = val
            lo_val = env.get(names[2])
            if isinstance(lo_val, ast.Call) and (call_name(lo_val) or "").endswith("fast_polynomial"):
                lo_part = lo_val
            if hi_part is None or lo_part is None or power is None:
                continue
            his = [norm_src(a) for a in hi_part.args]
            los = [norm_src(a) for a in lo_part.args]
            pw = norm_src(power.args[-1])
            ok = any(h == f"coeffs[{pw}:]" for h in his) and any(l == f"coeffs[:{pw}]" for l in los)
            detail = f"high part {his}, low part {los}, power x**{pw}: P = A*x**d + B needs A from coeffs[d:], B from coeffs[:d] and the same d"
        r.ob("R16.3", f"{rel}::fast_polynomial split recombination", ok, detail, loc(rel, g))
    check_polynomial_algebra(r, repo, tier)
    # ---- R16.4 running powers: `z0e *= z0` must not be skipped by a `continue` / conditional
    n_acc = 0
    for rel in ("polynomial.py",):
        for f in [n for n in ast.walk(repo.tree(rel)) if isinstance(n, ast.FunctionDef)]:
            for lp in [n for n in ast.walk(f) if isinstance(n, (ast.For, ast.While))]:
                accs = [st for st in lp.body if isinstance(st, ast.AugAssign) and isinstance(st.op, ast.Mult) and isinstance(st.target, ast.Name)]
                for acc in accs:
                    # the accumulator is a running power only if it is also read in the loop body
                    reads = [n for st in lp.body for n in ast.walk(st) if isinstance(n, ast.Name) and n.id == acc.target.id and isinstance(n.ctx, ast.Load)]
                    if not reads:
                        continue
                    n_acc += 1
                    idx = lp.body.index(acc)
                    skipping = []
                    for st in lp.body[:idx]:
                        for n in ast.walk(st):
                            if isinstance(n, (ast.Continue, ast.Break)):
                                skipping.append(n)
                    r.ob("R16.4", f"{rel}::{f.name} running accumulator `{norm_src(acc)}`", not skipping,
                         f"`{norm_src(acc)}` keeps {acc.target.id} in step with the loop index, but a `continue`/`break` at line "
                         f"{skipping[0].lineno if skipping else '?'} leaves the loop body before it: after a skipped iteration every later term uses a stale power",
                         loc(rel, acc))
    if n_acc == 0:
        raise AnalysisError("R16.4: no running accumulator found (taylorat's `z0e *= z0` vanished)")

    # ---- R16.5 divmod alignment
    dm = repo.func("polynomial.py", "divmod")
    loops = [n for n in dm.body if isinstance(n, (ast.For, ast.While))]
    if not loops:
        raise AnalysisError("polynomial.divmod: division loop not found")
    lp = loops[-1] if isinstance(loops[-1], ast.While) and "pop" in norm_src(loops[-1]) and len(loops) > 1 else loops[0]
    for cand in loops:
        if any((call_name(c) or "") == "multiply" for c in calls_in(cand)):
            lp = cand
    muls = [c for c in calls_in(lp) if (call_name(c) or "") == "multiply"]
    if not muls:
        raise AnalysisError("polynomial.divmod: `multiply(-t, <shifted divisor>)` not found in the loop")
    shifted = muls[0].args[1]
    # names the shift depends on
    shift_names = {n.id for n in ast.walk(shifted) if isinstance(n, ast.Name)} - {"D"}
    derived_from_R = False
    for st in lp.body:
        if isinstance(st, ast.Assign) and isinstance(st.targets[0], ast.Name) and st.targets[0].id in shift_names:
            if "len(R)" in norm_src(st.value):
                derived_from_R = True
    counter = isinstance(lp, ast.For) and isinstance(lp.target, ast.Name) and lp.target.id in shift_names
    variable_shrink = any(isinstance(n, ast.While) and "pop" in norm_src(n) for n in lp.body)
    ok = derived_from_R or not (counter and variable_shrink)
    r.ob("R16.5", "polynomial.py::divmod divisor alignment", ok,
         f"the divisor is shifted by `{norm_src(shifted)}` using the loop counter while the remainder is shortened by a data-dependent number of "
         "terms per step (`while R and R[-1] == 0: R.pop()`): with zero coefficients the two get out of step and P != Q*D + R or deg R >= deg D", loc("polynomial.py", lp))
    check_zero_polynomial(r, repo)
    return r


def _exponent(node, env, xname):
    """Exponent of x denoted by a product expression; `r` stands for x**h (induction hypothesis h = n // 2)."""
    if isinstance(node, ast.Name):
        if node.id == xname:
            return Lin({}, 1)
        if node.id in env:
            v = env[node.id]
            if isinstance(v, ast.Call) and (call_name(v) or "").endswith("fast_exponent_by_squaring"):
                a = norm_src(v.args[-1])
                if a == "n // 2":
                    return Lin({"h": 1})
                raise NotLinear(a)
            return _exponent(v, env, xname)
        raise NotLinear(node.id)
    if isinstance(node, ast.Constant) and node.value == 1:
        return Lin({}, 0)
    if isinstance(node, ast.Call) and (call_name(node) or "").endswith("constant") and node.args and isinstance(node.args[0], ast.Constant) and node.args[0].value == 1:
        return Lin({}, 0)
    if isinstance(node, ast.BinOp) and isinstance(node.op, ast.Mult):
        return _exponent(node.left, env, xname) + _exponent(node.right, env, xname)
    raise NotLinear(norm_src(node))
