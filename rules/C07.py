"""C07 — expression identity is structural identity.  Rules R7.1 .. R7.4 (DESIGN.md §3/C07)."""

from __future__ import annotations

import ast

from sa.core import inlined_src, AnalysisError, Report, loc, norm_src
from sa.paths import enumerate_paths, calls_in, call_name, dotted
from sa.defuse import origins

INJECTIVE_ENCODERS = {"str", "repr", "hex", "float.hex", "struct.pack", "tobytes", "math.copysign", "numpy.signbit", "numpy.copysign", "signbit", "copysign", "bytes", "format", "float.hex"}


def _names(node):
    return {n.id for n in ast.walk(node) if isinstance(n, ast.Name)}


def _mentions(node, dotted_name):
    return any(dotted(n) == dotted_name for n in ast.walk(node) if isinstance(n, (ast.Attribute, ast.Name)))


NUMERIC_TYPES = {"int", "float", "complex", "bool", "numbers.Number", "numbers.Real", "numbers.Complex", "numbers.Integral", "numpy.floating",
                 "numpy.integer", "numpy.number", "numpy.complexfloating", "numpy.generic", "integer_types", "float_types", "complex_types",
                 "boolean_types", "scalar_types", "number_types"}
INTEGER_ONLY = {"int", "integer_types", "numbers.Integral", "numpy.integer"}
NON_NUMERIC = {"str", "bytes", "Expr", "Type", "type", "tuple", "list", "dict"}


def _isinstance_guards(test):
    """{name: set of type names} for `isinstance(name, T)` conjuncts of a test"""
    out = {}
    if isinstance(test, ast.BoolOp) and isinstance(test.op, ast.And):
        for v in test.values:
            out.update(_isinstance_guards(v))
    elif isinstance(test, ast.Call) and dotted(test.func) == "isinstance" and len(test.args) == 2 and isinstance(test.args[0], ast.Name):
        t = test.args[1]
        ts = {dotted(e) or "?" for e in (t.elts if isinstance(t, ast.Tuple) else [t])}
        out[test.args[0].id] = ts
    return out


def raw_scalar_keys(func):
    """(number of taint sources, [(kind, node, name, why)]): uses of a raw scalar value as a mapping/set key inside `func`.

    A name is a raw scalar (a) inside the body of `if isinstance(name, T)` when T contains a numeric type other than integer-only
    types (an integer is a legitimate sequence index), (b) everywhere in a function that passes it as the value of a constant
    construction (`Expr(ctx, "constant", (name, ...))`, `make_constant(ctx, name, ...)`), except inside `if isinstance(name, str)`.
    A key is raw when it is the name itself or a tuple display with the name as an element, unless the key also carries
    type(name) and an injective encoding (str/repr/...) of it."""
    global_taint = {}
    for n in ast.walk(func):
        if isinstance(n, ast.Call):
            fn = (dotted(n.func) or "").split(".")[-1]
            if fn == "Expr" and len(n.args) >= 3 and isinstance(n.args[1], ast.Constant) and n.args[1].value == "constant" \
                    and isinstance(n.args[2], ast.Tuple) and n.args[2].elts and isinstance(n.args[2].elts[0], ast.Name):
                global_taint[n.args[2].elts[0].id] = "it becomes the value of a constant expression"
            elif fn == "make_constant" and len(n.args) >= 2 and isinstance(n.args[1], ast.Name):
                global_taint[n.args[1].id] = "it is passed to make_constant as the value"
    nsrc = len(global_taint)
    hits = []

    def safe_key(key, name):
        src = norm_src(key)
        has_type = f"type({name})" in src
        enc = any(isinstance(c, ast.Call) and ((call_name(c) or "").split(".")[-1] in INJECTIVE_ENCODERS) and name in _names(c) for c in ast.walk(key))
        return has_type and enc

    def raw_names(key, taint):
        cand = [key] if isinstance(key, ast.Name) else (list(key.elts) if isinstance(key, ast.Tuple) else [])
        return [c.id for c in cand if isinstance(c, ast.Name) and c.id in taint]

    def scan_expr(node, taint):
        for m in ast.walk(node):
            key = kind = None
            if isinstance(m, ast.Subscript):
                key, kind = m.slice, "subscript"
            elif isinstance(m, ast.Call) and isinstance(m.func, ast.Attribute) and m.func.attr in ("get", "setdefault", "pop", "add", "discard") and m.args:
                key, kind = m.args[0], f".{m.func.attr}()"
            if key is None:
                continue
            for nm in raw_names(key, taint):
                if not safe_key(key, nm):
                    hits.append((kind, m, nm, taint[nm]))

    def visit(stmts, taint):
        nonlocal nsrc
        for st in stmts:
            if isinstance(st, ast.If):
                scan_expr(st.test, taint)
                g = _isinstance_guards(st.test)
                t2 = dict(taint)
                for nm, ts in g.items():
                    if ts & NUMERIC_TYPES and not ts <= INTEGER_ONLY:
                        t2[nm] = f"isinstance({nm}, {{{', '.join(sorted(ts))}}}) holds"
                        nsrc += 1
                    elif ts <= NON_NUMERIC:
                        t2.pop(nm, None)
                visit(st.body, t2)
                visit(st.orelse, taint)
            elif isinstance(st, (ast.For, ast.While, ast.With, ast.Try)):
                for fld in ("iter", "test"):
                    if hasattr(st, fld):
                        scan_expr(getattr(st, fld), taint)
                for fld in ("body", "orelse", "finalbody"):
                    visit(getattr(st, fld, []) or [], taint)
                for h in getattr(st, "handlers", []) or []:
                    visit(h.body, taint)
            elif isinstance(st, (ast.FunctionDef, ast.AsyncFunctionDef, ast.ClassDef)):
                continue
            else:
                scan_expr(st, taint)
                # a rebinding of the name ends its raw-scalar status for the rest of the block
                if isinstance(st, ast.Assign):
                    for t in st.targets:
                        if isinstance(t, ast.Name) and t.id in taint and t.id not in global_taint:
                            taint = {k: v for k, v in taint.items() if k != t.id}

    visit(func.body, dict(global_taint))
    return nsrc, hits


def run(repo, tier):
    r = Report("C07", tier, repo, level="other", design_ref="§3/C07")
    r.explanation = (
        "Structural audit of hash-consing: the registration key is injective in kind, every operand, constant value encoding "
        "(including the sign of zero), value type and like key; Expr.__new__ leaves only through Context._register_expression; "
        "the expression table has one writer on the miss path only and the hit path returns the registered object; Type "
        "singletons hash and compare on consistent fields. Decided on the AST and statement paths of expr.py/context.py/typesystem.py."
    )
    r.trusted_base = ["Python ast", "Python semantics of tuple hashing/equality (0.0 == -0.0, hash equal)"]
    r.assumptions = ["contexts are not shared between threads", "intkeys are per-context (construction order), not compared across contexts"]
    r.rule("R7.1", "a constant's key encodes its value injectively, including the sign of zero", floor=1)
    r.rule("R7.2", "keys contain the kind, the value's type name, the like key and one component per operand, in order", floor=6)
    r.rule("R7.3", "Expr.__new__ exits only through registration; the expression table is written once per miss, never on a hit", floor=6)
    r.rule("R7.4", "Type singletons: __hash__ uses a subset of the fields __eq__ compares; the table is consulted before insertion; every scalar type spelling is parsed to its own (kind, bits)", floor=17)
    r.rule("R7.6", "the key of a constant compares equal to itself for every value (no raw NaN-capable component): identical constructions give the same object", floor=1)
    r.rule("R7.5", "no mapping or set in expr.py/context.py is keyed by a raw scalar value (a second interning table in front of registration)", floor=2)

    rel = "expr.py"
    cs = repo.func(rel, "Expr._compute_serialized")
    # locate the three branches by their test on self.kind
    branches = {}
    top_if = [s for s in cs.body if isinstance(s, ast.If)]
    if len(top_if) != 1:
        raise AnalysisError("Expr._compute_serialized: expected one if/elif chain")
    node = top_if[0]
    while True:
        t = node.test
        if isinstance(t, ast.Compare) and dotted(t.left) == "self.kind" and isinstance(t.comparators[0], ast.Constant):
            branches[t.comparators[0].value] = node.body
        else:
            raise AnalysisError(f"Expr._compute_serialized: unrecognised test `{norm_src(t)}`")
        if len(node.orelse) == 1 and isinstance(node.orelse[0], ast.If):
            node = node.orelse[0]
        else:
            branches["<other>"] = node.orelse
            break
    for need in ("symbol", "constant", "<other>"):
        if need not in branches:
            raise AnalysisError(f"Expr._compute_serialized: branch for {need} not found")

    # the key is whatever local is stored into the (name-mangled) attribute self.__serialized
    stores = [st for st in ast.walk(cs) if isinstance(st, ast.Assign) and isinstance(st.targets[0], ast.Attribute) and st.targets[0].attr.endswith("__serialized")
              and isinstance(st.value, ast.Name)]
    if len(stores) != 1:
        raise AnalysisError("Expr._compute_serialized: the single store `self.__serialized = <key>` not found")
    keyvar = stores[0].value.id

    def rvalue(body):
        for st in body:
            if isinstance(st, ast.Assign) and dotted(st.targets[0]) == keyvar:
                return st.value
        raise AnalysisError(f"Expr._compute_serialized: `{keyvar} = (...)` not found in a branch")

    # ---- constant branch
    cv = rvalue(branches["constant"])
    if not isinstance(cv, ast.Tuple):
        raise AnalysisError("constant key is not a tuple literal")
    # unpacking `value, like = self.operands`
    unpack = [st for st in branches["constant"] if isinstance(st, ast.Assign) and isinstance(st.targets[0], ast.Tuple) and dotted(st.value) == "self.operands"]
    if not unpack or len(unpack[0].targets[0].elts) != 2 or not all(isinstance(e, ast.Name) for e in unpack[0].targets[0].elts):
        raise AnalysisError("constant branch: `value, like = self.operands` not found")
    VAL, LIKE = (e.id for e in unpack[0].targets[0].elts)
    elts = cv.elts
    has_kind = any(_mentions(e, "self.kind") for e in elts)
    r.ob("R7.2", "expr.py::Expr._compute_serialized constant key contains kind", has_kind, "constant key lost its kind component", loc(rel, cv))
    has_like = any(dotted(e) == f"{LIKE}.key" for e in elts)
    r.ob("R7.2", "expr.py::Expr._compute_serialized constant key contains like.key", has_like, "constant key lost the key of the like operand (reference type)", loc(rel, cv))
    val_elts = [e for e in elts if VAL in _names(e)]
    if not val_elts:
        # the value part built beforehand, statement by statement: `if isinstance(value, Expr): vk = value.key  elif ...: vk = (...)  else: vk = (...)`
        # - every arm is judged like the inline form; a local used inside an arm stands for its definition
        cand = [e for e in elts if isinstance(e, ast.Name)]
        arms = []
        for e in cand:
            defs = [st.value for b_ in branches["constant"] for st in ast.walk(b_) if isinstance(st, ast.Assign) and any(isinstance(t_, ast.Name) and t_.id == e.id for t_ in st.targets)]
            if defs and any(VAL in _names(d_) or any(isinstance(x, ast.Name) for x in ast.walk(d_)) for d_ in defs):
                arms = defs
                break
        if not arms:
            raise AnalysisError("constant key: value component not recognised")
        from sa.core import fresh_copy, _Renamer
        local_defs = {}
        for b_ in branches["constant"]:
            for st in ast.walk(b_):
                if isinstance(st, ast.Assign) and len(st.targets) == 1 and isinstance(st.targets[0], ast.Name):
                    local_defs.setdefault(st.targets[0].id, []).append(st.value)

        class _Inl(ast.NodeTransformer):
            def visit_Name(self, n):
                d_ = local_defs.get(n.id)
                if isinstance(n.ctx, ast.Load) and d_ and len(d_) == 1 and n.id not in (VAL, LIKE):
                    return self.visit(fresh_copy(d_[0]))
                return n

        n_arm = 0
        for arm in arms:
            arm = _Inl().visit(fresh_copy(arm))
            ast.fix_missing_locations(arm)
            if dotted(arm) == f"{VAL}.key":
                continue
            n_arm += 1
            comps_ = arm.elts if isinstance(arm, ast.Tuple) else [arm]
            direct = [c for c in comps_ if isinstance(c, ast.Call) and ((call_name(c) or "") in INJECTIVE_ENCODERS or (call_name(c) or "").split(".")[-1] in INJECTIVE_ENCODERS)
                      and any(dotted(a) == VAL for a in c.args)]
            lossy = [norm_src(c) for c in comps_ if isinstance(c, ast.Call) and ((call_name(c) or "").split(".")[-1] in INJECTIVE_ENCODERS) and not any(dotted(a) == VAL for a in c.args)
                     and any(VAL in _names(a) for a in c.args)]
            r.ob("R7.1", f"expr.py::Expr._compute_serialized constant value encoding (arm {n_arm})", bool(direct),
                 f"the value enters the key as `{norm_src(arm)[:160]}`" + (f": the encoding `{lossy[0]}` is applied to a conversion of the value, not to the value - a conversion such as "
                                                                         "float() maps different numpy.longdouble values to one key" if lossy else "")
                 + "; without an injective text of the value itself, values that compare equal (0.0 and -0.0) or convert equal share one constant", loc(rel, arms[0]))
            has_type_ = any(f"type({VAL})" in norm_src(c) for c in comps_)
            r.ob("R7.2", f"expr.py::Expr._compute_serialized constant key contains the value's type (arm {n_arm})", has_type_,
                 "the key of a constant no longer contains type(value): 1, 1.0 and True hash and compare equal", loc(rel, arms[0]))
        if n_arm == 0:
            raise AnalysisError("constant key: value component not recognised")
        ve = None
    elif len(val_elts) != 1:
        raise AnalysisError("constant key: value component not recognised")
    else:
        ve = val_elts[0]
    if ve is not None:
        # a helper function that builds the value part of the key is followed into its body
        if isinstance(ve, ast.Call) and isinstance(ve.func, ast.Name) and len(ve.args) == 1 and dotted(ve.args[0]) == VAL and repo.has(rel, ve.func.id):
            helper = repo.func(rel, ve.func.id)
            hp = [a.arg for a in helper.args.args]
            body = [st for st in helper.body if not (isinstance(st, ast.Expr) and isinstance(st.value, ast.Constant))]
            expr_ = None
            if len(hp) == 1 and len(body) == 1 and isinstance(body[0], ast.Return):
                expr_ = body[0].value
            elif len(hp) == 1 and len(body) == 2 and isinstance(body[0], ast.If) and not body[0].orelse and len(body[0].body) == 1 \
                    and isinstance(body[0].body[0], ast.Return) and isinstance(body[1], ast.Return):
                expr_ = ast.IfExp(test=body[0].test, body=body[0].body[0].value, orelse=body[1].value)
            if expr_ is None:
                raise AnalysisError(f"constant key: helper {ve.func.id} is not a single-expression function")
            from sa.core import fresh_copy, _Renamer
            ve = _Renamer({hp[0]: VAL}).visit(fresh_copy(expr_))
            ast.fix_missing_locations(ve)
            for n_ in ast.walk(ve):
                n_.lineno = getattr(helper, "lineno", 0)
        plain = ve.orelse if isinstance(ve, ast.IfExp) else ve
        if isinstance(ve, ast.IfExp):
            ok = dotted(ve.body) == f"{VAL}.key" and f"isinstance({VAL}, Expr)" in norm_src(ve.test)
            r.ob("R7.2", "expr.py::Expr._compute_serialized constant value that is an expression uses its key", ok, f"`{norm_src(ve)}`", loc(rel, ve))
        comps = plain.elts if isinstance(plain, ast.Tuple) else [plain]
        has_type = any(f"type({VAL})" in norm_src(c) for c in comps)
        r.ob("R7.2", "expr.py::Expr._compute_serialized constant key contains the value's type", has_type,
             "the key of a constant no longer contains type(value): 1, 1.0 and True hash and compare equal", loc(rel, plain))
        encoders = []
        conditional = []
        raw = False
        repo_encoders = []
        for c in comps:
            # an encoder defined in the repository itself (toidentifier): the key is as injective as that function
            if isinstance(c, ast.Call) and isinstance(c.func, ast.Name) and c.func.id == "toidentifier" and len(c.args) == 1 and dotted(c.args[0]) == VAL and repo.has(rel, "toidentifier"):
                repo_encoders.append(c.func.id)
        if repo_encoders:
            from rules.C05 import check_toidentifier

            before = len(r.obligations)
            check_toidentifier(r, repo, "R7.1")
            if len(r.obligations) == before:
                raise AnalysisError("constant key uses toidentifier but its injectivity obligations were not generated")
            encoders += repo_encoders
        for c in comps:
            if isinstance(c, ast.Name) and c.id == VAL:
                raw = True
                continue
            if f"type({VAL})" in norm_src(c):
                continue
            # an encoding counts only when it is applied unconditionally: the tuple element itself is the encoder call
            if isinstance(c, ast.Call):
                nm = call_name(c) or ""
                last = nm.split(".")[-1]
                on_value = any(VAL in _names(a) for a in c.args) or (isinstance(c.func, ast.Attribute) and VAL in _names(c.func.value))
                if (nm in INJECTIVE_ENCODERS or last in INJECTIVE_ENCODERS) and on_value and not any(isinstance(x, (ast.IfExp, ast.BoolOp)) for x in ast.walk(c)):
                    encoders.append(nm)
                    continue
            if VAL in _names(c) and any(isinstance(x, (ast.IfExp, ast.BoolOp, ast.Compare)) for x in ast.walk(c)):
                conditional.append(norm_src(c))
        ok = bool(encoders)
        r.ob(
            "R7.1",
            "expr.py::Expr._compute_serialized constant value encoding",
            ok,
            f"the value enters the key only as `{norm_src(plain)}`"
            + (f" (the encoding `{conditional[0]}` is applied only under a condition on the value, e.g. not for a non-zero complex value with a signed-zero part)" if conditional else "")
            + "; tuples compare with == and hash(), under which 0.0 and -0.0 (and complex values differing in the sign of a zero part) are the "
            "same key, so constant(-0.0, x) returns a previously built constant(0.0, x) (or vice versa, depending on history)",
            loc(rel, plain),
            sample=dict(rule="R7.1", key_component=norm_src(plain), encoders=encoders, raw_value_present=raw),
        )
        if not raw and not encoders:
            raise AnalysisError("constant key: neither raw value nor an encoder found")
        # the "if" direction: structurally identical constructions give the same object.  A key that contains the raw value is
        # compared with ==, and a NaN is not equal to itself: two constants built from two NaN objects get different keys
        r.ob("R7.6", "expr.py::Expr._compute_serialized constant key is reflexive for every value", not raw,
             f"the key contains the raw value (`{norm_src(plain)}`), which is compared with ==: nan != nan, so constant(float('nan'), x) built twice gives two "
             "objects (unless the very same NaN object is passed), although the constructions are structurally identical", loc(rel, plain))

    # ---- symbol branch
    sv = rvalue(branches["symbol"])
    s_txt = norm_src(sv)
    ok = "self.kind" in s_txt and "*self.operands" in s_txt
    r.ob("R7.2", "expr.py::Expr._compute_serialized symbol key", ok, f"symbol key `{s_txt}` does not contain kind, name and type", loc(rel, sv))

    # ---- generic branch
    gv = rvalue(branches["<other>"])
    ok = False
    detail = f"generic key `{norm_src(gv)}` is not (self.kind, *(operand._two_level_intkey for operand in self.operands))"
    if isinstance(gv, ast.Tuple) and len(gv.elts) == 2 and dotted(gv.elts[0]) == "self.kind" and isinstance(gv.elts[1], ast.Starred):
        g = gv.elts[1].value
        if isinstance(g, (ast.GeneratorExp, ast.ListComp)) and len(g.generators) == 1 and not g.generators[0].ifs:
            gen = g.generators[0]
            if dotted(gen.iter) == "self.operands" and isinstance(gen.target, ast.Name) and dotted(g.elt) == f"{gen.target.id}._two_level_intkey":
                ok = True
    r.ob("R7.2", "expr.py::Expr._compute_serialized generic key", ok, detail, loc(rel, gv))

    tl = repo.func(rel, "Expr._two_level_intkey")
    n_tl = 0
    leaf_kinds, inner_excludes = set(), []
    for p in enumerate_paths(tl):
        if p.exit != "return" or p.exit_node.value is None:
            continue
        n_tl += 1
        v = p.exit_node.value
        conds = [(norm_src(e.node), e.pol) for e in p.events if e.kind == "test"]
        # which kinds can take this path?  tests of self.kind against constants, with their polarity on the path
        from sa.paths import constants_on_path
        pos, neg = constants_on_path(p.events, "self.kind")
        LEAF = {"symbol", "constant"}
        here = None if pos is None else pos - neg
        leaf = here is not None and here and here <= LEAF
        if leaf:
            leaf_kinds |= here
            ok_leaf = isinstance(v, ast.Tuple) and [dotted(x) for x in v.elts] == ["self.kind", "self.intkey"]
            r.ob("R7.2", f"expr.py::Expr._two_level_intkey leaf {sorted(here)}", ok_leaf,
                 f"the two-level key of a {'/'.join(sorted(here))} operand is `{norm_src(v)}`; it must be (self.kind, self.intkey): the intkey is what tells apart two leaves of the same "
                 "name or value and different type", loc(rel, v))
            continue
        if here is None:
            inner_excludes.append(set(neg))
        # inner node: the key must contain the kind and the intkey of EVERY operand, in order
        has_kind = isinstance(v, ast.Tuple) and v.elts and dotted(v.elts[0]) == "self.kind"
        all_ops = False
        if isinstance(v, ast.Tuple):
            for x in v.elts[1:]:
                if isinstance(x, ast.Starred) and isinstance(x.value, (ast.GeneratorExp, ast.ListComp)) and len(x.value.generators) == 1:
                    ge = x.value.generators[0]
                    if dotted(ge.iter) == "self.operands" and not ge.ifs and isinstance(ge.target, ast.Name) and dotted(x.value.elt) == f"{ge.target.id}.intkey":
                        all_ops = True
        if not all_ops and isinstance(v, ast.Tuple):
            # explicit indexing is complete only under a path condition fixing the operand count
            idx = []
            for x in v.elts[1:]:
                t = norm_src(x)
                import re as _re
                m = _re.fullmatch(r"self\.operands\[(\d+)\]\.intkey", t)
                if m:
                    idx.append(int(m.group(1)))
            n_fixed = None
            for t, pol in conds:
                m = _re.fullmatch(r"len\(self\.operands\) == (\d+)", t) if idx else None
                if m and pol:
                    n_fixed = int(m.group(1))
            if idx and n_fixed is not None and idx == list(range(n_fixed)):
                all_ops = True
        r.ob("R7.2", f"expr.py::Expr._two_level_intkey inner path [{' & '.join(('' if pol else 'not ') + t for t, pol in conds)[-80:] or 'true'}]", has_kind and all_ops,
             f"two-level key of an operation is `{norm_src(v)}`; it must contain the kind and the intkey of every operand in order (an n-ary list/apply has arbitrarily many): "
             "operands that do not reach the key make structurally different parents register under the same key", loc(rel, v))
    if n_tl < 2:
        raise AnalysisError("Expr._two_level_intkey: fewer than two return paths")
    covered = leaf_kinds | (set.intersection(*inner_excludes) if inner_excludes else set())
    r.ob("R7.2", "expr.py::Expr._two_level_intkey leaf kinds", leaf_kinds == {"symbol", "constant"} and covered >= {"symbol", "constant"},
         f"kinds keyed by their own intkey are {sorted(leaf_kinds)}: kinds whose operands are not expressions (symbol, constant) must use their own intkey, all others their operands'", loc(rel, tl))

    # ---- key / intkey properties return the private fields set by the two setters
    for prop, field in (("key", "__serialized"), ("intkey", "__serialize_id")):
        f = repo.func(rel, f"Expr.{prop}")
        rr = [n for n in ast.walk(f) if isinstance(n, ast.Return)]
        ok = len(rr) == 1 and isinstance(rr[0].value, ast.Attribute) and rr[0].value.attr == field
        r.ob("R7.2", f"expr.py::Expr.{prop} returns {field}", ok, f"`{prop}` returns `{norm_src(rr[0].value) if rr else None}`", loc(rel, f))

    # ------------------------------------------------------------------ R7.3
    new = repo.func(rel, "Expr.__new__")
    rets = [n for n in ast.walk(new) if isinstance(n, ast.Return)]
    # the object under construction is the local bound to object.__new__(cls)
    alloc = [st for st in ast.walk(new) if isinstance(st, ast.Assign) and isinstance(st.targets[0], ast.Name) and isinstance(st.value, ast.Call) and dotted(st.value.func) == "object.__new__"]
    if len(alloc) != 1:
        raise AnalysisError("Expr.__new__: the single allocation `<obj> = object.__new__(cls)` not found")
    OBJ = alloc[0].targets[0].id
    for k_, rt in enumerate(rets):
        ok = isinstance(rt.value, ast.Call) and (call_name(rt.value) or "").endswith("._register_expression") and rt.value.args and dotted(rt.value.args[0]) == OBJ
        r.ob("R7.3", f"expr.py::Expr.__new__ return #{k_} registers the new object", ok, f"`{norm_src(rt)}`: Expr.__new__ returns an object that did not go through Context._register_expression", loc(rel, rt))
    # the key must be computed before registration, after operands are final
    order = [i for i, st in enumerate(new.body) if any((call_name(c) or "").endswith("_compute_serialized") for c in calls_in(st))]
    assign_ops = [i for i, st in enumerate(new.body) if isinstance(st, ast.Assign) and dotted(st.targets[0]) == f"{OBJ}.operands"]
    ok = bool(order) and bool(assign_ops) and assign_ops[-1] < order[0]
    r.ob("R7.3", "expr.py::Expr.__new__ key computed after operands are final", ok, "obj._compute_serialized() runs before obj.operands is assigned", loc(rel, new))
    # object.__new__ of Expr elsewhere
    for rel2 in repo.py_files():
        for n in ast.walk(repo.tree(rel2)):
            if isinstance(n, ast.Call) and dotted(n.func) == "object.__new__" and n.args:
                a = dotted(n.args[0])
                if a in ("Expr", "cls") and rel2 == "expr.py":
                    f = n
                    while f is not None and not isinstance(f, ast.FunctionDef):
                        f = getattr(f, "_parent", None)
                    cls = getattr(f, "_parent", None)
                    if isinstance(cls, ast.ClassDef) and cls.name == "Expr":
                        r.ob("R7.3", f"expr.py object.__new__ in Expr.{f.name}", f.name == "__new__", "an Expr is allocated outside Expr.__new__", loc(rel2, n))
                elif a == "Expr":
                    r.ob("R7.3", f"{rel2} object.__new__(Expr)", False, "an Expr is allocated outside Expr.__new__", loc(rel2, n))
    # _register_expression paths
    reg = repo.func("context.py", "Context._register_expression")
    # the previously registered object is the local bound to the table lookup self._expressions.get(...)
    look = [st for st in ast.walk(reg) if isinstance(st, ast.Assign) and isinstance(st.targets[0], ast.Name) and isinstance(st.value, ast.Call)
            and isinstance(st.value.func, ast.Attribute) and st.value.func.attr == "get" and (dotted(st.value.func.value) or "").endswith("._expressions")]
    if len(look) != 1:
        raise AnalysisError("_register_expression: the single lookup `<prev> = self._expressions.get(...)` not found")
    PREV = look[0].targets[0].id
    for p in enumerate_paths(reg):
        if p.exit == "raise":
            continue
        miss = None
        for e in p.events:
            if e.kind == "test" and isinstance(e.node, ast.Compare) and len(e.node.ops) == 1 and dotted(e.node.left) == PREV \
                    and isinstance(e.node.comparators[0], ast.Constant) and e.node.comparators[0].value is None:
                if isinstance(e.node.ops[0], ast.Is):
                    miss = e.pol
                elif isinstance(e.node.ops[0], ast.IsNot):
                    miss = not e.pol
        if miss is None:
            raise AnalysisError(f"_register_expression: test `{PREV} is None` not found on a path")
        stores = [e for e in p.events if e.kind == "stmt" and any(isinstance(n, ast.Subscript) and isinstance(n.ctx, ast.Store) and (dotted(n.value) or "").endswith("._expressions") for n in ast.walk(e.node))]
        setid = [e for e in p.events if e.kind == "stmt" and any((call_name(c) or "").endswith("_set_serialized_id") for c in calls_in(e.node))]
        incs = [e for e in p.events if e.kind == "stmt" and isinstance(e.node, ast.AugAssign) and (dotted(e.node.target) or "").endswith("._expression_counter")]
        retv = norm_src(p.exit_node.value) if p.exit == "return" and p.exit_node.value is not None else None
        if miss:
            ok = len(stores) == 1 and len(setid) == 1 and len(incs) == 1
            detail = f"miss path: {len(stores)} table store(s), {len(setid)} id assignment(s), {len(incs)} counter increment(s)"
            if ok:
                # id assigned from the counter before it is incremented; store key is expr.key
                ids = p.events.index(setid[0])
                inc = p.events.index(incs[0])
                c = [c for c in calls_in(setid[0].node) if (call_name(c) or "").endswith("_set_serialized_id")][0]
                ok = ids < inc and c.args and (dotted(c.args[0]) or "").endswith("._expression_counter")
                detail = "the id is not taken from the counter before the counter is incremented"
            if ok:
                st = stores[0].node
                sub = [n for n in ast.walk(st) if isinstance(n, ast.Subscript) and isinstance(n.ctx, ast.Store)][0]
                ok = inlined_src(sub.slice, reg) == "expr.key"
                detail = f"table is written under `{norm_src(sub.slice)}` but looked up under expr.key"
            r.ob("R7.3", "context.py::Context._register_expression miss path", ok, detail, loc("context.py", reg))
            r.ob("R7.3", "context.py::Context._register_expression miss path returns the new object", retv == PREV, f"returns `{retv}`", loc("context.py", reg))
        else:
            ok = not stores and not setid and not incs and retv == PREV
            r.ob("R7.3", "context.py::Context._register_expression hit path", ok,
                 f"hit path writes the table/ids ({len(stores)} stores, {len(setid)} id assignments, {len(incs)} increments) or returns `{retv}` instead of the registered object", loc("context.py", reg))
    lookups = [c for c in calls_in(reg) if isinstance(c.func, ast.Attribute) and c.func.attr == "get" and (dotted(c.func.value) or "").endswith("._expressions")]
    ok = len(lookups) == 1 and inlined_src(lookups[0].args[0], reg) == "expr.key"
    r.ob("R7.3", "context.py::Context._register_expression lookup key", ok, "lookup is not `_expressions.get(expr.key)`", loc("context.py", reg))
    # single writers package-wide
    for rel2 in repo.py_files():
        for n in ast.walk(repo.tree(rel2)):
            if isinstance(n, ast.Subscript) and isinstance(n.ctx, (ast.Store, ast.Del)) and (dotted(n.value) or "").endswith("._expressions"):
                f = n
                while f is not None and not isinstance(f, ast.FunctionDef):
                    f = getattr(f, "_parent", None)
                ok = rel2 == "context.py" and f is not None and f.name == "_register_expression"
                r.ob("R7.3", f"{rel2} writer of _expressions ({f.name if f else '<module>'})", ok, "_expressions written outside _register_expression", loc(rel2, n))
            if isinstance(n, ast.Call) and (call_name(n) or "").endswith("_set_serialized_id"):
                f = n
                while f is not None and not isinstance(f, ast.FunctionDef):
                    f = getattr(f, "_parent", None)
                ok = f is not None and ((rel2 == "context.py" and f.name == "_register_expression") or (rel2 == "expr.py" and f.name == "__new__"))
                if rel2 == "expr.py" and f is not None and f.name == "__new__":
                    ok = ok and n.args and isinstance(n.args[0], ast.Constant) and n.args[0].value is None
                r.ob("R7.3", f"{rel2} caller of _set_serialized_id ({f.name if f else '<module>'})", ok, "an expression id is assigned outside registration", loc(rel2, n))

    # ------------------------------------------------------------------ R7.5
    n_src = 0
    for rel2 in ("expr.py", "context.py"):
        for f in ast.walk(repo.tree(rel2)):
            if isinstance(f, (ast.FunctionDef, ast.AsyncFunctionDef)):
                srcs, hits = raw_scalar_keys(f)
                n_src += srcs
                for kind, node, name, why in hits:
                    r.ob(
                        "R7.5", f"{rel2}::{f.name} {kind} keyed by the raw value `{name}`", False,
                        f"`{norm_src(node)}`: `{name}` is a raw Python value here ({why}); a mapping or set identifies keys by == and hash(), "
                        "under which 2, 2.0 and (2+0j), 1 and True, 0.0 and -0.0 are one key: the object stored for whichever was seen first "
                        "is handed out for the others before the (value, type name, str(value)) key is ever consulted",
                        loc(rel2, node),
                    )
    r.ob("R7.5", "expr.py/context.py places where a raw scalar value is known to flow (isinstance guards, constant constructions)", n_src >= 4,
         f"only {n_src} such places recognised", loc("expr.py", repo.tree("expr.py")))
    # the detector must recognise the pattern it exists for (expected count on the tree is zero)
    probe = ast.parse(
        "def normalize(context, operands):\n"
        "    cache = ref.props.setdefault('k', {})\n"
        "    for operand in operands:\n"
        "        if isinstance(operand, (int, float, complex, str)):\n"
        "            if operand not in cache:\n"
        "                cache[operand] = make_constant(context, operand, ref)\n"
        "            operand = cache[operand]\n"
    ).body[0]
    probe2 = ast.parse("def make_constant(context, value, like):\n    return context._c.setdefault((value, like.key), Expr(context, 'constant', (value, like)))\n").body[0]
    if len(raw_scalar_keys(probe)[1]) != 2 or len(raw_scalar_keys(probe2)[1]) != 1:
        raise AnalysisError("R7.5 detector does not recognise its positive examples")
    r.ob("R7.5", "detector self-check (two positive examples recognised)", True, "", loc("expr.py", repo.tree("expr.py")))

    # ------------------------------------------------------------------ R7.4
    trel = "typesystem.py"
    h = repo.func(trel, "Type.__hash__")
    e = repo.func(trel, "Type.__eq__")
    hf = {n.attr for n in ast.walk(h) if isinstance(n, ast.Attribute) and dotted(n.value) == "self"}
    ef = {n.attr for n in ast.walk(e) if isinstance(n, ast.Attribute) and dotted(n.value) == "self"}
    ok = hf <= ef and {"kind", "param"} <= ef
    r.ob("R7.4", "typesystem.py::Type hash/eq fields", ok, f"__hash__ uses {sorted(hf)}, __eq__ compares {sorted(ef)}: equal types must hash equal and kind/param must be compared", loc(trel, h))
    tn = repo.func(trel, "Type.__new__")
    ok = False
    for p in enumerate_paths(tn):
        if p.exit != "return":
            continue
        ins = [i for i, ev_ in enumerate(p.events) if ev_.kind == "stmt" and any(isinstance(n, ast.Subscript) and isinstance(n.ctx, ast.Store) and (dotted(n.value) or "").endswith("._types") for n in ast.walk(ev_.node))]
        hit = [ev_.pol for ev_ in p.events if ev_.kind == "test" and "_types" in norm_src(ev_.node)]
        if hit == [True]:
            good = not ins and "_types[" in norm_src(p.exit_node.value)
            r.ob("R7.4", "typesystem.py::Type.__new__ hit path", good, "an existing type is not returned from the table", loc(trel, tn))
        elif hit == [False]:
            good = len(ins) == 1
            r.ob("R7.4", "typesystem.py::Type.__new__ miss path", good, "a new type is not inserted exactly once", loc(trel, tn))
            ok = True
    if not ok:
        # the same protocol in one call: `return <table>.setdefault(obj, obj)` returns the registered object on a hit and inserts once on a miss
        for n_ in ast.walk(tn):
            if isinstance(n_, ast.Return) and isinstance(n_.value, ast.Call) and isinstance(n_.value.func, ast.Attribute) and n_.value.func.attr == "setdefault" \
                    and (dotted(n_.value.func.value) or "").endswith("._types") and len(n_.value.args) == 2:
                a0, a1 = n_.value.args
                same = isinstance(a0, ast.Name) and isinstance(a1, ast.Name) and a0.id == a1.id
                r.ob("R7.4", "typesystem.py::Type.__new__ hit path", same, "setdefault(key, value) registers a different object than the key", loc(trel, n_))
                r.ob("R7.4", "typesystem.py::Type.__new__ miss path", same, "setdefault(key, value) registers a different object than the key", loc(trel, n_))
                ok = True
    if not ok:
        raise AnalysisError("Type.__new__: table lookup not recognised")
    # Type.fromobject: different spellings of scalar types denote different Type values (kind, bits) - a spelling whose width is
    # lost makes `x: int32` and `x: int64` one symbol key.  The method is interpreted (sa/absint.py) on each spelling.
    from sa.absint import Interp, Closure, Unsupported as IUnsupported, PyRaise

    fo = repo.func(trel, "Type.fromobject")

    class _Cls:
        __absint_host__ = True

        def __call__(self, context, kind, param=None):
            return ("T", kind, param)

        def fromobject(self, context, obj):
            raise IUnsupported("recursive fromobject")

    SPELL = {"int8": ("integer", 8), "int16": ("integer", 16), "int32": ("integer", 32), "int64": ("integer", 64), "integer32": ("integer", 32),
             "int": ("integer", None), "float16": ("float", 16), "float32": ("float", 32), "float64": ("float", 64), "float": ("float", None),
             "complex64": ("complex", 64), "complex128": ("complex", 128), "complex": ("complex", None), "bool": ("boolean", None),
             "boolean": ("boolean", None)}
    for sp, want in SPELL.items():
        I_ = Interp(repo)
        try:
            out = I_.call(Closure(fo, {}, I_, trel, bound_self=None), [_Cls(), "CTX", sp])
        except (IUnsupported, PyRaise) as e_:
            raise AnalysisError(f"Type.fromobject is not interpretable on the spelling {sp!r}: {getattr(e_, 'what', e_)}")
        okf = isinstance(out, tuple) and len(out) == 3 and (out[1], out[2]) == want
        r.ob("R7.4", f"typesystem.py::Type.fromobject spelling `{sp}`", okf,
             f"Type.fromobject(ctx, {sp!r}) is {out[1:] if isinstance(out, tuple) else out!r}, expected {want}: spellings of different widths become one Type, so "
             "symbols and constants that differ only in such a type get the same key and alias", loc(trel, fo))
    return r
