"""C08 — static types equal run-time dtypes (NumPy target).  Rules R8.1 .. R8.4 (DESIGN.md §3/C08)."""

from __future__ import annotations

import ast
import itertools

from sa.core import inlined_src, AnalysisError, Report, loc, norm_src
from sa.absint import Interp, AType, AExpr, Unsupported, PyRaise
from sa.targets_model import Target, kind_arities, reduce_term, Unknown, show_sem
from sa.oracles import targets as O
from sa import tmpl
from sa.paths import enumerate_paths, calls_in, call_name, dotted
from sa.defuse import origins
from rules.C05 import parse_template, OPS, FUNCS, LANG

FLOATS = ["float16", "float32", "float64"]
COMPLEXES = ["complex64", "complex128"]


def bits(d):
    return int("".join(c for c in d if c.isdigit()))


def is_c(d):
    return d.startswith("complex")


def to_atype(d):
    if d == "bool":
        return AType("boolean", None)
    return AType("complex" if is_c(d) else "float", bits(d))


def from_atype(t):
    if not isinstance(t, AType):
        return f"<{t!r}>"
    if t.kind == "boolean":
        return "bool"
    return f"{t.kind}{t.param}"


def promote(a, b):
    """NumPy result_type for our finite lattice (NEP 50, all operands are numpy scalars)."""
    if a == "bool":
        return b
    if b == "bool":
        return a
    if is_c(a) or is_c(b):
        comp = max((bits(x) // 2 if is_c(x) else bits(x)) for x in (a, b))
        comp = max(comp, 32)  # float16 with complex -> complex64
        return f"complex{2 * comp}"
    return f"float{max(bits(a), bits(b))}"


class NoDtype(Exception):
    pass


ARITH = {"add", "subtract", "multiply", "divide", "pow", "remainder", "floor_divide", "atan2", "hypot", "copysign", "nextafter", "maximum", "minimum"}
PRESERVE = {"negative", "positive", "sqrt", "square", "exp", "exp2", "expm1", "log", "log1p", "log2", "log10", "sin", "cos", "tan", "sinh", "cosh", "tanh",
            "asin", "acos", "atan", "asinh", "acosh", "atanh", "conjugate", "sign", "floor", "ceil", "truncate", "round"}
BOOL = {"lt", "le", "gt", "ge", "eq", "ne", "logical_and", "logical_or", "logical_xor", "logical_not", "is_finite", "is_inf", "is_nan"}


_MAKE_COMPLEX = {}


def make_complex_dtype(dr, di):
    """dtype that utils.make_complex (the helper behind the NumPy template of `complex`) returns for part dtypes (dr, di), read
    off its source: the first branch of its if-chain whose test - comparisons of `<part>.dtype` with numpy float types - holds,
    and the complex type its result is viewed as.  No branch: the helper raises (NoDtype)."""
    f = _MAKE_COMPLEX.get("func")
    if f is None:
        raise NoDtype("utils.make_complex not loaded")
    pr, pi = f.args.args[0].arg, f.args.args[1].arg
    env = {f"{pr}.dtype": dr, f"{pi}.dtype": di}

    def truth(t):
        if isinstance(t, ast.BoolOp):
            vals = [truth(x) for x in t.values]
            return all(vals) if isinstance(t.op, ast.And) else any(vals)
        if isinstance(t, ast.Compare) and len(t.ops) == 1 and isinstance(t.ops[0], (ast.Eq, ast.NotEq)):
            l, r_ = dotted(t.left), dotted(t.comparators[0])
            if l in env and r_ and r_.startswith("numpy."):
                return (env[l] == r_.split(".")[-1]) == isinstance(t.ops[0], ast.Eq)
            if r_ in env and l and l.startswith("numpy."):
                return (env[r_] == l.split(".")[-1]) == isinstance(t.ops[0], ast.Eq)
        raise AnalysisError(f"utils.make_complex: test `{norm_src(t)}` not understood")

    def walk(stmts):
        for st in stmts:
            if isinstance(st, ast.If):
                got = walk(st.body if truth(st.test) else st.orelse)
                if got is not None:
                    return got
            elif isinstance(st, ast.Return):
                views = [c for c in ast.walk(st.value) if isinstance(c, ast.Call) and isinstance(c.func, ast.Attribute) and c.func.attr == "view" and c.args]
                if len(views) != 1:
                    raise AnalysisError(f"utils.make_complex: `{norm_src(st.value)}` is not a view as a complex type")
                return (dotted(views[0].args[0]) or "").split(".")[-1]
            elif isinstance(st, ast.Raise):
                return "raise"
        return None

    got = walk(f.body)
    if got in (None, "raise"):
        raise NoDtype("make_complex raises for these operands")
    return got


def np_dtype(sem, dts):
    """dtype of the value the NumPy template computes; dts: operand dtypes."""
    if sem[0] == "arg":
        return dts[sem[1]]
    if sem[0] == "lit":
        raise NoDtype("python literal")
    if sem[0] != "k":
        raise NoDtype(str(sem))
    k, args = sem[1], sem[2]
    if k in BOOL:
        return "bool"
    a = [np_dtype(x, dts) for x in args]
    if k in ARITH:
        r = promote(a[0], a[1])
        if r == "bool" and k in ("divide",):
            return "float64"
        return r
    if k in PRESERVE:
        return a[0] if a[0] != "bool" else "float16"
    if k in ("absolute", "real", "imag"):
        return f"float{bits(a[0]) // 2}" if is_c(a[0]) else a[0]
    if k == "select":
        return promote(a[1], a[2])
    if k == "complex":
        return make_complex_dtype(a[0], a[1])
    raise NoDtype(f"kind {k}")


def valid_operand_dtypes(kind, arity, tier):
    real_only = {"lt", "le", "gt", "ge", "maximum", "minimum", "floor", "ceil", "truncate", "atan2", "hypot", "copysign", "remainder", "floor_divide",
                 "nextafter", "complex", "round", "logical_and", "logical_or", "logical_not", "logical_xor"}
    # numpy.sign and numpy.isfinite accept complex operands (sign(z) = z / |z| stays complex)
    dom = FLOATS if kind in real_only else FLOATS + COMPLEXES
    if kind in ("logical_and", "logical_or", "logical_not", "logical_xor"):
        # booleans, and - since nothing stops a graph from applying them to numbers - float operands of one width
        yield ("bool",) * arity
        for d in FLOATS:
            yield (d,) * arity
        return
    if kind == "select":
        for c in itertools.product(dom, repeat=2):
            yield ("bool",) + c
        return
    for c in itertools.product(dom, repeat=arity):
        yield c


def run(repo, tier):
    r = Report("C08", tier, repo, level="other", design_ref="§3/C08")
    r.explanation = (
        "For every kind the NumPy target implements with a template, the static typing rule is obtained by abstract interpretation "
        "of Expr.get_type and typesystem.Type (source level, sa/absint.py) on typed symbol operands, and compared with the dtype that "
        "NumPy's promotion rules (NEP 50 on numpy scalars, oracle below) assign to the parsed template, for tuples of operand dtypes "
        "over float16/32/64, complex64/128, bool. Plus: constants are materialised by an unconditional cast to the static type of "
        "their like; the debug assertions are wired to the type of the expression just assigned. Value-dependent behaviour and "
        "float128 are NOT decided."
    )
    r.trusted_base = ["Python ast", "sa/absint.py", "NumPy promotion oracle (rules/C08.py:promote, np_dtype)", "sa/oracles/targets.py"]
    r.assumptions = ["inputs are numpy scalars of the declared dtype (the target casts arguments)", "operands of an operation are typed symbols (sub-expressions compose by induction)"]
    r.rule("R8.6", "normalize_like replaces the like expression of a constant by an operand of the same static type, for every kind it descends through and every operand dtype tuple", floor=1)
    r.rule("R8.5", "an operation on a symbol and a constant whose like is a bare scalar type (float, int, complex without a width) has the static type NumPy computes for the emitted, strongly typed constant (one obligation per constant type over 12 kind x symbol combinations)", floor=3)
    r.rule("R8.1", "for each kind and operand dtype tuple: static type (Expr.get_type) == dtype computed by the NumPy template", floor=150)
    _MAKE_COMPLEX["func"] = repo.func("utils.py", "make_complex")
    r.rule("R8.2", "every kind with a NumPy template has a static typing rule (get_type does not raise)", floor=40)
    r.rule("R8.3", "debug assertions compare the assigned variable with the static type of the same expression; the result with the body's type", floor=3)
    r.rule("R8.4", "constants are cast unconditionally to the static type of their like operand", floor=1)

    T = Target(repo, "numpy")
    arities = kind_arities(repo)
    I = Interp(repo, max_steps=50_000_000)
    I.native_types = False
    ctx = I.ctx
    n_pairs = 0
    untyped = []
    for kind, val in T.kinds.items():
        if not isinstance(val, str):
            continue
        n = arities.get(kind)
        if n is None or kind in ("item", "list", "len", "dtype_index"):
            continue  # container kinds are typed structurally, not by dtype promotion
        try:
            term = parse_template("numpy", val)
            sem = reduce_term(term, OPS["numpy"], FUNCS["numpy"], LANG["numpy"])
        except (Unknown, tmpl.TemplateError):
            continue  # reported by C05
        # constructs whose result is one of the operands unchanged: the run-time dtype then depends on the values
        value_dependent = any(isinstance(x, tuple) and ((x[0] == "op" and x[1] == "select") or (x[0] == "call" and x[1] in (("name", "max"), ("name", "min"))))
                              for x in tmpl.walk(term))
        key0 = f"targets/numpy.py kind {kind}"
        typed_any = False
        for dts in valid_operand_dtypes(kind, n, tier):
            ops = tuple(ctx.symbol(f"s{i}_{d}", to_atype(d)) for i, d in enumerate(dts))
            e = ctx.make(kind, ops)
            try:
                st = I.call(I.getattr(e, "get_type", ""), [])
            except PyRaise as ex:
                if "NotImplementedError" in ex.what:
                    untyped.append(kind)
                    break
                raise AnalysisError(f"Expr.get_type({kind}): {ex.what}")
            except Unsupported as ex:
                raise AnalysisError(f"Expr.get_type({kind}) not interpretable: {ex}")
            typed_any = True
            try:
                rt = np_dtype(sem, list(dts))
            except NoDtype:
                continue
            if value_dependent and len({d for d in dts if d != "bool"}) > 1:
                rt = "|".join(sorted({d for d in dts if d != "bool"})) + " (whichever operand is returned)"
            n_pairs += 1
            sdt = from_atype(st)
            ok = sdt == rt
            r.ob("R8.1", f"{key0} operands ({', '.join(dts)})", ok,
                 f"static type of {kind}({', '.join(dts)}) is {sdt}; the NumPy template `{val}` produces {rt}", T.where(kind),
                 sample=dict(rule="R8.1", kind=kind, operands=list(dts), static=sdt, numpy=rt) if n_pairs % 25 == 1 else None)
        r.ob("R8.2", f"{key0} has a typing rule", typed_any or kind in untyped, "", T.where(kind))
    if untyped:
        r.info("R8.2", f"kinds with a NumPy template but no rule in Expr.get_type (printing such a graph raises NotImplementedError; not a wrong type): {sorted(set(untyped))}")

    # ------------------------------------------------------------------ R8.6 the like operand of a constant keeps its type under normalize_like
    # `ctx.constant(v, like)` stores normalize_like(like): an operation is replaced by one of its operands "of the same type".  The
    # constant is later materialised in the type of that operand (R8.4), so the replacement must not change the type: for every
    # kind normalize_like descends through unconditionally and every tuple of operand dtypes, the static type of the operation must
    # equal the type of the operand it is replaced by.
    nl = repo.func("expr.py", "normalize_like")
    descend = {}
    for node in ast.walk(nl):
        if isinstance(node, ast.If) and isinstance(node.test, ast.Compare) and len(node.test.ops) == 1 and dotted(node.test.left) == f"{nl.args.args[0].arg}.kind":
            c_ = node.test.comparators[0]
            kinds_ = None
            if isinstance(node.test.ops[0], ast.In) and isinstance(c_, (ast.Set, ast.Tuple, ast.List)) and all(isinstance(x, ast.Constant) for x in c_.elts):
                kinds_ = [x.value for x in c_.elts]
            elif isinstance(node.test.ops[0], ast.Eq) and isinstance(c_, ast.Constant):
                kinds_ = [c_.value]
            body_ = [st for st in node.body if isinstance(st, ast.Assign)]
            if kinds_ and len(body_) == 1 and isinstance(body_[0].value, ast.Subscript) and dotted(body_[0].value.value) == f"{nl.args.args[0].arg}.operands" \
                    and isinstance(body_[0].value.slice, ast.Constant):
                for k_ in kinds_:
                    descend[k_] = body_[0].value.slice.value
    if len(descend) < 10:
        raise AnalysisError(f"expr.py::normalize_like: only {len(descend)} kinds recognised in its descent chain")
    bad86, tot86 = [], 0
    for kind, idx_ in sorted(descend.items()):
        n = arities.get(kind)
        if n is None or n < 2 or kind not in T.kinds or kind == "constant":
            continue
        for dts in valid_operand_dtypes(kind, n, tier):
            if kind == "select" and dts[0] != "bool":
                continue
            ops = tuple(ctx.symbol(f"s{i}_{d}", to_atype(d)) for i, d in enumerate(dts))
            e = ctx.make(kind, ops)
            try:
                st = I.call(I.getattr(e, "get_type", ""), [])
            except (PyRaise, Unsupported):
                continue
            tot86 += 1
            if from_atype(st) != dts[idx_] and "bool" not in (from_atype(st), dts[idx_]):
                bad86.append(f"{kind}({', '.join(dts)}): type {from_atype(st)}, replaced by operand {idx_} of type {dts[idx_]}")
    kinds86 = sorted({b.split("(")[0] for b in bad86})
    r.ob("R8.6", "expr.py::normalize_like keeps the type of the like expression" + (f": narrowed for mixed operand types of {', '.join(kinds86)}" if bad86 else ""), not bad86,
         f"normalize_like replaces an operation by one operand whatever the operand types: {'; '.join(bad86[:3])} ... - a constant built `like` such an expression is "
         "materialised in the narrower type: (x32 + y64) * constant(0.1, x32 + y64) multiplies by numpy.float32(0.1) and returns 0.30000000447 for (1, 2)", loc("expr.py", nl),
         sample=dict(rule="R8.6", kinds=len(descend), combinations=tot86, narrowed=len(bad86)))

    # ------------------------------------------------------------------ R8.5 constants typed by a bare scalar type
    # `ctx.constant(v, float)` / `(v, int)` / `(v, "int64")`: the like operand is a type without a width (or an integer type).  The
    # NumPy target materialises the constant with the type table entry of that type (float -> numpy.float64, integer ->
    # numpy.int64): a *strongly typed* numpy scalar under NEP 50.  The static type of an operation on a narrower symbol and
    # such a constant must be what NumPy then computes.
    n85 = 0
    def _np_of(tname):
        v = (T.types or {}).get(tname)
        return v.split(".")[-1] if isinstance(v, str) else None

    def _promote_strong(d, c):
        # NEP 50, both numpy scalars: an int64 behaves like float64 against floats
        cc = "float64" if c.startswith("int") else c
        return promote(d, cc)

    for tname, at in (("float", AType("float", None)), ("integer", AType("integer", None)), ("complex", AType("complex", None))):
        cd_ = _np_of(tname)
        if cd_ is None:
            raise AnalysisError(f"targets/numpy.py type_to_target has no entry for `{tname}`")
        bad, tot = [], 0
        for kind in ("add", "subtract", "multiply", "divide"):
            if kind not in T.kinds:
                continue
            for d in ("float16", "float32", "complex64"):
                ops = (ctx.symbol(f"s_{d}", to_atype(d)), ctx.symbol(f"c_{tname}", at))
                e = ctx.make(kind, ops)
                try:
                    st = I.call(I.getattr(e, "get_type", ""), [])
                except (PyRaise, Unsupported) as ex:
                    raise AnalysisError(f"Expr.get_type({kind}) on a constant of type {tname}: {getattr(ex, 'what', ex)}")
                sdt = from_atype(st)
                rt = _promote_strong(d, cd_)
                tot += 1
                n85 += 1
                if sdt != rt:
                    bad.append(f"{kind}({d}, ·): declared {sdt}, NumPy {rt}")
        r.ob("R8.5", f"targets/numpy.py constants typed by the bare type `{tname}`" + (f": {len(bad)} of {tot} operations with a narrower symbol are mistyped" if bad else ""), not bad,
             f"a constant whose like is the bare type `{tname}` is emitted as numpy.{cd_}(v), a strongly typed scalar under NEP 50, while static inference lets the symbol's "
             f"narrower type win: {'; '.join(bad[:4])}{' ...' if len(bad) > 4 else ''} - the declared type, the debug-level-1 assertion and the result annotation are wrong",
             loc(T.rel, T.types_node), sample=dict(rule="R8.5", constant_type=tname, emitted=f"numpy.{cd_}", combinations=tot, mistyped=len(bad)))
    if n85 < 30:
        raise AnalysisError(f"R8.5 examined only {n85} combinations")

    # ------------------------------------------------------------------ R8.3 assertion wiring
    base = repo.func("targets/base.py", "PrinterBase.tostring")
    cd = [c for c in calls_in(base) if (call_name(c) or "").endswith("check_dtype")]
    if len(cd) != 1:
        raise AnalysisError("PrinterBase.tostring: check_dtype call not found")
    a0, a1 = inlined_src(cd[0].args[0], base), inlined_src(cd[0].args[1], base)
    r.ob("R8.3", "targets/base.py::PrinterBase.tostring check_dtype(expr.ref, self.get_type(expr))", a0 == "expr.ref" and a1 == "self.get_type(expr)", f"check_dtype({a0}, {a1})", loc("targets/base.py", cd[0]))
    # the assertion is emitted after the assignment of the same ref
    asg = [c for c in calls_in(base) if (call_name(c) or "").endswith("make_assignment")]
    ok = any(inlined_src(c.args[0], base) == "self.get_type(expr)" and inlined_src(c.args[1], base) == "expr.ref" for c in asg)
    r.ob("R8.3", "targets/base.py::PrinterBase.tostring declares the variable with the static type", ok, "make_assignment is not called with (self.get_type(expr), expr.ref, ...)", loc("targets/base.py", base))
    chk = T.method("check_dtype")
    rv = [n for n in ast.walk(chk) if isinstance(n, ast.Return)][0].value
    txt = norm_src(rv)
    r.ob("R8.3", "targets/numpy.py::Printer.check_dtype compares .dtype with the declared type", "{var}.dtype == {dtype}" in txt.replace("'", ""), f"check_dtype emits {txt}", loc(T.rel, chk))
    ma = T.method("make_apply")
    asserts = [inlined_src(n, ma).replace("'", "").replace('"', "") for n in ast.walk(ma) if isinstance(n, ast.JoinedStr) and "assert" in norm_src(n)]
    ok = any("assert result.dtype == {self.get_type(expr.operands[-1])}" in t for t in asserts)
    r.ob("R8.3", "targets/numpy.py::Printer.make_apply result assertion", ok, f"emitted assertions (locals inlined): {asserts}; expected `assert result.dtype == <type of the body>`", loc(T.rel, ma))

    # ------------------------------------------------------------------ R8.4 constants
    mc = T.method("make_constant")
    like = mc.args.args[1].arg
    for p in enumerate_paths(mc):
        if p.exit != "return":
            continue
        v = p.exit_node.value
        og = origins(v, p.events, len(p.events))
        typed = any(k == "name" and vv == like for k, vv in og)
        # the cast must wrap the whole literal: f"{typ}({s})"
        shape = isinstance(v, ast.JoinedStr) and len(v.values) >= 3 and isinstance(v.values[0], ast.FormattedValue) and isinstance(v.values[1], ast.Constant) and str(v.values[1].value).startswith("(")
        conds = [("" if e.pol else "not ") + norm_src(e.node) for e in p.events if e.kind == "test"]
        r.ob("R8.4", f"targets/numpy.py::Printer.make_constant path [{' & '.join(conds) or 'true'}]", typed and shape,
             f"returns `{norm_src(v)}`: the literal is not wrapped in a cast to the type of `{like}`, so its run-time dtype is whatever the inner expression has "
             "(e.g. numpy.finfo(numpy.complex64).eps is float32 while the static type is complex64)", loc(T.rel, p.exit_node))
    # named constants go through make_constant with the expression's own type
    tos = base
    named_ok = False
    for n in ast.walk(tos):
        if isinstance(n, ast.Call) and isinstance(n.func, ast.Attribute) and n.func.attr == "format" and any(kw.arg == "type" for kw in n.keywords):
            named_ok = any(kw.arg == "type" and inlined_src(kw.value, tos) == "self.get_type(expr)" for kw in n.keywords)
    r.ob("R8.4", "targets/base.py::PrinterBase.tostring named constants are formatted with the expression's type", named_ok, "constant template is not formatted with type=self.get_type(expr)", loc("targets/base.py", tos))
    return r
