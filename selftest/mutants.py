"""Self-test corpus.  Each case: id, prop, kind ('mutant'|'neutral'), edits [(file, old, new)], expect rule id."""

CASES = []


def M(id, prop, expect, *edits):
    CASES.append(dict(id=id, prop=prop, kind="mutant", expect=expect, edits=list(edits)))


def N(id, prop, *edits):
    CASES.append(dict(id=id, prop=prop, kind="neutral", expect=None, edits=list(edits)))


# ----------------------------------------------------------------------------- C18
M("C18-exit-no-restore", "C18", "R18.1", ("fpu.py", "                self.register.set_mxcsr(self.saved_state)\n                self.saved_state = None", "                self.saved_state = None"))
M("C18-exit-restore-only-when-no-exception", "C18", "R18.1", ("fpu.py", "                assert self.saved_state is not None\n                self.register.set_mxcsr(self.saved_state)", "                assert self.saved_state is not None\n                if exc_type is not None:\n                    return False\n                self.register.set_mxcsr(self.saved_state)"))
M("C18-exit-swallow", "C18", "R18.1", ("fpu.py", "                self.register.set_mxcsr(self.saved_state)\n                self.saved_state = None", "                self.register.set_mxcsr(self.saved_state)\n                self.saved_state = None\n                return True"))
M("C18-enter-set-before-save", "C18", "R18.2", ("fpu.py", "                self.saved_state = self.register.get_mxcsr()\n", "                self.register.set_mxcsr(self.register._get_modified_state(self.register.get_mxcsr(), FZ=FZ, DAZ=DAZ, RN=RN))\n                self.saved_state = self.register.get_mxcsr()\n"))
M("C18-stale-state", "C18", "R18.3", ("fpu.py", "        class context(contextlib.ContextDecorator):", "        stale = self._get_modified_state(self.get_mxcsr(), FZ=FZ, DAZ=DAZ, RN=RN)\n\n        class context(contextlib.ContextDecorator):"), ("fpu.py", "self.register.set_mxcsr(self.register._get_modified_state(self.saved_state, FZ=FZ, DAZ=DAZ, RN=RN))", "self.register.set_mxcsr(stale)"))
M("C18-mask-daz-bit", "C18", "R18.4", ("fpu.py", "                new_value |= 1 << 6\n", "                new_value |= 1 << 7\n"))
M("C18-mask-rn-swapped", "C18", "R18.4", ("fpu.py", "            elif r == 1:\n                new_value &= ~(1 << 14)\n                new_value |= 1 << 13", "            elif r == 1:\n                new_value |= 1 << 14\n                new_value &= ~(1 << 13)"))
M("C18-mask-fz-clear-missing-not", "C18", "R18.4", ("fpu.py", "                new_value &= ~(1 << 15)", "                new_value &= 1 << 15"))
M("C18-rn-table", "C18", "R18.4", ("fpu.py", "            r = dict(nearest=0, down=1, up=2, towardszero=3)[RN]", "            r = dict(nearest=0, up=1, down=2, towardszero=3)[RN]"))
M("C18-reader-daz", "C18", "R18.5", ("fpu.py", "return (self.get_mxcsr().value & (1 << 6)) != 0", "return (self.get_mxcsr().value & (1 << 5)) != 0"))
M("C18-blob-swapped", "C18", "R18.6", ("fpu.py", 'b"\\x0F\\xAE\\x17"  # ldmxcsr [rdi]', 'b"\\x0F\\xAE\\x1F"  # ldmxcsr [rdi]'))
M("C18-blob-offset", "C18", "R18.6", ("fpu.py", "_get_mxcsr_addr = _set_mxcsr_addr + len(_set_mxcsr_asm)", "_get_mxcsr_addr = _set_mxcsr_addr + 8"))
N("C18-neutral-rename", "C18", ("fpu.py", "        new_value = current.value\n", "        new_value = current.value  # start from the live register\n"))
N("C18-neutral-exit-order", "C18", ("fpu.py", "            def __exit__(self, exc_type, exc, exc_tb):\n                assert self.saved_state is not None\n", "            def __exit__(self, exc_type, exc, exc_tb):\n                assert self.saved_state is not None, 'not entered'\n"))

# ----------------------------------------------------------------------------- C07
M("C07-key-drop-str", "C07", "R7.1", ("expr.py", "(value, type(value).__name__, str(value))", "(value, type(value).__name__)"))
M("C07-key-drop-type", "C07", "R7.2", ("expr.py", "(value, type(value).__name__, str(value))", "(value, str(value))"))
M("C07-key-drop-like", "C07", "R7.2", ("expr.py", "                like.key,\n            )", "            )"))
M("C07-generic-key-sliced", "C07", "R7.2", ("expr.py", "r = (self.kind, *(operand._two_level_intkey for operand in self.operands))", "r = (self.kind, *(operand._two_level_intkey for operand in self.operands[:2]))"))
M("C07-two-level-drop-kind", "C07", "R7.2", ("expr.py", "        return (self.kind, *(op.intkey for op in self.operands))", "        return tuple(op.intkey for op in self.operands)"))
M("C07-two-level-leaf-kinds", "C07", "R7.2", ("expr.py", '        if self.kind in {"symbol", "constant"}:\n            return (self.kind, self.intkey)', '        if self.kind in {"symbol"}:\n            return (self.kind, self.intkey)'))
M("C07-new-skips-registration", "C07", "R7.3", ("expr.py", "        return context._register_expression(obj)", "        context._register_expression(obj)\n        return obj"))
M("C07-hit-overwrites", "C07", "R7.3", ("context.py", "                raise RuntimeError(\"attempt to re-register equivalent expression\")\n        return prev", "                raise RuntimeError(\"attempt to re-register equivalent expression\")\n            self._expressions[expr.key] = expr\n        return prev"))
M("C07-counter-not-incremented", "C07", "R7.3", ("context.py", "            self._expression_counter += 1\n", ""))
M("C07-type-eq-drops-param", "C07", "R7.4", ("typesystem.py", "return self.context is other.context and self.kind == other.kind and self.param == other.param", "return self.context is other.context and self.kind == other.kind"))
N("C07-neutral-hex-encoding", "C07", ("expr.py", "(value, type(value).__name__, str(value))", "(value, type(value).__name__, repr(value))"))
N("C07-neutral-comment", "C07", ("context.py", "        prev = self._expressions.get(expr.key)\n", "        prev = self._expressions.get(expr.key)  # lookup\n"))

# ----------------------------------------------------------------------------- C09
M("C09-same-dtype-set", "C09", "R9.1", ("context.py", "                others = cache[a.key] = dict()", "                others = cache[a.key] = set()"), ("context.py", "                    others[b.key] = None", "                    others.add(b.key)"))
M("C09-using-iterated", "C09", "R9.1", ("context.py", "        if \"using\" not in self.parameters:\n            self.parameters[\"using\"] = set()\n", "        if \"using\" not in self.parameters:\n            self.parameters[\"using\"] = set()\n        self._using_names = [u for u in self.parameters[\"using\"]]\n"))
M("C09-kinds-pop-unguarded", "C09", "R9.1", ("expr.py", "                if len(kinds) == 1:\n                    if len(params) == 1:\n                        return ct.param[0]\n                    kind = kinds.pop()", "                if len(kinds) >= 1:\n                    if len(params) == 1:\n                        return ct.param[0]\n                    kind = kinds.pop()"))
M("C09-global-tmp-counter", "C09", "R9.2", ("expr.py", "def make_symbol(context, name, typ):\n    if name is None:", "def make_symbol(context, name, typ, _tmp_counter=[0]):\n    if name is None:\n        _tmp_counter[0] += 1\n        name = f\"_t{_tmp_counter[0]}\"\n    if name is None:"))
M("C09-module-level-cache-names", "C09", "R9.2", ("expr.py", "def make_apply(context, name, args, result):\n    return Expr(context, \"apply\", (name, *args, result))", "_apply_names = {}\n\n\ndef make_apply(context, name, args, result):\n    _apply_names[str(name)] = _apply_names.get(str(name), 0) + 1\n    count = _apply_names[str(name)]\n    return Expr(context, \"apply\", (name if count == 1 else name, *args, result) if count else (name, *args, result))"))
M("C09-order-by-id", "C09", "R9.3", ("rewrite.py", "        if x.key > y.key:\n            return expr.context.logical_and(y, x)", "        if id(x) > id(y):\n            return expr.context.logical_and(y, x)"))
N("C09-neutral-sorted-set", "C09", ("context.py", "        if \"using\" not in self.parameters:\n            self.parameters[\"using\"] = set()\n", "        if \"using\" not in self.parameters:\n            self.parameters[\"using\"] = set()\n        self._using_names = sorted(self.parameters[\"using\"])\n"))
N("C09-neutral-membership", "C09", ("targets/base.py", "        if expr.ref in self.defined_refs:\n            assert self.need_ref.get(expr.ref), expr.ref\n            return expr.ref", "        if any(expr.ref == d for d in self.defined_refs):\n            assert self.need_ref.get(expr.ref), expr.ref\n            return expr.ref"))

# ----------------------------------------------------------------------------- C16
M("C16-d0-drops-leading", "C16", "R16.1", ("polynomial.py", "        for i in range(1, N + 1):\n            s += coeffs[i] * fast_exponent_by_squaring(x, i)", "        for i in range(1, N):\n            s += coeffs[i] * fast_exponent_by_squaring(x, i)"))
M("C16-horner-reverse", "C16", "R16.1", ("floating_point_algorithms.py", "    N = len(coeffs) - 1\n    if reverse:\n        s = ctx.constant(coeffs[0], x)\n        indices = range(1, N + 1)\n    else:\n        s = ctx.constant(coeffs[N], x)\n        indices = reversed(range(N))\n    for i in indices:\n        s = s * x + coeffs[i]", "    N = len(coeffs) - 1\n    if reverse:\n        s = ctx.constant(coeffs[0], x)\n        indices = range(N)\n    else:\n        s = ctx.constant(coeffs[N], x)\n        indices = reversed(range(N))\n    for i in indices:\n        s = s * x + coeffs[i]"))
M("C16-split-low-short", "C16", "R16.1", ("floating_point_algorithms.py", "    b = fast_polynomial(ctx, x, coeffs[:d], reverse=reverse, scheme=scheme, _N=_N)", "    b = fast_polynomial(ctx, x, coeffs[: d - 1], reverse=reverse, scheme=scheme, _N=_N)"))
M("C16-rpoly-skips", "C16", "R16.1", ("polynomial.py", "    for rc in reversed(rcoeffs[1:]):", "    for rc in reversed(rcoeffs[2:]):"))
M("C16-laurent-slice", "C16", "R16.1", ("floating_point_algorithms.py", "            P = C[-m:]", "            P = C[-m + 1 :]"))
M("C16-sibling-disagree", "C16", "R16.2", ("floating_point_algorithms.py", "    if N == 1:\n        return ctx.constant(coeffs[0], x) + ctx.constant(coeffs[1], x) * x\n\n    d = scheme(N, _N)", "    d = scheme(N, _N)"))
M("C16-exp-even", "C16", "R16.3", ("floating_point_algorithms.py", "    if n % 2 == 0:\n        return r * r\n    return r * r * x", "    if n % 2 == 0:\n        return r * r * x\n    return r * r * x"))
M("C16-exp-n2", "C16", "R16.3", ("polynomial.py", "    if n == 2:\n        return x * x\n", "    if n == 2:\n        return x * x * x\n"))
M("C16-recombine-power", "C16", "R16.3", ("polynomial.py", "    xd = fast_exponent_by_squaring(x, d)", "    xd = fast_exponent_by_squaring(x, d - 1)"))
N("C16-neutral-len", "C16", ("polynomial.py", "        for i in range(1, N + 1):\n            s += coeffs[i] * fast_exponent_by_squaring(x, i)", "        for i in range(1, len(coeffs)):\n            s += coeffs[i] * fast_exponent_by_squaring(x, i)"), ("floating_point_algorithms.py", "        for i in range(1, N + 1):\n            s += coeffs[i] * fast_exponent_by_squaring(ctx, x, i)", "        for i in range(1, len(coeffs)):\n            s += coeffs[i] * fast_exponent_by_squaring(ctx, x, i)"))
N("C16-neutral-order", "C16", ("polynomial.py", "    a = fast_polynomial(x, coeffs[d:], reverse=reverse, scheme=scheme, _N=_N)\n    b = fast_polynomial(x, coeffs[:d], reverse=reverse, scheme=scheme, _N=_N)", "    b = fast_polynomial(x, coeffs[:d], reverse=reverse, scheme=scheme, _N=_N)\n    a = fast_polynomial(x, coeffs[d:], reverse=reverse, scheme=scheme, _N=_N)"))

# ----------------------------------------------------------------------------- C10
FPA = "floating_point_algorithms.py"
M("C10-2sum-wrong-term", "C10", "R10.1", (FPA, "    if fast:\n        t = y - z\n    else:\n        t = (x - (s - z)) + (y - z)\n    if fix_overflow:", "    if fast:\n        t = y - z\n    else:\n        t = (x - (s - z)) + (y - s)\n    if fix_overflow:"))
M("C10-fast2sum-sign", "C10", "R10.1", (FPA, "    if fast:\n        t = y - z\n    else:\n        t = (x - (s - z)) + (y - z)\n    if fix_overflow:", "    if fast:\n        t = z - y\n    else:\n        t = (x - (s - z)) + (y - z)\n    if fix_overflow:"))
M("C10-2sum-overflow-test", "C10", "R10.1", (FPA, "        overflow = abs(z) > largest\n        t = ctx.select(overflow, 0, t)", "        overflow = abs(s) > largest\n        t = ctx.select(overflow, 0, t)"))
M("C10-veltkamp-rescale", "C10", "R10.1", (FPA, "ctx.select(ax < 1, gd, gd * N))", "ctx.select(ax < 1, gd, gd * invN))"))
M("C10-veltkamp-sign", "C10", "R10.1", (FPA, "    g = C * x_n\n    d = g - x_n\n    gd = g - d", "    g = C * x_n\n    d = g - x_n\n    gd = g + d"))
M("C10-muldw-term", "C10", "R10.1", (FPA, "    t3 = t2 + xl * yh\n    xyl = t3 + xl * yl\n    return xyh, xyl", "    t3 = t2 + xl * yl\n    xyl = t3 + xl * yl\n    return xyh, xyl"))
M("C10-muldekker-mixed-scale", "C10", "R10.1", (FPA, "        yh, yl = split_veltkamp(ctx, y, C=C, scale=scale, dtype=dtype)", "        yh, yl = split_veltkamp(ctx, y, C=C, scale=False, dtype=dtype)"))
M("C10-alg-square-term", "C10", "R10.1", ("algorithms.py", "    t3 = t2 + xh * xl\n    xxl = t3 + xl * xl", "    t3 = t2 + xl * xl\n    xxl = t3 + xl * xl"))
M("C10-alg-split-low", "C10", "R10.1", ("algorithms.py", "    xh = g + d\n    xl = x - xh\n    return xh, xl\n\n\ndef square_dekker", "    xh = g + d\n    xl = xh - x\n    return xh, xl\n\n\ndef square_dekker"))
M("C10-utils-sum-drops-errors", "C10", "R10.1", ("utils.py", "        for n in seq[2:]:\n            s, t1 = add_2sum(s, n)\n            t = t + t1\n        return add_2sum(s, t)", "        for n in seq[2:]:\n            s, t1 = add_2sum(s, n)\n            t = t1\n        return add_2sum(s, t)"))
M("C10-utils-double", "C10", "R10.1", ("utils.py", "    s = x + x\n    z = s - x\n    t = x - z\n    return s, t", "    s = x + x\n    z = s - x\n    t = z - x\n    return s, t"))
M("C10-const-alg-fp64", "C10", "R10.2", ("algorithms.py", "fp64 = ctx.constant(2 ** (54 // 2) + 1, largest)", "fp64 = ctx.constant(2 ** (53 // 2) + 1, largest)"))
M("C10-const-threshold", "C10", "R10.2", ("algorithms.py", "    fp16 = ctx.constant(2 ** (12 // 2) + 1, largest)\n    return ctx.select(largest > 1e308, fp64, ctx.select(largest > 1e38, fp32, fp16)).reference(\n        \"veltkamp_splitter_constant\"", "    fp16 = ctx.constant(2 ** (12 // 2) + 1, largest)\n    return ctx.select(largest > 1e308, fp64, ctx.select(largest > 1e39, fp32, fp16)).reference(\n        \"veltkamp_splitter_constant\""))
M("C10-const-N", "C10", "R10.2", (FPA, "        N=dtype(2 ** ((p + 1) // 2)),", "        N=dtype(2 ** (p // 2)),"))
M("C10-const-xmax", "C10", "R10.2", (FPA, "        x_max=dtype(2 ** (maxexp - p // 2) * (2 ** (p // 2) - 1)),", "        x_max=dtype(2 ** (maxexp - p // 2) * (2 ** (p // 2))),"))
M("C10-wrapper-quick", "C10", "R10.3", ("apmath.py", "    return fpa.add_2sum(ctx, a, b, fast=True, fix_overflow=fix_overflow)", "    return fpa.add_2sum(ctx, a, b, fast=False, fix_overflow=fix_overflow)"))
M("C10-wrapper-twoprod-scale", "C10", "R10.3", ("apmath.py", "    return fpa.mul_dekker(ctx, x, y, scale=scale, dtype=dtype, fix_overflow=fix_overflow, assume_fma=assume_fma)", "    return fpa.mul_dekker(ctx, x, y, scale=True, dtype=dtype, fix_overflow=fix_overflow, assume_fma=assume_fma)"))
M("C10-wrapper-twosum-swapped", "C10", "R10.3", ("apmath.py", "    return fpa.add_2sum(ctx, x, y, fast=assume_fma, fix_overflow=fix_overflow)", "    return fpa.add_2sum(ctx, x, y, fast=fix_overflow, fix_overflow=assume_fma)"))
N("C10-neutral-commute", "C10", (FPA, "    s = x + y\n    z = s - x\n    if fast:", "    s = y + x\n    z = s - x\n    if fast:"))
N("C10-neutral-veltkamp-variant", "C10", ("algorithms.py", "    g = C * x\n    d = x - g\n    xh = g + d\n    xl = x - xh\n    return xh, xl\n\n\ndef square_dekker", "    g = x * C\n    delta = g - x\n    xh = g - delta\n    xl = x - xh\n    return xh, xl\n\n\ndef square_dekker"))
N("C10-neutral-cross-order", "C10", (FPA, "    t2 = t1 + xh * yl\n    t3 = t2 + xl * yh\n    xyl = t3 + xl * yl", "    t2 = t1 + xl * yh\n    t3 = t2 + yl * xh\n    xyl = t3 + yl * xl"))

# ----------------------------------------------------------------------------- C04
RW = "rewrite.py"
M("C04-table-nonneg-nonpos", "C04", "R4.1", (RW, '    ("nonnegative", "nonpositive"): (True, None, None, False, None, None),', '    ("nonnegative", "nonpositive"): (True, True, False, False, False, True),'))
M("C04-table-const-row", "C04", "R4.1", (RW, '    ("smallest", "eps"): (False, False, True, True, False, True),', '    ("smallest", "eps"): (True, True, False, False, False, True),'))
M("C04-table-zero-nonneg", "C04", "R4.1", (RW, '    (0, "nonnegative"): (None, False, True, None, None, None),', '    (0, "nonnegative"): (False, False, True, True, None, None),'))
M("C04-wiring-lt-swap-index", "C04", "R4.2", (RW, "        return self._compare(expr, lambda x, y: x < y, 3, 1)", "        return self._compare(expr, lambda x, y: x < y, 3, 3)"))
M("C04-wiring-ge-column", "C04", "R4.2", (RW, "        return self._compare(expr, lambda x, y: x >= y, 0, 2)", "        return self._compare(expr, lambda x, y: x >= y, 1, 2)"))
M("C04-not-lt", "C04", "R4.3", (RW, "            # ! (x < y) -> x >= y -> y <= x\n            a, b = x.operands\n            return expr.context.le(b, a)", "            # ! (x < y) -> x >= y -> y <= x\n            a, b = x.operands\n            return expr.context.lt(b, a)"))
M("C04-not-ge", "C04", "R4.3", (RW, "            # ! (x >= y) -> x < y\n            a, b = x.operands\n            return expr.context.lt(a, b)", "            # ! (x >= y) -> x < y\n            a, b = x.operands\n            return expr.context.le(a, b)"))
M("C04-select-gt-flip", "C04", "R4.3", (RW, "            # (a > b) ? x : y -> (a <= b) ? y : x\n            a, b = cond.operands\n            return expr.context.select(a <= b, y, x)", "            # (a > b) ? x : y -> (a <= b) ? y : x\n            a, b = cond.operands\n            return expr.context.select(a < b, y, x)"))
M("C04-select-ne-noswap", "C04", "R4.3", (RW, "            return expr.context.select(a == b, y, x)", "            return expr.context.select(a == b, x, y)"))
M("C04-subtract-zero-sign", "C04", "R4.3", (RW, "                    return -y_ if s == -1 else y_", "                    return y_"))
M("C04-multiply-neutral", "C04", "R4.3", (RW, "                if isinstance(value, number_types) and value == 1:\n                    return y_", "                if isinstance(value, number_types) and value == 0:\n                    return y_"))
M("C04-conj-idempotent", "C04", "R4.3", (RW, '        if x.kind == "conjugate":\n            return x.operands[0]', '        if x.kind == "conjugate":\n            return x'))
M("C04-negative-idempotent", "C04", "R4.3", (RW, '        if x.kind == "negative":\n            return x.operands[0]', '        if x.kind == "negative":\n            return x'))
M("C04-and-absorb", "C04", "R4.3", (RW, "                    return y_ if value else ctx.constant(False)", "                    return y_ if value else ctx.constant(True)"))
M("C04-nested-select", "C04", "R4.3", (RW, "            if b is y:\n                return expr.context.select(expr.context.logical_and(cond, cond1), a, y)", "            if b is y:\n                return expr.context.select(expr.context.logical_or(cond, cond1), a, y)"))
M("C04-same-operands", "C04", "R4.3", (RW, '            if expr.kind in {"eq", "le", "ge"}:\n                return expr.context.constant(True)', '            if expr.kind in {"eq", "le", "gt"}:\n                return expr.context.constant(True)'))
M("C04-isnonneg-multiply", "C04", "R4.7", ("expr.py", "                (x._is_nonnegative and y._is_nonnegative)\n                or (x._is_nonpositive and y._is_nonpositive)", "                (x._is_nonnegative and y._is_nonnegative)\n                or (x._is_nonpositive and y._is_nonnegative)"))
M("C04-isnonpos-seed", "C04", "R4.7", ("expr.py", '        elif self.kind in {"sqrt", "square", "absolute"} and self.operands[0]._is_positive:\n            return False', '        elif self.kind in {"sqrt", "square", "absolute"} and self.operands[0]._is_nonnegative:\n            return False'))
M("C04-isnonneg-subtract", "C04", "R4.7", ("expr.py", "            if x._is_nonnegative and y._is_nonpositive:\n                return True\n            if x._is_negative and y._is_positive:\n                return False", "            if x._is_nonnegative and y._is_nonnegative:\n                return True\n            if x._is_negative and y._is_positive:\n                return False"))
N("C04-neutral-row-none", "C04", (RW, '    ("positive", "nonpositive"): (True, True, False, False, False, True),', '    ("positive", "nonpositive"): (True, None, None, False, None, None),'))
N("C04-neutral-dead-row", "C04", (RW, '    ("smallest", "positive"): (None, False, True, None, None, None),', '    ("smallest", "positive"): (True, True, False, False, False, True),'))
N("C04-neutral-comment", "C04", (RW, "            # ! (x > y) -> x <= y\n", "            # not (x > y) is x <= y\n"))

# ----------------------------------------------------------------------------- C03
AL = "algorithms.py"
M("C03-asin-sign-select", "C03", "R3.1", (AL, "    imag = ctx.select(signed_y < zero, -w_imag, w_imag)", "    imag = ctx.select(signed_x < zero, -w_imag, w_imag)"))
M("C03-asinh-real-branch", "C03", "R3.3", (AL, "    real = ctx.select(signed_x < 0, -w.imag, w.imag)\n    imag = ctx.atan2(signed_y, w.real)", "    real = ctx.select(signed_x < 0, w.imag, -w.imag)\n    imag = ctx.atan2(signed_y, w.real)"))
M("C03-asinh-atan2-swapped", "C03", "R3.3", (AL, "    real = ctx.select(signed_x < 0, -w.imag, w.imag)\n    imag = ctx.atan2(signed_y, w.real)", "    real = ctx.select(signed_x < 0, -w.imag, w.imag)\n    imag = ctx.atan2(w.real, signed_y)"))
M("C03-acos-sign", "C03", "R3.3", (AL, "    imag = ctx.select(signed_y < 0, w.imag, -w.imag)", "    imag = ctx.select(signed_y <= 0, w.imag, -w.imag)"))
M("C03-acosh-sign-lost", "C03", "R3.3", (AL, "    return ctx(ctx.complex(w.imag, ctx.select(signed_y < 0, -imag, imag)))", "    return ctx(ctx.complex(w.imag, ctx.select(signed_y < 0, imag, imag)))"))
M("C03-atan-seed", "C03", "R3.3", (AL, "    w = ctx.atanh(ctx.complex(-z.imag, z.real))\n    return ctx(ctx.complex(w.imag, -w.real))", "    w = ctx.atanh(ctx.complex(z.imag, z.real))\n    return ctx(ctx.complex(w.imag, w.real))"))
M("C03-atan-drop-minus", "C03", "R3.3", (AL, "    w = ctx.atanh(ctx.complex(-z.imag, z.real))\n    return ctx(ctx.complex(w.imag, -w.real))", "    w = ctx.atanh(ctx.complex(-z.imag, z.real))\n    return ctx(ctx.complex(w.imag, w.real))"))
M("C03-square-real-odd", "C03", "R3.2", (AL, "    return ctx(x * x)", "    return ctx(x * abs(x))"))
N("C03-neutral-commute", "C03", (AL, "    real = ctx.select(signed_x < 0, -w.imag, w.imag)\n    imag = ctx.atan2(signed_y, w.real)", "    real = ctx.select(0 > signed_x, -w.imag, w.imag)\n    imag = ctx.atan2(signed_y, w.real)"))
N("C03-neutral-select-flip", "C03", (AL, "    imag = ctx.select(signed_y < 0, w.imag, -w.imag)", "    imag = ctx.select(signed_y >= 0, -w.imag, w.imag)"))

# ----------------------------------------------------------------------------- C05
M("C05-subtract-swapped", "C05", "R5.3", ("targets/python.py", 'subtract="({0}) - ({1})",', 'subtract="({1}) - ({0})",'))
M("C05-numpy-less-equal", "C05", "R5.3", ("targets/numpy.py", 'le="numpy.less_equal({0}, {1})",', 'le="numpy.less({0}, {1})",'))
M("C05-cpp-select-branches", "C05", "R5.3", ("targets/cpp.py", 'select="(({0}) ? ({1}) : ({2}))",', 'select="(({0}) ? ({2}) : ({1}))",'))
M("C05-cpp-atan2-order", "C05", "R5.3", ("targets/cpp.py", 'atan2="std::atan2({0}, {1})",', 'atan2="std::atan2({1}, {0})",'))
M("C05-numpy-where-order", "C05", "R5.3", ("targets/numpy.py", 'select="numpy.where({0}, {1}, {2})",', 'select="numpy.where({0}, {2}, {1})",'))
M("C05-percent-escape", "C05", "R5.2", ("targets/python.py", 'remainder="({0}) % ({1})",', 'remainder="({0}) %% ({1})",'))
M("C05-missing-operand", "C05", "R5.1", ("targets/python.py", 'maximum="max({0}, {1})",', 'maximum="max({0}, {0})",'))
M("C05-unbound-floot", "C05", "R5.4", ("targets/cpp.py", 'floor="std::floor({0})",', 'floor="std::floot({0})",'))
M("C05-numpy-unbound", "C05", "R5.4", ("targets/numpy.py", 'log1p="numpy.log1p({0})",', 'log1p="numpy.log1pp({0})",'))
M("C05-const-smallest-is-subnormal", "C05", "R5.5", ("targets/numpy.py", 'smallest="numpy.finfo({type}).smallest_normal",', 'smallest="numpy.finfo({type}).smallest_subnormal",'))
M("C05-const-cpp-largest", "C05", "R5.5", ("targets/cpp.py", 'largest="std::numeric_limits<{type}>::max()",', 'largest="std::numeric_limits<{type}>::min()",'))
M("C05-const-missing-eps", "C05", "R5.5", ("targets/python.py", '    eps="sys.float_info.epsilon",\n', ""))
M("C05-type-width", "C05", "R5.6", ("targets/cpp.py", '        float32="float",\n        float64="double",', '        float32="double",\n        float64="double",'))
M("C05-upcast-table", "C05", "R5.6", ("targets/numpy.py", '        "numpy.float32": "numpy.float64",\n        "numpy.float64": "numpy.float128",', '        "numpy.float32": "numpy.float32",\n        "numpy.float64": "numpy.float128",'))
M("C05-numpy-const-uncast", "C05", "R5.7", ("targets/numpy.py", '        return f"{typ}({s})"\n\n    def make_argument', '        if s.startswith("numpy."):\n            return s\n        return f"{typ}({s})"\n\n    def make_argument'))
M("C05-defined-not-recorded", "C05", "R5.8", ("targets/base.py", "            self.assignments.append(self.make_assignment(self.get_type(expr), expr.ref, result))\n            self.defined_refs.add(expr.ref)\n", "            self.assignments.append(self.make_assignment(self.get_type(expr), expr.ref, result))\n"))
M("C05-early-return-unguarded", "C05", "R5.8", ("targets/base.py", "        if expr.ref in self.defined_refs:\n            assert self.need_ref.get(expr.ref), expr.ref\n            return expr.ref\n", "        if expr.ref in self.need_ref and self.need_ref[expr.ref] and expr.kind == \"symbol\":\n            return expr.ref\n"))
M("C05-register-unchecked-candidate", "C05", "R5.9", ("context.py", "            other = self._ref_values.get(ref_name_)\n            while other is not None:\n                if other is expr:", "            while other is not None:\n                if other is expr:"))
M("C05-operands-sliced", "C05", "R5.10", ("targets/base.py", "result = tmpl.format(*[self.tostring(operand) for operand in expr.operands], **m)", "result = tmpl.format(*[self.tostring(operand) for operand in expr.operands[::-1]], **m)"))
N("C05-neutral-alias", "C05", ("targets/numpy.py", 'asin="numpy.arcsin({0})",', 'asin="numpy.asin({0})",'))
N("C05-neutral-mirror", "C05", ("targets/python.py", 'gt="({0}) > ({1})",', 'gt="({1}) < ({0})",'))
N("C05-neutral-fabs", "C05", ("targets/cpp.py", 'absolute="std::abs({0})",', 'absolute="std::fabs({0})",'))
N("C05-neutral-extra-row", "C05", ("targets/cpp.py", '    is_finite="std::isfinite({0})",', '    is_finite="std::isfinite({0})",\n    exp2="std::exp2({0})",'))

# ----------------------------------------------------------------------------- C06
M("C06-xla-sub-order", "C06", "R6.1", ("targets/xla_client.py", 'subtract="Sub({0}, {1})",', 'subtract="Sub({1}, {0})",'))
M("C06-xla-wrong-op", "C06", "R6.1", ("targets/xla_client.py", 'le="Le({0}, {1})",', 'le="Lt({0}, {1})",'))
M("C06-xla-floot", "C06", "R6.1", ("targets/xla_client.py", 'floor="Floor({0})",', 'floor="Floot({0})",'))
M("C06-hlo-wrong-op", "C06", "R6.1", ("targets/stablehlo.py", 'maximum="StableHLO_MaxOp",', 'maximum="StableHLO_MinOp",'))
M("C06-hlo-unknown-op", "C06", "R6.1", ("targets/stablehlo.py", 'cos="StableHLO_CosineOp",', 'cos="StableHLO_CosOp",'))
M("C06-hlo-operands-reversed", "C06", "R6.2", ("targets/stablehlo.py", "            for operand in expr.operands:\n                op_lines = self.tostring(operand, tab=tab + \"  \").splitlines()", "            for operand in reversed(expr.operands):\n                op_lines = self.tostring(operand, tab=tab + \"  \").splitlines()"))
M("C06-hlo-compare-set", "C06", "R6.2", ("targets/stablehlo.py", '        elif expr.kind in {"lt", "le", "gt", "ge", "eq", "ne"}:', '        elif expr.kind in {"lt", "le", "gt", "ge", "eq"}:'))
M("C06-hlo-direction-table", "C06", "R6.2", ("targets/stablehlo.py", "            lines.append(f'{tab}  StableHLO_ComparisonDirectionValue<\"{expr.kind.upper()}\">,')", "            direction = dict(lt='LT', le='LT', gt='GT', ge='GE', eq='EQ', ne='NE')[expr.kind]\n            lines.append(f'{tab}  StableHLO_ComparisonDirectionValue<\"{direction}\">,')"))
M("C06-hlo-bind-twice", "C06", "R6.3", ("targets/stablehlo.py", "        if expr.ref in self.defined_refs:\n            assert self.need_ref.get(expr.ref), expr.ref\n            return f\"{tab}${expr.ref}\"\n\n        self.defined_refs.add(expr.ref)\n", "        if expr.ref in self.defined_refs:\n            assert self.need_ref.get(expr.ref), expr.ref\n            return f\"{tab}${expr.ref}\"\n\n"))
M("C06-hlo-const-name", "C06", "R6.4", ("targets/stablehlo.py", '    smallest="StableHLO_ConstantLikeSmallestNormalizedValue",', '    smallest="StableHLO_ConstantLikeMaxFiniteValue",'))
M("C06-xla-like-bare", "C06", "R6.4", ("targets/xla_client.py", 'return f"ScalarLike({self.tostring(like)}, {value})"', 'return f"ScalarLike({like.ref}, {value})"'))
N("C06-neutral-comment", "C06", ("targets/stablehlo.py", "        self.defined_refs.add(expr.ref)\n\n        ref = ", "        self.defined_refs.add(expr.ref)  # bind\n\n        ref = "))

# ----------------------------------------------------------------------------- C08
M("C08-typemax-complex", "C08", "R8.1", ("typesystem.py", "            elif kind == \"complex\" and t.kind == \"float\":\n                # a complex type must hold the float type as its component type\n                bits_lst.append(2 * t.bits)", "            elif kind == \"complex\" and t.kind == \"float\":\n                bits_lst.append(t.bits)"))
M("C08-abs-complex-type", "C08", "R8.1", ("expr.py", '        elif self.kind in {"absolute", "real", "imag"}:\n            t = self.operands[0].get_type()\n            return t.complex_part if t.is_complex else t', '        elif self.kind in {"real", "imag"}:\n            t = self.operands[0].get_type()\n            return t.complex_part if t.is_complex else t\n        elif self.kind == "absolute":\n            return self.operands[0].get_type()'))
M("C08-compare-not-bool", "C08", "R8.1", ("expr.py", '        elif self.kind in {"lt", "le", "gt", "ge", "eq", "ne", "logical_and", "logical_or", "logical_xor", "is_finite"}:\n            return Type.fromobject(self.context, "boolean")', '        elif self.kind in {"lt", "le", "gt", "ge", "logical_and", "logical_or", "logical_xor", "is_finite"}:\n            return Type.fromobject(self.context, "boolean")\n        elif self.kind in {"eq", "ne"}:\n            return self.operands[0].get_type()'))
M("C08-builtin-max", "C08", "R8.1", ("targets/numpy.py", 'maximum="numpy.maximum({0}, {1})",', 'maximum="max({0}, {1})",'))
M("C08-complex-part-width", "C08", "R8.1", ("typesystem.py", "        bits = self.bits // 2 if self.bits is not None else None\n        return type(self)(self.context, \"float\", bits)", "        bits = self.bits if self.bits is not None else None\n        return type(self)(self.context, \"float\", bits)"))
M("C08-assert-wrong-expr", "C08", "R8.3", ("targets/base.py", "stmt = self.check_dtype(expr.ref, self.get_type(expr))", "stmt = self.check_dtype(expr.ref, self.get_type(expr.operands[0]))"))
M("C08-seed-finfo", "C08", "R8.4", ("targets/numpy.py", '        return f"{typ}({s})"\n\n    def make_argument', '        if s.startswith((f"{typ}(", f"numpy.finfo({typ}).")):\n            return s\n        return f"{typ}({s})"\n\n    def make_argument'))
N("C08-neutral-rename", "C08", ("targets/numpy.py", "        typ = self.get_type(like)\n        s = str(value)", "        typ = self.get_type(like)  # static type of the constant\n        s = str(value)"))

# ----------------------------------------------------------------------------- C11
M("C11-precedence", "C11", "R11.1", (FPA, "fp64 = ctx.constant((1 << (53 - 1)) + 1, largest)", "fp64 = ctx.constant(1 << (53 - 1) + 1, largest)"))
M("C11-q-fp32", "C11", "R11.1", (FPA, "    fp32 = ctx.constant(1 << (24 - 1), largest)\n", "    fp32 = ctx.constant(1 << (23 - 1), largest)\n"))
M("C11-params-p", "C11", "R11.1", (FPA, "    Q = 2 ** (p - 1)\n    P = 2 ** (p - 1) + 1\n", "    Q = 2 ** (p - 1)\n    P = 2 ** p + 1\n"))
M("C11-kernel-invert", "C11", "R11.1", (FPA, "    D = L - R\n    if invert:\n        return D != x\n    return D == x", "    D = L - R\n    if invert:\n        return D == x\n    return D == x"))
M("C11-next-constant", "C11", "R11.2", (FPA, "    c = ctx.constant(1 - 1 / (1 << p))", "    c = ctx.constant(1 - 1 / (1 << (p - 1)))"))
M("C11-next-direction", "C11", "R11.2", (FPA, "return ctx.select(x > 0, x / c, x * c) if up else ctx.select(x < 0, x / c, x * c)", "return ctx.select(x > 0, x * c, x / c) if up else ctx.select(x < 0, x / c, x * c)"))
M("C11-seed-guard", "C11", "R11.3", (FPA, "        overflow = abs(xh * yh) > largest", "        overflow = xh * yh > largest"))

# ----------------------------------------------------------------------------- C13
M("C13-exp-width", "C13", "R13.1", ("utils.py", "        numpy.float32: (8, 23, numpy.uint32),", "        numpy.float32: (8, 24, numpy.uint32),"))
M("C13-uint-pairing", "C13", "R13.1", ("utils.py", "itype = {numpy.float16: numpy.uint16, numpy.float32: numpy.uint32, numpy.float64: numpy.uint64}[dtype]\n        i = f.view(itype)", "itype = {numpy.float16: numpy.uint16, numpy.float32: numpy.uint64, numpy.float64: numpy.uint64}[dtype]\n        i = f.view(itype)"))
M("C13-float-prec", "C13", "R13.1", ("utils.py", "float_prec = dict(float16=11, float32=24, float64=53, float128=113, longdouble=64)", "float_prec = dict(float16=11, float32=23, float64=53, float128=113, longdouble=64)"))
M("C13-subexp", "C13", "R13.1", ("utils.py", "float_subexp = dict(float16=-23, float32=-148, float64=-1073,", "float_subexp = dict(float16=-23, float32=-148, float64=-1074,"))
M("C13-seed-weak-scalar", "C13", "R13.2", ("utils.py", "        q = q - type(q)(f)", "        q = q - f"))
N("C13-neutral-order", "C13", ("utils.py", "        uint = {numpy.float64: numpy.uint64, numpy.float32: numpy.uint32, numpy.float16: numpy.uint16}[x.dtype.type]", "        uint = {numpy.float16: numpy.uint16, numpy.float32: numpy.uint32, numpy.float64: numpy.uint64}[x.dtype.type]"))

# ----------------------------------------------------------------------------- C15
M("C15-sentinel-inverted", "C15", "R15.1", ("utils.py", "self.flush_subnormals = flush_subnormals if flush_subnormals is not UNSPECIFIED else default_flush_subnormals", "self.flush_subnormals = flush_subnormals if flush_subnormals is UNSPECIFIED else default_flush_subnormals"))
M("C15-diffulp-discards", "C15", "R15.1", ("utils.py", "            flush_subnormals = flush_subnormals if flush_subnormals is not UNSPECIFIED else default_flush_subnormals\n            if flush_subnormals:", "            flush_subnormals = default_flush_subnormals if flush_subnormals is not UNSPECIFIED else default_flush_subnormals\n            if flush_subnormals:"))
M("C15-truth-before-resolve", "C15", "R15.2", ("utils.py", "            flush_subnormals = flush_subnormals if flush_subnormals is not UNSPECIFIED else default_flush_subnormals\n            if flush_subnormals:", "            if flush_subnormals:"))
M("C15-extra-prec-dropped", "C15", "R15.3", ("utils.py", "        extraprec = int(context.prec * self.extra_prec_multiplier) + self.extra_prec\n", "        extraprec = int(context.prec * self.extra_prec_multiplier)\n"))
M("C15-eval-outside-context", "C15", "R15.3", ("utils.py", "        with self.backend_context(context):\n            with warnings.catch_warnings(action=\"ignore\"):\n                if isinstance(sample, tuple):\n                    result = super().__call__(*sample)\n                else:\n                    result = super().__call__(sample)", "        with warnings.catch_warnings(action=\"ignore\"):\n            if isinstance(sample, tuple):\n                result = super().__call__(*sample)\n            else:\n                result = super().__call__(sample)"))
M("C15-zexp-swapped", "C15", "R15.4", ("utils.py", "            vectorize_with_mpmath.float_minexp[fp_format]\n            if flush_subnormals\n            else vectorize_with_mpmath.float_subexp[fp_format]", "            vectorize_with_mpmath.float_subexp[fp_format]\n            if flush_subnormals\n            else vectorize_with_mpmath.float_minexp[fp_format]"))
M("C15-seed-negzero", "C15", "R15.5", ("utils.py", "            return -dtype(0) if sign else dtype(0)", "            return dtype(-0 if sign else 0)"))
M("C15-overflow-sign", "C15", "R15.5", ("utils.py", "            return dtype(-numpy.inf) if sign else dtype(numpy.inf)", "            return dtype(numpy.inf)"))
N("C15-neutral-statement-form", "C15", ("utils.py", "            return -dtype(0) if sign else dtype(0)", "            return dtype(-0.0) if sign else dtype(0.0)"))

# ----------------------------------------------------------------------------- C16 (rules added later)
M("C16-seed-taylorat", "C16", "R16.4", ("polynomial.py", "            # e == j - m\n            s += P[j] * math.comb(j, m) * z0e", "            # e == j - m\n            if P[j] == 0:\n                continue\n            s += P[j] * math.comb(j, m) * z0e"))
M("C16-divmod-counter", "C16", "R16.5", ("polynomial.py", "    Q = [0] * n\n    R = P\n    while len(R) >= len(D):\n        # The divisor is aligned with the leading term of the current\n        # remainder: when the remainder has zero coefficients, its\n        # degree drops by more than one per step.\n        k = len(R) - len(D)\n        t = R[-1] / ld\n        Q[k] = t\n        R = add(R, multiply(-t, [0] * k + D, reverse=reverse), reverse=reverse)\n        # the leading term of the remainder cancels\n        R = R[:-1]\n        while R and R[-1] == 0:\n            R.pop()", "    D = [0] * (len(P) - len(D)) + D\n    Q = []\n    R = P\n    for k in range(n):\n        if not R:\n            break\n        t = R[-1] / ld\n        Q.insert(0, t)\n        R = add(R, multiply(-t, D[k:], reverse=reverse), reverse=reverse)\n        while R and R[-1] == 0:\n            R.pop()"))

# ----------------------------------------------------------------------------- C17
M("C17-ln2lo-digit", "C17", "R17.1", (FPA, "fp64_ = ctx.constant(1.9082149292705877e-10, largest)", "fp64_ = ctx.constant(1.9082149292705877e-11, largest)"))
M("C17-active-branch", "C17", "R17.1", (FPA, "    elif 1:\n        # p=32, abserr=1.1612227229362532e-26, same expm1 accuracy as p=32\n        fp64 = ctx.constant(0.6931471803691238, largest)", "    elif 1:\n        # p=32, abserr=1.1612227229362532e-26, same expm1 accuracy as p=32\n        fp64 = ctx.constant(0.693147180559945, largest)"))
M("C17-fp32-hi-too-long", "C17", "R17.1", (FPA, "fp32 = ctx.constant(0.69314575, largest)  # p=16", "fp32 = ctx.constant(0.6931472, largest)  # p=16"))
M("C17-seed-ln2inv", "C17", "R17.2", (FPA, "ln2inv = ctx.constant(1.4426950408889634074, largest)", "ln2inv = ctx.constant(1.4427950408889634074, largest)"))
M("C17-k-rounding", "C17", "R17.2", (FPA, "    k = ctx.floor(x * ln2inv + half)", "    k = ctx.floor(x * ln2inv)"))
M("C17-c-sign", "C17", "R17.2", (FPA, "    r = x - k * ln2hi\n    c = -k * ln2lo\n    return k, r, c", "    r = x - k * ln2hi\n    c = k * ln2lo\n    return k, r, c"))
M("C17-hi-lo-swapped", "C17", "R17.2", (FPA, "    return ln2, ln2hi, ln2lo, ln2inv, ln2half", "    return ln2, ln2lo, ln2hi, ln2inv, ln2half"))
N("C17-neutral-commute", "C17", (FPA, "    r = x - k * ln2hi\n    c = -k * ln2lo\n    return k, r, c", "    r = x - ln2hi * k\n    c = -k * ln2lo\n    return k, r, c"))

# ----------------------------------------------------------------------------- C18 / C09 additions
M("C18-seed-shared-buffer", "C18", "R18.7", ("fpu.py", "        val = ctypes.c_uint32()\n        self._get_mxcsr(ctypes.byref(val))\n        return val", "        val = self._buf\n        self._get_mxcsr(ctypes.byref(val))\n        return val"), ("fpu.py", "        self.__code_buf = _code_buf  # to keep mmap object alive\n", "        self.__code_buf = _code_buf  # to keep mmap object alive\n        self._buf = ctypes.c_uint32()\n"))
M("C09-seed-lru", "C09", "R9.4", ("expr.py", "def toidentifier(value):", "@functools.lru_cache(maxsize=None)\ndef toidentifier(value):"), ("expr.py", "import math\nimport struct", "import functools\nimport math\nimport struct"))

# ----------------------------------------------------------------------------- C19
M("C19-guard-removed-num3", "C19", "R19.1", ("utils.py", "    if include_huge and num > 3:", "    if include_huge:"))
M("C19-seed-axis", "C19", "R19.2", ("utils.py", "        max_imag_value=max_imag_values[1],", "        max_imag_value=max_imag_values[0],"))
M("C19-flag-dropped", "C19", "R19.2", ("utils.py", "        include_nan=include_nan,\n        include_huge=include_huge,\n        nonnegative=nonnegative,\n        min_value=min_imag_value,", "        include_nan=include_nan,\n        nonnegative=nonnegative,\n        min_value=min_imag_value,"))
M("C19-size-axis", "C19", "R19.2", ("utils.py", "    s3 = real_samples(\n        size=size[2],", "    s3 = real_samples(\n        size=size[1],"))
M("C19-flag-constant", "C19", "R19.2", ("utils.py", "    s1 = real_samples(\n        size=size[0],\n        dtype=dtype,\n        include_infinity=include_infinity,\n        include_zero=include_zero,\n        include_subnormal=include_subnormal,\n        include_nan=include_nan,\n        nonnegative=nonnegative,\n        include_huge=include_huge,\n        min_value=min_values[0],\n        max_value=max_values[0],\n    )\n    s2 = real_samples(\n        size=size[1],\n        dtype=dtype,\n        include_infinity=include_infinity,\n        include_zero=include_zero,\n        include_subnormal=include_subnormal,\n        include_nan=include_nan,\n        nonnegative=nonnegative,\n        include_huge=include_huge,\n        min_value=min_values[1],\n        max_value=max_values[1],\n    )\n    s1, s2 = s1.reshape(1, -1)", "    s1 = real_samples(\n        size=size[0],\n        dtype=dtype,\n        include_infinity=include_infinity,\n        include_zero=include_zero,\n        include_subnormal=include_subnormal,\n        include_nan=include_nan,\n        nonnegative=nonnegative,\n        include_huge=include_huge,\n        min_value=min_values[0],\n        max_value=max_values[0],\n    )\n    s2 = real_samples(\n        size=size[1],\n        dtype=dtype,\n        include_infinity=include_infinity,\n        include_zero=True,\n        include_subnormal=include_subnormal,\n        include_nan=include_nan,\n        nonnegative=nonnegative,\n        include_huge=include_huge,\n        min_value=min_values[1],\n        max_value=max_values[1],\n    )\n    s1, s2 = s1.reshape(1, -1)"))
N("C19-neutral-guard-added", "C19", ("utils.py", "    if include_huge and num > 3:", "    if include_huge and num >= 4:"))

# ----------------------------------------------------------------------------- C12
APM = "apmath.py"
M("C12-eps-loses-term", "C12", "R12.1", (APM, "                eps_i = ctx.select(p, eps_ip1, f_j)", "                eps_i = ctx.select(p, eps_ip1, eps_i)"))
M("C12-select-inverted", "C12", "R12.1", (APM, "                f_lst.append(ctx.select(p, f_j, zero))", "                f_lst.append(ctx.select(p, zero, f_j))"))
M("C12-nztopk-le", "C12", "R12.1", (APM, "ctx.logical_and(isnzero[j], nzcount[j] == i)", "ctx.logical_and(isnzero[j], nzcount[j] <= i)"))
M("C12-nztopk-two", "C12", "R12.1", (APM, "        return [ctx.select(flag, seq[1], seq[0]), ctx.select(flag, seq[0], seq[1])]", "        return [ctx.select(flag, seq[1], seq[0]), ctx.select(flag, seq[1], seq[0])]"))
M("C12-errbranch-index", "C12", "R12.1", (APM, "        f_j, eps_ip1 = two_sum(ctx, eps_i, e_lst[i + 1], fix_overflow=fix_overflow, assume_fma=fast)", "        f_j, eps_ip1 = two_sum(ctx, eps_i, e_lst[i], fix_overflow=fix_overflow, assume_fma=fast)"))
M("C12-seed-maxsize", "C12", "R12.2", (APM, "max_size = {numpy.float16: 4, numpy.float32: 12, numpy.float64: 40}[dtype]", "max_size = {numpy.float16: 3, numpy.float32: 11, numpy.float64: 39}[dtype]"))
N("C12-neutral-ne-to-not-eq", "C12", (APM, "                p = ctx.ne(eps_ip1, zero)", "                p = ctx.logical_not(ctx.eq(eps_ip1, zero))"))

# ----------------------------------------------------------------------------- C14
M("C14-asym-absdiff", "C14", "R14.1", ("utils.py", "                result = ix - iy if ix >= iy else iy - ix", "                result = ix - iy if ix >= iy else ix - iy"))
M("C14-asym-flush", "C14", "R14.1", ("utils.py", "                iy = iy - i if iy > i else (0 if 2 * iy <= i else 1)", "                iy = iy - i if iy > i else (0 if 2 * iy < i else 1)"))
M("C14-asym-sign", "C14", "R14.1", ("utils.py", "        sy = -1 if y < 0 else (1 if y > 0 else 0)\n        x, y = abs(x), abs(y)\n        ix, iy = int(x.view(uint)), int(y.view(uint))", "        sy = -1 if y <= 0 else 1\n        x, y = abs(x), abs(y)\n        ix, iy = int(x.view(uint)), int(y.view(uint))"))
M("C14-complex-pairing", "C14", "R14.2", ("utils.py", "            diff_ulp(x.imag, y.imag, flush_subnormals=flush_subnormals, equal_nan=equal_nan),\n        )", "            diff_ulp(x.imag, y.real, flush_subnormals=flush_subnormals, equal_nan=equal_nan),\n        )"))
M("C14-option-dropped", "C14", "R14.3", ("utils.py", "            u += diff_ulp(x_, y_, flush_subnormals=flush_subnormals, equal_nan=equal_nan)", "            u += diff_ulp(x_, y_, equal_nan=equal_nan)"))
M("C14-view-before-abs", "C14", "R14.4", ("utils.py", "        x, y = abs(x), abs(y)\n        ix, iy = int(x.view(uint)), int(y.view(uint))\n        if numpy.isfinite(x) and numpy.isfinite(y):\n            flush_subnormals = flush_subnormals if", "        ix, iy = int(x.view(uint)), int(y.view(uint))\n        x, y = abs(x), abs(y)\n        if numpy.isfinite(x) and numpy.isfinite(y):\n            flush_subnormals = flush_subnormals if"))
M("C14-ulp-machep", "C14", "R14.5", ("utils.py", "    return numpy.ldexp(dtype(1), numpy.frexp(x)[1] + numpy.finfo(dtype).negep)", "    return numpy.ldexp(dtype(1), numpy.frexp(x)[1] + numpy.finfo(dtype).machep)"))
N("C14-neutral-absdiff-order", "C14", ("utils.py", "                result = ix - iy if ix >= iy else iy - ix", "                result = iy - ix if iy >= ix else ix - iy"))
N("C14-neutral-sum-order", "C14", ("utils.py", "                result = ix + iy\n", "                result = iy + ix\n"))

# ----------------------------------------------------------------------------- C13 algebra
M("C13-f2f-exponent", "C13", "R13.3", ("utils.py", "        e = epart + fi.minexp - 1\n", "        e = epart + fi.minexp\n"))
M("C13-f2f-subnormal-denom", "C13", "R13.3", ("utils.py", "            denom = mxu * (1 << (-e - 1))", "            denom = mxu * (1 << (-e))"))
M("C13-f2f-hidden-bit", "C13", "R13.3", ("utils.py", "            num = (1 - 2 * s) * (mxu + fpart)\n            denom = mxu * (1 << (-e))", "            num = (1 - 2 * s) * (fpart)\n            denom = mxu * (1 << (-e))"))
M("C13-f2f-sign", "C13", "R13.3", ("utils.py", "            num = (1 - 2 * s) * (mxu + fpart) * (1 << e)\n            denom = mxu", "            num = (mxu + fpart) * (1 << e)\n            denom = mxu"))
M("C13-f2mpf-exponent", "C13", "R13.4", ("utils.py", "        exp_ = exponent - prec\n", "        exp_ = exponent - prec + 1\n"))
N("C13-neutral-f2f-order", "C13", ("utils.py", "            num = (1 - 2 * s) * (mxu + fpart) * (1 << e)\n            denom = mxu", "            num = (1 << e) * (mxu + fpart) * (1 - 2 * s)\n            denom = mxu"))

# ----------------------------------------------------------------------------- C02 (interval abstract interpretation)
_AL = "algorithms.py"
M("C02-asinh-threshold", "C02", "R2.2", (_AL, "        safe_max_limit = ctx.sqrt(ctx.constant(\"largest\", x))\n", "        safe_max_limit = ctx.constant(\"largest\", x)\n"))
M("C02-asinh-wrong-branch", "C02", "R2.2", (_AL, "        r = ctx.select(ax >= safe_max_limit, a0, a1)\n", "        r = ctx.select(ax >= safe_max_limit, a1, a0)\n"))
M("C02-asinh-sign-dropped", "C02", "R2.2", (_AL, "    return ctx(ctx.sign(x) * r)\n", "    return ctx(r)\n"))
M("C02-asinh-log-constant", "C02", "R2.2", (_AL, "    a0 = ctx.log(two) + ctx.log(ax)\n    a1 = ctx.log1p(ax + ax2 / (one + z))", "    a0 = ctx.log(one) + ctx.log(ax)\n    a1 = ctx.log1p(ax + ax2 / (one + z))"))
M("C02-acosh-threshold", "C02", "R2.2", (_AL, "        safe_max_limit = ctx.constant(\"largest\", x) / 2\n", "        safe_max_limit = ctx.constant(\"largest\", x)\n"))
M("C02-asin-arg-order", "C02", "R2.2", (_AL, "    ta = ctx.atan2(x, one + sq)\n", "    ta = ctx.atan2(one + sq, x)\n"))
M("C02-asin-domain", "C02", "R2.1", (_AL, "    sq = ctx.sqrt((one - x) * (one + x))\n    ta = ctx.atan2(x, one + sq)", "    sq = ctx.sqrt(abs((one - x) * (one + x)))\n    ta = ctx.atan2(x, one + sq)"))
M("C02-hypot-guard-dropped", "C02", "R2.2", (_AL, "    return ctx(ctx.select(mx == mn, h1, h2))\n", "    return ctx(h2)\n"))
M("C02-hypot-underflow-branch", "C02", "R2.2", (_AL, "    h2 = ctx.select(ctx.And(sqa == 1, r > 0), mx + mx * r / 2, mx * sqa)", "    h2 = ctx.select(ctx.And(sqa == 1, r > 0), mx + mx * r * 2, mx * mx * sqa)"))
M("C02-hypot-sqrt-two", "C02", "R2.2", (_AL, "        sqrt_two = ctx.sqrt(ctx.constant(2, mx))\n", "        sqrt_two = ctx.constant(2, mx)\n"))
N("C02-neutral-asin-commute", "C02", (_AL, "    sq = ctx.sqrt((one - x) * (one + x))\n    ta = ctx.atan2(x, one + sq)", "    sq = ctx.sqrt((one + x) * (one - x))\n    ta = ctx.atan2(x, sq + one)"))
N("C02-neutral-asinh-select", "C02", (_AL, "        r = ctx.select(ax >= safe_max_limit, a0, a1)\n", "        r = ctx.select(ax < safe_max_limit, a1, a0)\n"))
N("C02-neutral-hypot-half", "C02", (_AL, "    h2 = ctx.select(ctx.And(sqa == 1, r > 0), mx + mx * r / 2, mx * sqa)", "    h2 = ctx.select(ctx.And(sqa == 1, r > 0), mx + mx * r * 0.5, mx * sqa)"))
M("C11-seed-nmant", "C11", "R11.1", (FPA, "def _is_power_of_two_parameters(dtype):\n    fi = numpy.finfo(dtype)\n    p = -fi.negep\n", "def _is_power_of_two_parameters(dtype):\n    fi = numpy.finfo(dtype)\n    p = fi.nmant\n"))
N("C11-neutral-nmant-plus-one", "C11", (FPA, "def _is_power_of_two_parameters(dtype):\n    fi = numpy.finfo(dtype)\n    p = -fi.negep\n", "def _is_power_of_two_parameters(dtype):\n    fi = numpy.finfo(dtype)\n    p = fi.nmant + 1\n"))
N("C11-neutral-next-reordered", "C11", (FPA, "return ctx.select(x > 0, x / c, x * c) if up else ctx.select(x < 0, x / c, x * c)", "return ctx.select(x < 0, x * c, x / c) if up else ctx.select(x > 0, x * c, x / c)"))
