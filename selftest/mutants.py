"""Self-test corpus.  Each case: id, prop, kind ('mutant'|'neutral'), edits [(file, old, new)], expect rule id."""

CASES = []


def M(id, prop, expect, *edits):
    CASES.append(dict(id=id, prop=prop, kind="mutant", expect=expect, edits=list(edits)))


def N(id, prop, *edits):
    CASES.append(dict(id=id, prop=prop, kind="neutral", expect=None, edits=list(edits)))


# ----------------------------------------------------------------------------- C18
M("C18-exit-no-restore", "C18", "R18.1", ("fpu.py", "                self.register.set_mxcsr(self.saved_state)\n                self.saved_state = None", "                self.saved_state = None"))
M("C18-exit-restore-only-when-no-exception", "C18", "R18.1", ("fpu.py", "                assert self.saved_state is not None\n                self.register.set_mxcsr(self.saved_state)", "                assert self.saved_state is not None\n                if exc_type is not None:\n                    return False\n                self.register.set_mxcsr(self.saved_state)"))
M("C18-exit-swallow", "C18", "R18.1", ("fpu.py", "                self.register.set_mxcsr(self.saved_state)\n                self.saved_state = None", "                self.register.set_mxcsr(self.saved_state)\n                self.saved_state = None\n                return True"))
M("C18-enter-set-before-save", "C18", "R18.2", ("fpu.py", "                self.saved_state = self.register.get_mxcsr()\n", "                self.register.set_mxcsr(self.register._get_modified_state(self.register.get_mxcsr(), FZ=FZ, DAZ=DAZ, RN=RN))\n                self.saved_state = self.register.get_mxcsr()\n"))
M("C18-stale-state", "C18", "R18.3", ("fpu.py", "        class context(contextlib.ContextDecorator):", "        stale = self._get_modified_state(self.get_mxcsr(), FZ=FZ, DAZ=DAZ, RN=RN)\n\n        class context(contextlib.ContextDecorator):"), ("fpu.py", "self.register.set_mxcsr(self.register._get_modified_state(self.saved_state, FZ=FZ, DAZ=DAZ, RN=RN))", "self.register.set_mxcsr(stale)"))
M("C18-mask-daz-bit", "C18", "R18.4", ("fpu.py", "                new_value |= 1 << 6\n", "                new_value |= 1 << 7\n"))
M("C18-mask-rn-swapped", "C18", "R18.4", ("fpu.py", "            elif r == 1:\n                new_value &= ~(1 << 14)\n                new_value |= 1 << 13", "            elif r == 1:\n                new_value |= 1 << 14\n                new_value &= ~(1 << 13)"))
M("C18-mask-fz-clear-missing-not", "C18", "R18.4", ("fpu.py", "                new_value &= ~(1 << 15)", "                new_value &= 1 << 15"))
M("C18-rn-table", "C18", "R18.4", ("fpu.py", "            r = dict(nearest=0, down=1, up=2, towardszero=3)[RN]", "            r = dict(nearest=0, up=1, down=2, towardszero=3)[RN]"))
M("C18-reader-daz", "C18", "R18.5", ("fpu.py", "return (self.get_mxcsr().value & (1 << 6)) != 0", "return (self.get_mxcsr().value & (1 << 5)) != 0"))
M("C18-blob-swapped", "C18", "R18.6", ("fpu.py", 'b"\\x0F\\xAE\\x17"  # ldmxcsr [rdi]', 'b"\\x0F\\xAE\\x1F"  # ldmxcsr [rdi]'))
M("C18-blob-offset", "C18", "R18.6", ("fpu.py", "_get_mxcsr_addr = _set_mxcsr_addr + len(_set_mxcsr_asm)", "_get_mxcsr_addr = _set_mxcsr_addr + 8"))
N("C18-neutral-rename", "C18", ("fpu.py", "        new_value = current.value\n", "        new_value = current.value  # start from the live register\n"))
N("C18-neutral-exit-order", "C18", ("fpu.py", "            def __exit__(self, exc_type, exc, exc_tb):\n                assert self.saved_state is not None\n", "            def __exit__(self, exc_type, exc, exc_tb):\n                assert self.saved_state is not None, 'not entered'\n"))

# ----------------------------------------------------------------------------- C07
M("C07-key-drop-str", "C07", "R7.1", ("expr.py", "(value, type(value).__name__, str(value))", "(value, type(value).__name__)"))
M("C07-key-drop-type", "C07", "R7.2", ("expr.py", "(value, type(value).__name__, str(value))", "(value, str(value))"))
M("C07-key-drop-like", "C07", "R7.2", ("expr.py", "                like.key,\n            )", "            )"))
M("C07-generic-key-sliced", "C07", "R7.2", ("expr.py", "r = (self.kind, *(operand._two_level_intkey for operand in self.operands))", "r = (self.kind, *(operand._two_level_intkey for operand in self.operands[:2]))"))
M("C07-two-level-drop-kind", "C07", "R7.2", ("expr.py", "        return (self.kind, *(op.intkey for op in self.operands))", "        return tuple(op.intkey for op in self.operands)"))
M("C07-two-level-leaf-kinds", "C07", "R7.2", ("expr.py", '        if self.kind in {"symbol", "constant"}:\n            return (self.kind, self.intkey)', '        if self.kind in {"symbol"}:\n            return (self.kind, self.intkey)'))
M("C07-new-skips-registration", "C07", "R7.3", ("expr.py", "        return context._register_expression(obj)", "        context._register_expression(obj)\n        return obj"))
M("C07-hit-overwrites", "C07", "R7.3", ("context.py", "                raise RuntimeError(\"attempt to re-register equivalent expression\")\n        return prev", "                raise RuntimeError(\"attempt to re-register equivalent expression\")\n            self._expressions[expr.key] = expr\n        return prev"))
M("C07-counter-not-incremented", "C07", "R7.3", ("context.py", "            self._expression_counter += 1\n", ""))
M("C07-type-eq-drops-param", "C07", "R7.4", ("typesystem.py", "return self.context is other.context and self.kind == other.kind and self.param == other.param", "return self.context is other.context and self.kind == other.kind"))
N("C07-neutral-hex-encoding", "C07", ("expr.py", "(value, type(value).__name__, str(value))", "(value, type(value).__name__, repr(value))"))
N("C07-neutral-comment", "C07", ("context.py", "        prev = self._expressions.get(expr.key)\n", "        prev = self._expressions.get(expr.key)  # lookup\n"))

# ----------------------------------------------------------------------------- C09
M("C09-same-dtype-set", "C09", "R9.1", ("context.py", "                others = cache[a.key] = dict()", "                others = cache[a.key] = set()"), ("context.py", "                    others[b.key] = None", "                    others.add(b.key)"))
M("C09-using-iterated", "C09", "R9.1", ("context.py", "        if \"using\" not in self.parameters:\n            self.parameters[\"using\"] = set()\n", "        if \"using\" not in self.parameters:\n            self.parameters[\"using\"] = set()\n        self._using_names = [u for u in self.parameters[\"using\"]]\n"))
M("C09-kinds-pop-unguarded", "C09", "R9.1", ("expr.py", "                if len(kinds) == 1:\n                    if len(params) == 1:\n                        return ct.param[0]\n                    kind = kinds.pop()", "                if len(kinds) >= 1:\n                    if len(params) == 1:\n                        return ct.param[0]\n                    kind = kinds.pop()"))
M("C09-global-tmp-counter", "C09", "R9.2", ("expr.py", "def make_symbol(context, name, typ):\n    if name is None:", "def make_symbol(context, name, typ, _tmp_counter=[0]):\n    if name is None:\n        _tmp_counter[0] += 1\n        name = f\"_t{_tmp_counter[0]}\"\n    if name is None:"))
M("C09-module-level-cache-names", "C09", "R9.2", ("expr.py", "def make_apply(context, name, args, result):\n    return Expr(context, \"apply\", (name, *args, result))", "_apply_names = {}\n\n\ndef make_apply(context, name, args, result):\n    _apply_names[str(name)] = _apply_names.get(str(name), 0) + 1\n    count = _apply_names[str(name)]\n    return Expr(context, \"apply\", (name if count == 1 else name, *args, result) if count else (name, *args, result))"))
M("C09-order-by-id", "C09", "R9.3", ("rewrite.py", "        if x.key > y.key:\n            return expr.context.logical_and(y, x)", "        if id(x) > id(y):\n            return expr.context.logical_and(y, x)"))
N("C09-neutral-sorted-set", "C09", ("context.py", "        if \"using\" not in self.parameters:\n            self.parameters[\"using\"] = set()\n", "        if \"using\" not in self.parameters:\n            self.parameters[\"using\"] = set()\n        self._using_names = sorted(self.parameters[\"using\"])\n"))
N("C09-neutral-membership", "C09", ("targets/base.py", "        if expr.ref in self.defined_refs:\n            assert self.need_ref.get(expr.ref), expr.ref\n            return expr.ref", "        if any(expr.ref == d for d in self.defined_refs):\n            assert self.need_ref.get(expr.ref), expr.ref\n            return expr.ref"))

# ----------------------------------------------------------------------------- C16
M("C16-d0-drops-leading", "C16", "R16.1", ("polynomial.py", "        for i in range(1, N + 1):\n            s += coeffs[i] * fast_exponent_by_squaring(x, i)", "        for i in range(1, N):\n            s += coeffs[i] * fast_exponent_by_squaring(x, i)"))
M("C16-horner-reverse", "C16", "R16.1", ("floating_point_algorithms.py", "    N = len(coeffs) - 1\n    if reverse:\n        s = ctx.constant(coeffs[0], x)\n        indices = range(1, N + 1)\n    else:\n        s = ctx.constant(coeffs[N], x)\n        indices = reversed(range(N))\n    for i in indices:\n        s = s * x + coeffs[i]", "    N = len(coeffs) - 1\n    if reverse:\n        s = ctx.constant(coeffs[0], x)\n        indices = range(N)\n    else:\n        s = ctx.constant(coeffs[N], x)\n        indices = reversed(range(N))\n    for i in indices:\n        s = s * x + coeffs[i]"))
M("C16-split-low-short", "C16", "R16.1", ("floating_point_algorithms.py", "    b = fast_polynomial(ctx, x, coeffs[:d], reverse=reverse, scheme=scheme, _N=_N)", "    b = fast_polynomial(ctx, x, coeffs[: d - 1], reverse=reverse, scheme=scheme, _N=_N)"))
M("C16-rpoly-skips", "C16", "R16.1", ("polynomial.py", "    for rc in reversed(rcoeffs[1:]):", "    for rc in reversed(rcoeffs[2:]):"))
M("C16-laurent-slice", "C16", "R16.1", ("floating_point_algorithms.py", "            P = C[-m:]", "            P = C[-m + 1 :]"))
M("C16-sibling-disagree", "C16", "R16.2", ("floating_point_algorithms.py", "    if N == 1:\n        return ctx.constant(coeffs[0], x) + ctx.constant(coeffs[1], x) * x\n\n    d = scheme(N, _N)", "    d = scheme(N, _N)"))
M("C16-exp-even", "C16", "R16.3", ("floating_point_algorithms.py", "    if n % 2 == 0:\n        return r * r\n    return r * r * x", "    if n % 2 == 0:\n        return r * r * x\n    return r * r * x"))
M("C16-exp-n2", "C16", "R16.3", ("polynomial.py", "    if n == 2:\n        return x * x\n", "    if n == 2:\n        return x * x * x\n"))
M("C16-recombine-power", "C16", "R16.3", ("polynomial.py", "    xd = fast_exponent_by_squaring(x, d)", "    xd = fast_exponent_by_squaring(x, d - 1)"))
N("C16-neutral-len", "C16", ("polynomial.py", "        for i in range(1, N + 1):\n            s += coeffs[i] * fast_exponent_by_squaring(x, i)", "        for i in range(1, len(coeffs)):\n            s += coeffs[i] * fast_exponent_by_squaring(x, i)"), ("floating_point_algorithms.py", "        for i in range(1, N + 1):\n            s += coeffs[i] * fast_exponent_by_squaring(ctx, x, i)", "        for i in range(1, len(coeffs)):\n            s += coeffs[i] * fast_exponent_by_squaring(ctx, x, i)"))
N("C16-neutral-order", "C16", ("polynomial.py", "    a = fast_polynomial(x, coeffs[d:], reverse=reverse, scheme=scheme, _N=_N)\n    b = fast_polynomial(x, coeffs[:d], reverse=reverse, scheme=scheme, _N=_N)", "    b = fast_polynomial(x, coeffs[:d], reverse=reverse, scheme=scheme, _N=_N)\n    a = fast_polynomial(x, coeffs[d:], reverse=reverse, scheme=scheme, _N=_N)"))

# ----------------------------------------------------------------------------- C10
FPA = "floating_point_algorithms.py"
M("C10-2sum-wrong-term", "C10", "R10.1", (FPA, "    if fast:\n        t = y - z\n    else:\n        t = (x - (s - z)) + (y - z)\n    if fix_overflow:", "    if fast:\n        t = y - z\n    else:\n        t = (x - (s - z)) + (y - s)\n    if fix_overflow:"))
M("C10-fast2sum-sign", "C10", "R10.1", (FPA, "    if fast:\n        t = y - z\n    else:\n        t = (x - (s - z)) + (y - z)\n    if fix_overflow:", "    if fast:\n        t = z - y\n    else:\n        t = (x - (s - z)) + (y - z)\n    if fix_overflow:"))
M("C10-2sum-overflow-test", "C10", "R10.1", (FPA, "        overflow = abs(z) > largest\n        t = ctx.select(overflow, 0, t)", "        overflow = abs(s) > largest\n        t = ctx.select(overflow, 0, t)"))
M("C10-veltkamp-rescale", "C10", "R10.1", (FPA, "ctx.select(ax < 1, gd, gd * N))", "ctx.select(ax < 1, gd, gd * invN))"))
M("C10-veltkamp-sign", "C10", "R10.1", (FPA, "    g = C * x_n\n    d = g - x_n\n    gd = g - d", "    g = C * x_n\n    d = g - x_n\n    gd = g + d"))
M("C10-muldw-term", "C10", "R10.1", (FPA, "    t3 = t2 + xl * yh\n    xyl = t3 + xl * yl\n    return xyh, xyl", "    t3 = t2 + xl * yl\n    xyl = t3 + xl * yl\n    return xyh, xyl"))
M("C10-muldekker-mixed-scale", "C10", "R10.1", (FPA, "        yh, yl = split_veltkamp(ctx, y, C=C, scale=scale, dtype=dtype)", "        yh, yl = split_veltkamp(ctx, y, C=C, scale=False, dtype=dtype)"))
M("C10-alg-square-term", "C10", "R10.1", ("algorithms.py", "    t3 = t2 + xh * xl\n    xxl = t3 + xl * xl", "    t3 = t2 + xl * xl\n    xxl = t3 + xl * xl"))
M("C10-alg-split-low", "C10", "R10.1", ("algorithms.py", "    xh = g + d\n    xl = x - xh\n    return xh, xl\n\n\ndef square_dekker", "    xh = g + d\n    xl = xh - x\n    return xh, xl\n\n\ndef square_dekker"))
M("C10-utils-sum-drops-errors", "C10", "R10.1", ("utils.py", "        for n in seq[2:]:\n            s, t1 = add_2sum(s, n)\n            t = t + t1\n        return add_2sum(s, t)", "        for n in seq[2:]:\n            s, t1 = add_2sum(s, n)\n            t = t1\n        return add_2sum(s, t)"))
M("C10-utils-double", "C10", "R10.1", ("utils.py", "    s = x + x\n    z = s - x\n    t = x - z\n    return s, t", "    s = x + x\n    z = s - x\n    t = z - x\n    return s, t"))
M("C10-const-alg-fp64", "C10", "R10.2", ("algorithms.py", "fp64 = ctx.constant(2 ** (54 // 2) + 1, largest)", "fp64 = ctx.constant(2 ** (53 // 2) + 1, largest)"))
M("C10-const-threshold", "C10", "R10.2", ("algorithms.py", "    fp16 = ctx.constant(2 ** (12 // 2) + 1, largest)\n    return ctx.select(largest > 1e308, fp64, ctx.select(largest > 1e38, fp32, fp16)).reference(\n        \"veltkamp_splitter_constant\"", "    fp16 = ctx.constant(2 ** (12 // 2) + 1, largest)\n    return ctx.select(largest > 1e308, fp64, ctx.select(largest > 1e39, fp32, fp16)).reference(\n        \"veltkamp_splitter_constant\""))
M("C10-const-N", "C10", "R10.2", (FPA, "        N=dtype(2 ** ((p + 1) // 2)),", "        N=dtype(2 ** (p // 2)),"))
M("C10-const-xmax", "C10", "R10.2", (FPA, "        x_max=dtype(2 ** (maxexp - p // 2) * (2 ** (p // 2) - 1)),", "        x_max=dtype(2 ** (maxexp - p // 2) * (2 ** (p // 2))),"))
M("C10-wrapper-quick", "C10", "R10.3", ("apmath.py", "    return fpa.add_2sum(ctx, a, b, fast=True, fix_overflow=fix_overflow)", "    return fpa.add_2sum(ctx, a, b, fast=False, fix_overflow=fix_overflow)"))
M("C10-wrapper-twoprod-scale", "C10", "R10.3", ("apmath.py", "    return fpa.mul_dekker(ctx, x, y, scale=scale, dtype=dtype, fix_overflow=fix_overflow, assume_fma=assume_fma)", "    return fpa.mul_dekker(ctx, x, y, scale=True, dtype=dtype, fix_overflow=fix_overflow, assume_fma=assume_fma)"))
M("C10-wrapper-twosum-swapped", "C10", "R10.3", ("apmath.py", "    return fpa.add_2sum(ctx, x, y, fast=assume_fma, fix_overflow=fix_overflow)", "    return fpa.add_2sum(ctx, x, y, fast=fix_overflow, fix_overflow=assume_fma)"))
N("C10-neutral-commute", "C10", (FPA, "    s = x + y\n    z = s - x\n    if fast:", "    s = y + x\n    z = s - x\n    if fast:"))
N("C10-neutral-veltkamp-variant", "C10", ("algorithms.py", "    g = C * x\n    d = x - g\n    xh = g + d\n    xl = x - xh\n    return xh, xl\n\n\ndef square_dekker", "    g = x * C\n    delta = g - x\n    xh = g - delta\n    xl = x - xh\n    return xh, xl\n\n\ndef square_dekker"))
N("C10-neutral-cross-order", "C10", (FPA, "    t2 = t1 + xh * yl\n    t3 = t2 + xl * yh\n    xyl = t3 + xl * yl", "    t2 = t1 + xl * yh\n    t3 = t2 + yl * xh\n    xyl = t3 + yl * xl"))

# ----------------------------------------------------------------------------- C04
RW = "rewrite.py"
M("C04-table-nonneg-nonpos", "C04", "R4.1", (RW, '    ("nonnegative", "nonpositive"): (True, None, None, False, None, None),', '    ("nonnegative", "nonpositive"): (True, True, False, False, False, True),'))
M("C04-table-const-row", "C04", "R4.1", (RW, '    ("smallest", "eps"): (False, False, True, True, False, True),', '    ("smallest", "eps"): (True, True, False, False, False, True),'))
M("C04-table-zero-nonneg", "C04", "R4.1", (RW, '    (0, "nonnegative"): (None, False, True, None, None, None),', '    (0, "nonnegative"): (False, False, True, True, None, None),'))
M("C04-wiring-lt-swap-index", "C04", "R4.2", (RW, "        return self._compare(expr, lambda x, y: x < y, 3, 1)", "        return self._compare(expr, lambda x, y: x < y, 3, 3)"))
M("C04-wiring-ge-column", "C04", "R4.2", (RW, "        return self._compare(expr, lambda x, y: x >= y, 0, 2)", "        return self._compare(expr, lambda x, y: x >= y, 1, 2)"))
M("C04-not-lt", "C04", "R4.3", (RW, "            # ! (x < y) -> x >= y -> y <= x\n            a, b = x.operands\n            return expr.context.le(b, a)", "            # ! (x < y) -> x >= y -> y <= x\n            a, b = x.operands\n            return expr.context.lt(b, a)"))
M("C04-not-ge", "C04", "R4.3", (RW, "            # ! (x >= y) -> x < y\n            a, b = x.operands\n            return expr.context.lt(a, b)", "            # ! (x >= y) -> x < y\n            a, b = x.operands\n            return expr.context.le(a, b)"))
M("C04-select-gt-flip", "C04", "R4.3", (RW, "            # (a > b) ? x : y -> (a <= b) ? y : x\n            a, b = cond.operands\n            return expr.context.select(a <= b, y, x)", "            # (a > b) ? x : y -> (a <= b) ? y : x\n            a, b = cond.operands\n            return expr.context.select(a < b, y, x)"))
M("C04-select-ne-noswap", "C04", "R4.3", (RW, "            return expr.context.select(a == b, y, x)", "            return expr.context.select(a == b, x, y)"))
M("C04-subtract-zero-sign", "C04", "R4.3", (RW, "                    return -y_ if s == -1 else y_", "                    return y_"))
M("C04-multiply-neutral", "C04", "R4.3", (RW, "                if isinstance(value, number_types) and value == 1:\n                    return y_", "                if isinstance(value, number_types) and value == 0:\n                    return y_"))
M("C04-conj-idempotent", "C04", "R4.3", (RW, '        if x.kind == "conjugate":\n            return x.operands[0]', '        if x.kind == "conjugate":\n            return x'))
M("C04-negative-idempotent", "C04", "R4.3", (RW, '        if x.kind == "negative":\n            return x.operands[0]', '        if x.kind == "negative":\n            return x'))
M("C04-and-absorb", "C04", "R4.3", (RW, "                    return y_ if value else ctx.constant(False)", "                    return y_ if value else ctx.constant(True)"))
M("C04-nested-select", "C04", "R4.3", (RW, "            if b is y:\n                return expr.context.select(expr.context.logical_and(cond, cond1), a, y)", "            if b is y:\n                return expr.context.select(expr.context.logical_or(cond, cond1), a, y)"))
M("C04-same-operands", "C04", "R4.3", (RW, '            if expr.kind in {"eq", "le", "ge"}:\n                return expr.context.constant(True)', '            if expr.kind in {"eq", "le", "gt"}:\n                return expr.context.constant(True)'))
M("C04-isnonneg-multiply", "C04", "R4.7", ("expr.py", "                (x._is_nonnegative and y._is_nonnegative)\n                or (x._is_nonpositive and y._is_nonpositive)", "                (x._is_nonnegative and y._is_nonnegative)\n                or (x._is_nonpositive and y._is_nonnegative)"))
M("C04-isnonpos-seed", "C04", "R4.7", ("expr.py", '        elif self.kind in {"sqrt", "square", "absolute"} and self.operands[0]._is_positive:\n            return False', '        elif self.kind in {"sqrt", "square", "absolute"} and self.operands[0]._is_nonnegative:\n            return False'))
M("C04-isnonneg-subtract", "C04", "R4.7", ("expr.py", "            if x._is_nonnegative and y._is_nonpositive:\n                return True\n            if x._is_negative and y._is_positive:\n                return False", "            if x._is_nonnegative and y._is_nonnegative:\n                return True\n            if x._is_negative and y._is_positive:\n                return False"))
N("C04-neutral-row-none", "C04", (RW, '    ("positive", "nonpositive"): (True, True, False, False, False, True),', '    ("positive", "nonpositive"): (True, None, None, False, None, None),'))
N("C04-neutral-dead-row", "C04", (RW, '    ("smallest", "positive"): (None, False, True, None, None, None),', '    ("smallest", "positive"): (True, True, False, False, False, True),'))
N("C04-neutral-comment", "C04", (RW, "            # ! (x > y) -> x <= y\n", "            # not (x > y) is x <= y\n"))

# ----------------------------------------------------------------------------- C03
AL = "algorithms.py"
M("C03-asin-sign-select", "C03", "R3.1", (AL, "    imag = ctx.select(signed_y < zero, -w_imag, w_imag)", "    imag = ctx.select(signed_x < zero, -w_imag, w_imag)"))
M("C03-asinh-real-branch", "C03", "R3.3", (AL, "    real = ctx.select(signed_x < 0, -w.imag, w.imag)\n    imag = ctx.atan2(signed_y, w.real)", "    real = ctx.select(signed_x < 0, w.imag, -w.imag)\n    imag = ctx.atan2(signed_y, w.real)"))
M("C03-asinh-atan2-swapped", "C03", "R3.3", (AL, "    real = ctx.select(signed_x < 0, -w.imag, w.imag)\n    imag = ctx.atan2(signed_y, w.real)", "    real = ctx.select(signed_x < 0, -w.imag, w.imag)\n    imag = ctx.atan2(w.real, signed_y)"))
M("C03-acos-sign", "C03", "R3.3", (AL, "    imag = ctx.select(signed_y < 0, w.imag, -w.imag)", "    imag = ctx.select(signed_y <= 0, w.imag, -w.imag)"))
M("C03-acosh-sign-lost", "C03", "R3.3", (AL, "    return ctx(ctx.complex(w.imag, ctx.select(signed_y < 0, -imag, imag)))", "    return ctx(ctx.complex(w.imag, ctx.select(signed_y < 0, imag, imag)))"))
M("C03-atan-seed", "C03", "R3.3", (AL, "    w = ctx.atanh(ctx.complex(-z.imag, z.real))\n    return ctx(ctx.complex(w.imag, -w.real))", "    w = ctx.atanh(ctx.complex(z.imag, z.real))\n    return ctx(ctx.complex(w.imag, w.real))"))
M("C03-atan-drop-minus", "C03", "R3.3", (AL, "    w = ctx.atanh(ctx.complex(-z.imag, z.real))\n    return ctx(ctx.complex(w.imag, -w.real))", "    w = ctx.atanh(ctx.complex(-z.imag, z.real))\n    return ctx(ctx.complex(w.imag, w.real))"))
M("C03-square-real-odd", "C03", "R3.2", (AL, "    return ctx(x * x)", "    return ctx(x * abs(x))"))
N("C03-neutral-commute", "C03", (AL, "    real = ctx.select(signed_x < 0, -w.imag, w.imag)\n    imag = ctx.atan2(signed_y, w.real)", "    real = ctx.select(0 > signed_x, -w.imag, w.imag)\n    imag = ctx.atan2(signed_y, w.real)"))
N("C03-neutral-select-flip", "C03", (AL, "    imag = ctx.select(signed_y < 0, w.imag, -w.imag)", "    imag = ctx.select(signed_y >= 0, -w.imag, w.imag)"))
