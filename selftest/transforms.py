"""Whole-tree behaviour-preserving transformations used as neutral cases for every property.

reformat       every package module is replaced by ast.unparse(ast.parse(source)): comments, blank lines, quoting,
               redundant parentheses and line positions all change, the program does not.
rename_locals  every local variable of every function that is not a parameter, global/nonlocal, imported name, name of a
               nested def/class, exception variable or shared with a nested scope is renamed (suffix `_rn`).
"""

import ast
import pathlib
import symtable


def _modules(root):
    for p in pathlib.Path(root, "functional_algorithms").rglob("*.py"):
        if "tests" in p.parts:
            continue
        yield p


def reformat(root):
    n = 0
    for p in _modules(root):
        try:
            t = ast.parse(p.read_text())
        except SyntaxError:
            continue
        p.write_text(ast.unparse(t) + "\n")
        n += 1
    return n


def rename_locals(root, suffix="_rn"):
    total = 0
    for path in _modules(root):
        src = path.read_text()
        try:
            tree = ast.parse(src)
            st = symtable.symtable(src, str(path), "exec")
        except SyntaxError:
            continue
        tables = {}

        def walk(t):
            for c in t.get_children():
                tables[(c.get_name(), c.get_lineno(), c.get_type())] = c
                walk(c)

        walk(st)
        count = [0]

        class R(ast.NodeTransformer):
            def __init__(self):
                self.stack = []

            def visit_FunctionDef(self, node):
                t = tables.get((node.name, node.lineno, "function"))
                ren = {}
                if t is not None:
                    childnames = set()

                    def cw(tt):
                        for c in tt.get_children():
                            for s in c.get_symbols():
                                childnames.add(s.get_name())
                            cw(c)

                    cw(t)
                    for s in t.get_symbols():
                        n = s.get_name()
                        if (s.is_local() and s.is_assigned() and not s.is_parameter() and not s.is_global() and not s.is_nonlocal()
                                and not s.is_imported() and n not in childnames and not n.startswith("_")):
                            ren[n] = n + suffix
                    for x in ast.walk(node):
                        if isinstance(x, (ast.FunctionDef, ast.ClassDef)) and x is not node:
                            ren.pop(x.name, None)
                        if isinstance(x, (ast.Global, ast.Nonlocal)):
                            for nm in x.names:
                                ren.pop(nm, None)
                        if isinstance(x, ast.ExceptHandler) and x.name:
                            ren.pop(x.name, None)
                self.stack.append(ren)
                node.body = [self.visit(b) for b in node.body]
                self.stack.pop()
                return node

            def visit_Lambda(self, node):
                self.stack.append({})
                node = self.generic_visit(node)
                self.stack.pop()
                return node

            def visit_ClassDef(self, node):
                self.stack.append({})
                node = self.generic_visit(node)
                self.stack.pop()
                return node

            def visit_Name(self, node):
                if self.stack and node.id in self.stack[-1]:
                    count[0] += 1
                    return ast.copy_location(ast.Name(id=self.stack[-1][node.id], ctx=node.ctx), node)
                return node

        new = R().visit(tree)
        path.write_text(ast.unparse(new) + "\n")
        total += count[0]
    return total


TRANSFORMS = {"reformat": reformat, "rename_locals": rename_locals}
