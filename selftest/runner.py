"""Both-ways self-test of the checkers.

A *mutant* is a small edit of the repository source (exact text replacement, located on the
pinned tree) that breaks one rule instance while the package still byte-compiles; the
responsible check must exit 1 and name the expected rule.  A *neutral* edit preserves
behaviour (reformatting, renaming, commuting, an extra table row ...); the check must stay
silent (exit 0).  Edits that no longer apply to the current tree are skipped and counted.
Scratch copies live under a temporary directory outside /repo and /verif and are removed at once.
"""

import concurrent.futures as cf
import os
import re
import shutil
import subprocess
import sys
import tempfile

VERIF = os.path.dirname(os.path.dirname(os.path.abspath(__file__)))


def _copy_repo(dst):
    src = "/repo/functional_algorithms"
    def ignore(d, names):
        return [n for n in names if n in ("__pycache__",) or n.endswith(".pyc")]
    shutil.copytree(src, os.path.join(dst, "functional_algorithms"), ignore=ignore)


def apply_edit(root, case):
    """Apply case['edits'] = [(relpath, old, new)] ; return False if any does not apply exactly once."""
    if case.get("transform"):
        from .transforms import TRANSFORMS

        return TRANSFORMS[case["transform"]](root) > 0
    for rel, old, new in case["edits"]:
        p = os.path.join(root, "functional_algorithms", rel)
        try:
            s = open(p).read()
        except OSError:
            return False
        if s.count(old) != 1:
            return False
        s = s.replace(old, new)
        try:
            compile(s, p, "exec")
        except SyntaxError:
            return False
        open(p, "w").write(s)
    return True


def run_case(case):
    tmp = tempfile.mkdtemp(prefix="fa-selftest-")
    try:
        _copy_repo(tmp)
        if not apply_edit(tmp, case):
            return dict(id=case["id"], status="skipped")
        env = dict(os.environ)
        if case.get("_child_jobs"):
            # the checks of C01/C02 are process pools themselves: share the cores between the concurrent cases
            env["VERIF_JOBS"] = str(case["_child_jobs"])
        p = subprocess.run(
            [os.path.join(VERIF, "check"), case["prop"], "--tier", "quick", "--repo", tmp],
            stdout=subprocess.PIPE, stderr=subprocess.STDOUT, text=True, cwd=VERIF, timeout=3600, env=env,
        )
        rules = set(re.findall(r"VIOLATED (R[\d.]+)", p.stdout))
        return dict(id=case["id"], status="ran", rc=p.returncode, rules=sorted(rules), tail=p.stdout[-600:])
    finally:
        shutil.rmtree(tmp, ignore_errors=True)


def run_for_property(prop, jobs=16, verbose=True):
    from . import mutants

    cases = [c for c in mutants.CASES if c["prop"] == prop]
    if os.environ.get("VERIF_SELFTEST_NO_TRANSFORMS") != "1":
        cases += [dict(id=f"{prop}-neutral-{t}", prop=prop, kind="neutral", expect=None, edits=[], transform=t) for t in ("reformat", "rename_locals")]
    out = dict(mutants_total=0, mutants_killed=0, mutants_survived=0, mutants_skipped=0,
               neutral_edits_total=0, neutral_edits_silent=0, neutral_edits_alarmed=0, selftest_failures=[])
    if not cases:
        return out
    workers = max(1, min(jobs, len(cases)))
    ncpu = os.cpu_count() or 1
    for c in cases:
        c["_child_jobs"] = max(1, -(-ncpu // workers))
    with cf.ThreadPoolExecutor(max_workers=workers) as ex:
        results = list(ex.map(run_case, cases))
    for c, res in zip(cases, results):
        kind = c.get("kind", "mutant")
        if res["status"] == "skipped":
            out["mutants_skipped"] += 1
            continue
        if kind == "mutant":
            out["mutants_total"] += 1
            killed = res["rc"] == 1 and (c.get("expect") is None or c["expect"] in res["rules"])
            if killed:
                out["mutants_killed"] += 1
            else:
                out["mutants_survived"] += 1
                out["selftest_failures"].append(dict(id=c["id"], rc=res["rc"], rules=res["rules"], expected=c.get("expect")))
                if verbose:
                    print(f"   SELFTEST: mutant {c['id']} not killed as expected (rc={res['rc']}, rules={res['rules']}, expected {c.get('expect')})")
        else:
            out["neutral_edits_total"] += 1
            if res["rc"] == 0:
                out["neutral_edits_silent"] += 1
            else:
                out["neutral_edits_alarmed"] += 1
                out["selftest_failures"].append(dict(id=c["id"], rc=res["rc"], rules=res["rules"], expected="silent"))
                if verbose:
                    print(f"   SELFTEST: neutral edit {c['id']} raised rc={res['rc']} rules={res['rules']}\n{res['tail']}")
    if verbose:
        print(f"   selftest {prop}: mutants killed {out['mutants_killed']}/{out['mutants_total']}, neutral silent "
              f"{out['neutral_edits_silent']}/{out['neutral_edits_total']}, skipped {out['mutants_skipped']}")
    return out


if __name__ == "__main__":
    sys.path.insert(0, VERIF)
    from selftest import mutants  # noqa

    props = sys.argv[1:] or sorted({c["prop"] for c in mutants.CASES})
    bad = 0
    for p in props:
        t = run_for_property(p)
        bad += t["mutants_survived"] + t["neutral_edits_alarmed"]
    sys.exit(1 if bad else 0)
