"""CLI: ./check <Cxx> [--tier quick|thorough] [--repo DIR] [--replay FILE] [--no-selftest]"""

import argparse
import importlib
import json
import os
import sys

from .core import AnalysisError, Repo, run_guarded


def main():
    ap = argparse.ArgumentParser()
    ap.add_argument("prop")
    ap.add_argument("--tier", default=os.environ.get("VERIF_TIER", "quick"), choices=["quick", "thorough"])
    ap.add_argument("--repo", default="/repo")
    ap.add_argument("--replay", default=None, help="print a recorded violation file and re-run the check")
    ap.add_argument("--no-selftest", action="store_true")
    a = ap.parse_args()
    if a.replay:
        try:
            print(json.dumps(json.load(open(a.replay)), indent=1))
        except Exception as e:  # noqa
            print(f"(cannot read replay file: {e})")
    try:
        mod = importlib.import_module(f"rules.{a.prop}")
    except ModuleNotFoundError as e:
        if e.name == f"rules.{a.prop}":
            print(f"ANALYSIS-ERROR: no check for property {a.prop}")
            sys.exit(2)
        raise

    def go():
        repo = Repo(a.repo)
        report = mod.run(repo, a.tier)
        weak = 0
        if a.tier == "thorough" and not a.no_selftest and a.repo == "/repo":
            from selftest import runner

            tallies = runner.run_for_property(a.prop)
            report.extra.update(tallies)
            weak = tallies.get("mutants_survived", 0) + tallies.get("neutral_edits_alarmed", 0)
        rc, _, _ = report.finish()
        if rc == 0 and weak and os.environ.get("VERIF_SELFTEST_STRICT"):
            print(f"ANALYSIS-ERROR: self-test of the checker failed ({weak} cases)")
            return 2
        return rc

    run_guarded(go)


if __name__ == "__main__":
    main()
