"""Template parsers: turn a target's format template into a term, without executing it.

Term grammar (tuples):
  ('arg', i)                       positional field {i}
  ('named', name)                  named field {name}
  ('num', text) / ('str', text)
  ('name', dotted)                 identifier, possibly qualified (math.pi, std::abs, M_PI)
  ('tname', dotted, [terms])       templated name std::complex<T>
  ('call', callee_term, [args])
  ('op', symbol, [args])           unary/binary/ternary operators ('?:' and python 'ifexp' share ('op','select',[c,a,b]))
  ('attr', base, name)             base.name
  ('index', base, idx)
"""

from __future__ import annotations

import ast
import re
import string

from .core import AnalysisError


class TemplateError(Exception):
    """The template text itself is malformed for its target language (a finding, not an analysis failure)."""


# --------------------------------------------------------------------------- fields


def fields(template):
    """Return (positional:set[int], named:set[str], literal_text_pieces) the way str.format sees them."""
    pos, named = set(), set()
    try:
        parsed = list(string.Formatter().parse(template))
    except ValueError as e:
        raise TemplateError(f"str.format cannot parse the template: {e}")
    for lit, field, spec, conv in parsed:
        if field is None:
            continue
        if spec or conv:
            raise TemplateError(f"field {{{field}}} uses a format spec/conversion")
        head = re.split(r"[.\[]", field, 1)[0]
        if head == "":
            raise TemplateError("auto-numbered field {} in template")
        if head.isdigit():
            if head != field:
                raise TemplateError(f"field {{{field}}} indexes into an operand string")
            pos.add(int(head))
        else:
            named.add(field)
    return pos, named


def substitute(template, argfmt="__a{}__", namedfmt="__n_{}__"):
    """Render the template as str.format would, with recognisable identifiers for the fields."""
    out = []
    for lit, field, spec, conv in string.Formatter().parse(template):
        out.append(lit)
        if field is None:
            continue
        out.append(argfmt.format(field) if field.isdigit() else namedfmt.format(field))
    return "".join(out)


_ARG = re.compile(r"^__a(\d+)__$")
_NAMED = re.compile(r"^__n_(\w+)__$")


def _ident(name):
    m = _ARG.match(name)
    if m:
        return ("arg", int(m.group(1)))
    m = _NAMED.match(name)
    if m:
        return ("named", m.group(1))
    return ("name", name)


# --------------------------------------------------------------------------- python templates

_PY_BIN = {
    ast.Add: "+", ast.Sub: "-", ast.Mult: "*", ast.Div: "/", ast.Mod: "%", ast.FloorDiv: "//", ast.Pow: "**",
    ast.BitAnd: "&", ast.BitOr: "|", ast.BitXor: "^", ast.LShift: "<<", ast.RShift: ">>", ast.MatMult: "@",
}
_PY_UN = {ast.USub: "neg", ast.UAdd: "pos", ast.Not: "not", ast.Invert: "~"}
_PY_CMP = {ast.Lt: "<", ast.LtE: "<=", ast.Gt: ">", ast.GtE: ">=", ast.Eq: "==", ast.NotEq: "!=", ast.Is: "is", ast.IsNot: "is not"}


def parse_python(template):
    text = substitute(template)
    try:
        tree = ast.parse(text.strip(), mode="eval")
    except SyntaxError as e:
        raise TemplateError(f"emitted Python `{text}` does not parse: {e.msg}")
    return _py(tree.body)


def _py(n):
    if isinstance(n, ast.Name):
        return _ident(n.id)
    if isinstance(n, ast.Constant):
        if isinstance(n.value, str):
            return ("str", n.value)
        return ("num", repr(n.value))
    if isinstance(n, ast.Attribute):
        base = _py(n.value)
        if base[0] == "name":
            return ("name", base[1] + "." + n.attr)
        return ("attr", base, n.attr)
    if isinstance(n, ast.Call):
        if n.keywords:
            raise AnalysisError("keyword arguments in template call not modelled")
        return ("call", _py(n.func), [_py(a) for a in n.args])
    if isinstance(n, ast.BinOp) and type(n.op) in _PY_BIN:
        return ("op", _PY_BIN[type(n.op)], [_py(n.left), _py(n.right)])
    if isinstance(n, ast.UnaryOp) and type(n.op) in _PY_UN:
        return ("op", _PY_UN[type(n.op)], [_py(n.operand)])
    if isinstance(n, ast.BoolOp):
        sym = "and" if isinstance(n.op, ast.And) else "or"
        t = _py(n.values[0])
        for v in n.values[1:]:
            t = ("op", sym, [t, _py(v)])
        return t
    if isinstance(n, ast.Compare):
        if len(n.ops) != 1:
            raise AnalysisError("chained comparison in template not modelled")
        return ("op", _PY_CMP[type(n.ops[0])], [_py(n.left), _py(n.comparators[0])])
    if isinstance(n, ast.IfExp):
        return ("op", "select", [_py(n.test), _py(n.body), _py(n.orelse)])
    if isinstance(n, ast.Subscript):
        return ("index", _py(n.value), _py(n.slice))
    if isinstance(n, ast.List):
        return ("list", [_py(e) for e in n.elts])
    if isinstance(n, ast.Tuple):
        return ("tuple", [_py(e) for e in n.elts])
    raise AnalysisError(f"python template construct {type(n).__name__} not modelled")


# --------------------------------------------------------------------------- C-like templates

_TOK = re.compile(
    r"""\s*(?:
      (?P<num>(?:\d+\.\d*|\.\d+|\d+)(?:[eE][+-]?\d+)?[fFlLuU]*)
    | (?P<id>[A-Za-z_]\w*(?:::[A-Za-z_]\w*)*)
    | (?P<str>"(?:[^"\\]|\\.)*")
    | (?P<op>\|\||&&|==|!=|<=|>=|<<|>>|->|::|[-+*/%<>=!~&|^?:,.()\[\]{}])
    )""",
    re.X,
)

TEMPLATE_NAMES = {"std::complex", "std::numeric_limits", "static_cast", "std::numeric_limits", "reinterpret_cast", "const_cast"}

_C_BIN_PREC = [
    ("||",), ("&&",), ("|",), ("^",), ("&",), ("==", "!="), ("<", "<=", ">", ">="), ("<<", ">>"), ("+", "-"), ("*", "/", "%"),
]


class _CParser:
    def __init__(self, text):
        self.text = text
        self.toks = []
        i = 0
        text = text.strip()
        while i < len(text):
            m = _TOK.match(text, i)
            if not m or m.end() == i:
                raise TemplateError(f"emitted C++ `{text}`: cannot tokenise at `{text[i:i+10]}`")
            kind = m.lastgroup
            self.toks.append((kind, m.group(kind)))
            i = m.end()
            while i < len(text) and text[i].isspace():
                i += 1
        self.i = 0

    def peek(self):
        return self.toks[self.i] if self.i < len(self.toks) else (None, None)

    def eat(self, val=None):
        k, v = self.peek()
        if k is None or (val is not None and v != val):
            raise TemplateError(f"emitted C++ `{self.text}`: expected `{val}` but found `{v}`")
        self.i += 1
        return k, v

    def parse(self):
        t = self.ternary()
        if self.i != len(self.toks):
            raise TemplateError(f"emitted C++ `{self.text}`: trailing tokens from `{self.peek()[1]}`")
        return t

    def ternary(self):
        c = self.binary(0)
        if self.peek()[1] == "?":
            self.eat("?")
            a = self.ternary()
            self.eat(":")
            b = self.ternary()
            return ("op", "select", [c, a, b])
        return c

    def binary(self, level):
        if level == len(_C_BIN_PREC):
            return self.unary()
        left = self.binary(level + 1)
        while self.peek()[0] == "op" and self.peek()[1] in _C_BIN_PREC[level]:
            op = self.eat()[1]
            right = self.binary(level + 1)
            left = ("op", op, [left, right])
        return left

    def unary(self):
        k, v = self.peek()
        if k == "op" and v in ("-", "+", "!", "~"):
            self.eat()
            sym = {"-": "neg", "+": "pos", "!": "not", "~": "~"}[v]
            return ("op", sym, [self.unary()])
        return self.postfix()

    def type_args(self):
        # after '<' : parse comma separated type terms up to matching '>'
        args = []
        while True:
            args.append(self.type_term())
            if self.peek()[1] == ",":
                self.eat(",")
                continue
            break
        self.eat(">")
        return args

    def type_term(self):
        k, v = self.eat()
        if k != "id":
            raise TemplateError(f"emitted C++ `{self.text}`: type expected, found `{v}`")
        t = _ident(v)
        if self.peek()[1] == "<":
            self.eat("<")
            t = ("tname", v, self.type_args())
        return t

    def primary(self):
        k, v = self.peek()
        if k == "num":
            self.eat()
            return ("num", v)
        if k == "str":
            self.eat()
            return ("str", v[1:-1])
        if k == "id":
            self.eat()
            t = _ident(v)
            if t[0] == "name" and v in TEMPLATE_NAMES and self.peek()[1] == "<":
                self.eat("<")
                t = ("tname", v, self.type_args())
                # qualified member after template args: std::numeric_limits<T>::max
                while self.peek()[1] == "::":
                    self.eat("::")
                    k2, v2 = self.eat()
                    if k2 != "id":
                        raise TemplateError(f"emitted C++ `{self.text}`: identifier expected after ::")
                    t = ("attr", t, v2)
            return t
        if v == "(":
            self.eat("(")
            t = self.ternary()
            self.eat(")")
            return t
        raise TemplateError(f"emitted C++ `{self.text}`: unexpected `{v}`")

    def postfix(self):
        t = self.primary()
        while True:
            k, v = self.peek()
            if v == "(":
                self.eat("(")
                args = []
                if self.peek()[1] != ")":
                    while True:
                        args.append(self.ternary())
                        if self.peek()[1] == ",":
                            self.eat(",")
                            continue
                        break
                self.eat(")")
                t = ("call", t, args)
            elif v == ".":
                self.eat(".")
                k2, v2 = self.eat()
                if k2 != "id":
                    raise TemplateError(f"emitted C++ `{self.text}`: member name expected")
                t = ("attr", t, v2)
            elif v == "[":
                self.eat("[")
                idx = self.ternary()
                self.eat("]")
                t = ("index", t, idx)
            else:
                return t


def parse_clike(template):
    return _CParser(substitute(template)).parse()


# --------------------------------------------------------------------------- utilities over terms


def walk(t):
    yield t
    if not isinstance(t, tuple):
        return
    for x in t[1:]:
        if isinstance(x, tuple):
            yield from walk(x)
        elif isinstance(x, list):
            for y in x:
                yield from walk(y)


def names_in(t):
    return [x[1] for x in walk(t) if isinstance(x, tuple) and x and x[0] in ("name", "tname")]


def show(t):
    if not isinstance(t, tuple):
        return str(t)
    k = t[0]
    if k == "arg":
        return f"${t[1]}"
    if k == "named":
        return "{" + t[1] + "}"
    if k in ("num", "name"):
        return str(t[1])
    if k == "str":
        return repr(t[1])
    if k == "tname":
        return f"{t[1]}<{', '.join(show(a) for a in t[2])}>"
    if k == "call":
        return f"{show(t[1])}({', '.join(show(a) for a in t[2])})"
    if k == "op":
        return f"({t[1]} {' '.join(show(a) for a in t[2])})"
    if k == "attr":
        return f"{show(t[1])}.{t[2]}"
    if k == "index":
        return f"{show(t[1])}[{show(t[2])}]"
    if k in ("list", "tuple"):
        return "[" + ", ".join(show(a) for a in t[1]) + "]"
    return str(t)
