"""Abstract interpreter for the repository's rule code (Rewriter methods, Expr._is_* properties, Context constructors).

It executes the *AST* of those functions over abstract values: expressions are hash-consed
`AExpr(kind, operands)` objects, contexts and types are small stand-ins, everything else is a
plain Python value.  No module of the repository is imported or run; names are resolved by
reading the module ASTs (`from .utils import number_types` etc.).  Anything outside the
supported subset raises `Unsupported`, which callers count and report (never a violation).
"""

from __future__ import annotations

import ast
import math

from .core import AnalysisError, norm_src
from .paths import dotted


class Unsupported(Exception):
    pass


class _Return(Exception):
    def __init__(self, v):
        self.v = v


class _Break(Exception):
    pass


class _Continue(Exception):
    pass


class PyRaise(Exception):
    """The interpreted code raised an exception (assert 0, raise ...)."""

    def __init__(self, what):
        self.what = what


class TypeSet:
    """Result of evaluating a type expression used in isinstance: a set of type names."""

    def __init__(self, names):
        self.names = frozenset(names)

    def __repr__(self):
        return f"TypeSet({sorted(self.names)})"


PY_TYPES = {
    "int": "int", "float": "float", "complex": "complex", "bool": "bool", "str": "str", "tuple": "tuple", "list": "list",
    "dict": "dict", "set": "set", "type": "type",
}
NUMPY_ABSTRACT = {"numpy.floating", "numpy.integer", "numpy.complexfloating", "numpy.number", "numpy.ndarray", "numpy.bool_"}


def pytypes_of(v):
    """Type names a concrete Python value is an instance of."""
    if isinstance(v, bool):
        return {"bool", "int"}
    if isinstance(v, int):
        return {"int"}
    if isinstance(v, float):
        return {"float"}
    if isinstance(v, complex):
        return {"complex"}
    if isinstance(v, str):
        return {"str"}
    if isinstance(v, tuple):
        return {"tuple"}
    if isinstance(v, list):
        return {"list"}
    if isinstance(v, dict):
        return {"dict"}
    if isinstance(v, (set, frozenset)):
        return {"set"}
    if isinstance(v, AExpr):
        return {"Expr"}
    if isinstance(v, AType):
        return {"Type"}
    if isinstance(v, NPVal):
        return {"numpy.complexfloating", "numpy.number"} if v.dtype.kind == "complex" else {"numpy.floating", "numpy.number"}
    if v is None:
        return {"NoneType"}
    return {type(v).__name__}


def rnd(v, bits):
    """Round a Python float/complex to the IEEE format with the given width (None/64: unchanged)."""
    import struct

    if isinstance(v, complex):
        return complex(rnd(v.real, bits and bits // 2), rnd(v.imag, bits and bits // 2))
    if isinstance(v, bool) or bits in (None, 64, 128) or not isinstance(v, float):
        return v
    if v != v or v in (math.inf, -math.inf):
        return v
    fmt = {32: "f", 16: "e"}.get(bits)
    if fmt is None:
        raise Unsupported(f"float{bits}")
    try:
        return struct.unpack(fmt, struct.pack(fmt, v))[0]
    except OverflowError:
        return math.copysign(math.inf, v)


class NPDtype:
    """Stand-in for a numpy scalar type (numpy.float32, numpy.complex128, ...)."""

    __absint_host__ = True

    def __init__(self, kind, bits):
        self.kind, self.bits = kind, bits
        self.__name__ = f"{kind}{bits}"

    def __call__(self, v=0.0):
        if isinstance(v, NPVal):
            v = v.value
        if isinstance(v, str):
            raise PyRaise("ValueError could not convert string to float")
        if self.kind == "complex":
            return NPVal(self, rnd(complex(v), self.bits))
        if isinstance(v, complex):
            raise PyRaise("TypeError float() argument must be a string or a real number, not 'complex'")
        return NPVal(self, rnd(float(v), self.bits))

    def __eq__(self, o):
        return isinstance(o, NPDtype) and (self.kind, self.bits) == (o.kind, o.bits)

    def __hash__(self):
        return hash((self.kind, self.bits))

    def __repr__(self):
        return f"numpy.{self.kind}{self.bits}"


def _np_result(a, b):
    da = a.dtype if isinstance(a, NPVal) else None
    db = b.dtype if isinstance(b, NPVal) else None
    if da is None:
        return db
    if db is None:
        return da
    if da.kind == db.kind:
        return da if da.bits >= db.bits else db
    c, f = (da, db) if da.kind == "complex" else (db, da)
    return NPDtype("complex", max(c.bits, 2 * f.bits))


class NPVal:
    """Stand-in for a numpy scalar: value rounded to its dtype after every operation."""

    __absint_host__ = True

    def __init__(self, dtype, value):
        self.dtype, self.value = dtype, value

    def _bin(self, o, f):
        ov = o.value if isinstance(o, NPVal) else o
        if isinstance(ov, (AExpr,)):
            return NotImplemented
        dt = _np_result(self, o)
        try:
            v = f(self.value, ov)
        except ZeroDivisionError:
            a, b = self.value, ov
            v = math.nan if a == 0 or a != a else math.copysign(math.inf, a) * (1 if str(b)[0] != "-" else -1)
        except OverflowError:
            v = math.inf
        return NPVal(dt, rnd(v, dt.bits) if not isinstance(v, bool) else v)

    def __add__(self, o):
        return self._bin(o, lambda a, b: a + b)

    __radd__ = __add__

    def __sub__(self, o):
        return self._bin(o, lambda a, b: a - b)

    def __rsub__(self, o):
        return self._bin(o, lambda a, b: b - a)

    def __mul__(self, o):
        return self._bin(o, lambda a, b: a * b)

    __rmul__ = __mul__

    def __truediv__(self, o):
        return self._bin(o, lambda a, b: a / b)

    def __rtruediv__(self, o):
        return self._bin(o, lambda a, b: b / a)

    def __neg__(self):
        return NPVal(self.dtype, -self.value)

    def __pos__(self):
        return self

    def __abs__(self):
        if self.dtype.kind == "complex":
            return NPVal(NPDtype("float", self.dtype.bits // 2), rnd(abs(self.value), self.dtype.bits // 2))
        return NPVal(self.dtype, abs(self.value))

    def _cmp(self, o, f):
        ov = o.value if isinstance(o, NPVal) else o
        if isinstance(ov, AExpr):
            return NotImplemented
        return f(self.value, ov)

    def __lt__(self, o):
        return self._cmp(o, lambda a, b: a < b)

    def __le__(self, o):
        return self._cmp(o, lambda a, b: a <= b)

    def __gt__(self, o):
        return self._cmp(o, lambda a, b: a > b)

    def __ge__(self, o):
        return self._cmp(o, lambda a, b: a >= b)

    def __eq__(self, o):
        return self._cmp(o, lambda a, b: a == b)

    def __ne__(self, o):
        return self._cmp(o, lambda a, b: a != b)

    def __hash__(self):
        return hash((self.dtype, self.value))

    def __float__(self):
        return float(self.value)

    def __complex__(self):
        return complex(self.value)

    def __bool__(self):
        return bool(self.value)

    def conjugate(self):
        return NPVal(self.dtype, self.value.conjugate() if isinstance(self.value, complex) else self.value)

    @property
    def real(self):
        return NPVal(NPDtype("float", self.dtype.bits // 2), self.value.real) if self.dtype.kind == "complex" else self

    @property
    def imag(self):
        return NPVal(NPDtype("float", self.dtype.bits // 2), self.value.imag) if self.dtype.kind == "complex" else NPVal(self.dtype, 0.0)

    def __repr__(self):
        return f"{self.dtype!r}({self.value!r})"

    __str__ = lambda self: repr(self.value)  # noqa


class NPFinfo:
    __absint_host__ = True

    def __init__(self, dtype):
        import sys

        if isinstance(dtype, NPVal):
            dtype = dtype.dtype
        b = dtype.bits // 2 if dtype.kind == "complex" else dtype.bits
        ft = NPDtype("float", b)
        p = {16: 11, 32: 24, 64: 53}[b]
        emax = {16: 15, 32: 127, 64: 1023}[b]
        emin = 1 - emax
        self.eps = NPVal(ft, 2.0 ** (1 - p))
        self.max = NPVal(ft, (2.0 - 2.0 ** (1 - p)) * 2.0 ** emax)
        self.smallest_normal = NPVal(ft, 2.0 ** emin)
        self.tiny = self.smallest_normal
        self.smallest_subnormal = NPVal(ft, 2.0 ** (emin - p + 1))
        self.negep, self.machep, self.maxexp, self.minexp = -p, 1 - p, emax + 1, emin


def _np_unary(f):
    def g(v):
        if isinstance(v, NPVal):
            x = v.value
            try:
                y = f(x)
            except (ValueError, ZeroDivisionError):
                y = math.nan
            except OverflowError:
                y = math.inf
            return NPVal(v.dtype, rnd(y, v.dtype.bits))
        return f(v)
    return g


DEFAULT_EXT_CALLS = {
    "numpy.finfo": NPFinfo,
    "numpy.sqrt": _np_unary(lambda x: math.sqrt(x) if not isinstance(x, complex) else _unsup("complex sqrt")),
    "numpy.square": _np_unary(lambda x: x * x),
    "numpy.isfinite": lambda v: math.isfinite(v.value if isinstance(v, NPVal) else v),
    "numpy.isnan": lambda v: (v.value if isinstance(v, NPVal) else v) != (v.value if isinstance(v, NPVal) else v),
    "numpy.isposinf": lambda v: (v.value if isinstance(v, NPVal) else v) == math.inf,
    "numpy.isneginf": lambda v: (v.value if isinstance(v, NPVal) else v) == -math.inf,
    "numpy.signbit": lambda v: math.copysign(1.0, float(v.value if isinstance(v, NPVal) else v)) < 0,
}


def _unsup(what):
    raise Unsupported(what)


class AType:
    def __init__(self, kind, bits=None):
        self.kind = kind
        self.bits = bits
        self.param = bits

    def __repr__(self):
        return f"{self.kind}{self.bits or ''}"

    def __eq__(self, o):
        return isinstance(o, AType) and (self.kind, self.bits) == (o.kind, o.bits)

    def __hash__(self):
        return hash((self.kind, self.bits))


class AExpr:
    __slots__ = ("kind", "operands", "context", "props", "_key", "facts")

    def __repr__(self):
        return show_expr(self)


def show_expr(e):
    if not isinstance(e, AExpr):
        return repr(e)
    if e.kind == "symbol":
        return str(e.operands[0])
    if e.kind == "constant":
        return f"{e.operands[0]!r}" if not isinstance(e.operands[0], AExpr) else f"const({show_expr(e.operands[0])})"
    return f"{e.kind}({', '.join(show_expr(o) for o in e.operands)})"


BINOPS = {
    ast.Add: "add", ast.Sub: "subtract", ast.Mult: "multiply", ast.Div: "divide", ast.FloorDiv: "floor_divide", ast.Mod: "remainder",
    ast.Pow: "pow",
}
CMPOPS = {ast.Lt: "lt", ast.LtE: "le", ast.Gt: "gt", ast.GtE: "ge", ast.Eq: "eq", ast.NotEq: "ne"}


class ACtx:
    """Abstract Context: hash-conses AExpr; constructor methods are resolved from context.py."""

    def __init__(self, interp):
        self.interp = interp
        self.table = {}
        self.parameters = {}
        self.counter = 0
        self.alt = None
        self.default_like = None

    def make(self, kind, operands):
        ops = []
        first_expr = next((o for o in operands if isinstance(o, AExpr)), None)
        for i, o in enumerate(operands):
            if kind not in ("symbol", "constant") and isinstance(o, (int, float, complex, str)) and not isinstance(o, AExpr):
                if first_expr is None:
                    raise Unsupported("operation on plain numbers without a like operand")
                o = self.make("constant", (o, normalize_like(first_expr)))
            ops.append(o)
        key = (kind,) + tuple((("E", id(o)) if isinstance(o, AExpr) else ("V", type(o).__name__, repr(o))) for o in ops)
        e = self.table.get(key)
        if e is None:
            e = AExpr()
            e.kind, e.operands, e.context, e.props = kind, tuple(ops), self, {}
            e.facts = None
            self.counter += 1
            e._key = (("z_" + kind) if kind == "constant" else kind, self.counter)
            self.table[key] = e
        return e

    def symbol(self, name, typ="float"):
        if isinstance(typ, str):
            typ = AType(typ.rstrip("0123456789"), int(typ[len(typ.rstrip("0123456789")):]) if typ[len(typ.rstrip("0123456789")):] else None)
        return self.make("symbol", (name, typ))

    def constant(self, value, like=None):
        if like is None:
            if isinstance(value, bool):
                like = self.symbol("_boolean_value", AType("boolean"))
            elif isinstance(value, int):
                like = self.symbol("_integer_value", AType("integer"))
            elif isinstance(value, float):
                like = self.symbol("_float_value", AType("float"))
            else:
                raise Unsupported("constant without like")
        if isinstance(like, (str, AType)):
            t = like if isinstance(like, AType) else AType(like)
            like = self.symbol(f"_{t.kind}_value", t)
        if isinstance(value, str):
            value = {"+inf": "posinf", "inf": "posinf", "pinf": "posinf", "-inf": "neginf", "ninf": "neginf"}.get(value, value)
        return self.make("constant", (value, normalize_like(like)))


def normalize_like(e):
    while True:
        if e.kind in ("constant", "select"):
            e = e.operands[1]
        elif e.kind in ("negative", "positive", "add", "subtract", "multiply", "divide", "maximum", "minimum", "sqrt", "square", "exp", "log", "log1p", "sin", "cos", "hypot", "atan2"):
            e = e.operands[0]
        elif e.kind == "absolute" and not expr_is_complex(e.operands[0]):
            e = e.operands[0]
        else:
            return e


def expr_type(e):
    k = e.kind
    if k == "symbol":
        return e.operands[1]
    if k == "constant":
        return expr_type(e.operands[1])
    if k in ("lt", "le", "gt", "ge", "eq", "ne", "logical_and", "logical_or", "logical_xor", "logical_not", "is_finite"):
        return AType("boolean")
    if k == "select":
        return expr_type(e.operands[1])
    if k == "upcast":
        t = expr_type(e.operands[0])
        return AType(t.kind, t.bits * 2 if t.bits else None)
    if k == "downcast":
        t = expr_type(e.operands[0])
        return AType(t.kind, t.bits // 2 if t.bits else None)
    if k in ("absolute", "real", "imag"):
        t = expr_type(e.operands[0])
        return AType("float", t.bits // 2 if t.bits else None) if t.kind == "complex" else t
    if k == "complex":
        t = expr_type(e.operands[0])
        return AType("complex", t.bits * 2 if t.bits else None)
    if e.operands and isinstance(e.operands[0], AExpr):
        return expr_type(e.operands[0])
    raise Unsupported(f"type of {k}")


def expr_is_complex(e):
    try:
        return expr_type(e).kind == "complex"
    except Unsupported:
        return False


class ClassRef:
    def __init__(self, rel, node):
        self.rel, self.node = rel, node

    def __repr__(self):
        return f"<class {self.node.name}>"


class ModRef:
    def __init__(self, kind, name):
        self.kind, self.name = kind, name  # kind: 'module' (package file) | 'ext'

    def __repr__(self):
        return f"<{self.kind} {self.name}>"

    def __eq__(self, o):
        if not isinstance(o, ModRef):
            return NotImplemented
        return (self.kind, self.name) == (o.kind, o.name)

    def __hash__(self):
        return hash((self.kind, self.name))


class Closure:
    def __init__(self, node, env, interp, rel, bound_self=None, cls=None):
        self.node, self.env, self.interp, self.rel, self.bound_self, self.cls = node, env, interp, rel, bound_self, cls

    def __repr__(self):
        return f"<closure {getattr(self.node, 'name', 'lambda')}>"


class AObj:
    """Instance of a class of the repository (e.g. Rewriter)."""

    def __init__(self, rel, cls):
        self.rel, self.cls = rel, cls
        self.attrs = {}


class Interp:
    def __init__(self, repo, max_steps=2_000_000):
        self.repo = repo
        self.globals_cache = {}
        self.steps = 0
        self.max_steps = max_steps
        self.ctx = ACtx(self)
        self.oracle_facts = None  # optional callable(expr, propname) -> value/NotImplemented for R4.7
        self.coverage = None  # set() of (rel, lineno, branch taken) when enabled
        self.native_types = True  # False: interpret Expr.get_type / typesystem.Type methods from source

    # ------------------------------------------------------------------ module globals
    def module_global(self, rel, name):
        key = (rel, name)
        if key in self.globals_cache:
            return self.globals_cache[key]
        tree = self.repo.tree(rel)
        val = _MISSING
        for st in tree.body:
            if isinstance(st, (ast.FunctionDef, ast.ClassDef)) and st.name == name:
                val = Closure(st, {}, self, rel) if isinstance(st, ast.FunctionDef) else ClassRef(rel, st)
            elif isinstance(st, ast.Assign):
                for t in st.targets:
                    if isinstance(t, ast.Name) and t.id == name:
                        val = self.eval(st.value, {}, rel)
            elif isinstance(st, ast.ImportFrom):
                for a in st.names:
                    if (a.asname or a.name) == name:
                        mod = (st.module or "")
                        if st.level >= 1:
                            target = (mod.replace(".", "/") + ".py") if mod else None
                            if target and self.repo.exists(target):
                                val = self.module_global(target, a.name)
                            elif not mod and self.repo.exists(a.name + ".py"):
                                val = ModRef("module", a.name + ".py")
                        else:
                            val = ModRef("ext", f"{mod}.{a.name}")
            elif isinstance(st, ast.Import):
                for a in st.names:
                    if (a.asname or a.name) == name:
                        val = ModRef("ext", a.name)
            elif isinstance(st, ast.For):
                # module-level loops that extend tables (rewrite.py mirror loop) are replayed by the caller
                pass
        if val is _MISSING:
            raise Unsupported(f"global `{name}` of {rel} not resolvable")
        self.globals_cache[key] = val
        return val

    # ------------------------------------------------------------------ calls
    def call(self, fn, args, kwargs=None):
        kwargs = kwargs or {}
        self.steps += 1
        if self.steps > self.max_steps:
            raise Unsupported("step limit")
        if isinstance(fn, Closure):
            node = fn.node
            env = dict(fn.env)
            if isinstance(node, ast.Lambda):
                params = [a.arg for a in node.args.args]
                for p, a in zip(params, args):
                    env[p] = a
                return self.eval(node.body, env, fn.rel)
            params = [a.arg for a in node.args.args]
            allargs = ([fn.bound_self] if fn.bound_self is not None else []) + list(args)
            if len(allargs) > len(params) and node.args.vararg is None:
                raise Unsupported(f"too many arguments for {node.name}")
            for p, a in zip(params, allargs):
                env[p] = a
            if node.args.vararg is not None:
                env[node.args.vararg.arg] = tuple(allargs[len(params):])
            defaults = node.args.defaults
            for p, d in zip(params[len(params) - len(defaults):], defaults):
                if p not in env:
                    env[p] = self.eval(d, {}, fn.rel)
            for a, d in zip(node.args.kwonlyargs, node.args.kw_defaults):
                if a.arg not in kwargs and d is not None:
                    env[a.arg] = self.eval(d, {}, fn.rel)
            for k, v in kwargs.items():
                env[k] = v
            for p in params:
                if p not in env:
                    raise Unsupported(f"{node.name}: parameter {p} unbound")
            env["__class__"] = fn.cls
            try:
                self.exec_block(node.body, env, fn.rel)
            except _Return as r:
                return r.v
            return None
        if callable(fn):
            return fn(*args, **kwargs)
        raise Unsupported(f"call of {fn!r}")

    # ------------------------------------------------------------------ statements
    def exec_block(self, stmts, env, rel):
        for st in stmts:
            self.exec(st, env, rel)

    def exec(self, st, env, rel):
        self.steps += 1
        if self.steps > self.max_steps:
            raise Unsupported("step limit")
        if isinstance(st, ast.Return):
            raise _Return(self.eval(st.value, env, rel) if st.value is not None else None)
        if isinstance(st, ast.Expr):
            if not isinstance(st.value, ast.Constant):
                self.eval(st.value, env, rel)
            return
        if isinstance(st, ast.Assign):
            v = self.eval(st.value, env, rel)
            for t in st.targets:
                self.assign(t, v, env, rel)
            return
        if isinstance(st, ast.AugAssign):
            cur = self.eval(st.target, env, rel)
            v = self.eval(st.value, env, rel)
            self.assign(st.target, self.binop(type(st.op), cur, v), env, rel)
            return
        if isinstance(st, ast.If):
            t = self.truth(self.eval(st.test, env, rel))
            if self.coverage is not None:
                self.coverage.add((rel, st.lineno, t))
            if t:
                self.exec_block(st.body, env, rel)
            else:
                self.exec_block(st.orelse, env, rel)
            return
        if isinstance(st, ast.For):
            it = self.eval(st.iter, env, rel)
            broke = False
            for item in self.iterate(it):
                self.assign(st.target, item, env, rel)
                try:
                    self.exec_block(st.body, env, rel)
                except _Break:
                    broke = True
                    break
                except _Continue:
                    continue
            if not broke:
                self.exec_block(st.orelse, env, rel)
            return
        if isinstance(st, ast.While):
            n = 0
            while self.truth(self.eval(st.test, env, rel)):
                n += 1
                if n > 10000:
                    raise Unsupported("while loop does not terminate within 10000 iterations")
                try:
                    self.exec_block(st.body, env, rel)
                except _Break:
                    break
                except _Continue:
                    continue
            return
        if isinstance(st, ast.Try):
            try:
                try:
                    self.exec_block(st.body, env, rel)
                except PyRaise as pr:
                    for h in st.handlers:
                        names = []
                        if h.type is None:
                            names = ["*"]
                        elif isinstance(h.type, ast.Tuple):
                            names = [dotted(e) for e in h.type.elts]
                        else:
                            names = [dotted(h.type)]
                        exc = pr.what.split()[0] if pr.what else ""
                        if "*" in names or "Exception" in names or "BaseException" in names or exc in names or (exc == "assert" and "AssertionError" in names):
                            if h.name:
                                env[h.name] = pr.what
                            self.exec_block(h.body, env, rel)
                            break
                    else:
                        raise
                else:
                    self.exec_block(st.orelse, env, rel)
            finally:
                self.exec_block(st.finalbody, env, rel)
            return
        if isinstance(st, ast.Assert):
            v = self.eval(st.test, env, rel)
            if not self.truth(v):
                raise PyRaise(f"assert {norm_src(st.test)}")
            return
        if isinstance(st, ast.Raise):
            raise PyRaise(norm_src(st))
        if isinstance(st, ast.Pass):
            return
        if isinstance(st, ast.Break):
            raise _Break()
        if isinstance(st, ast.Continue):
            raise _Continue()
        if isinstance(st, (ast.FunctionDef,)):
            env[st.name] = Closure(st, env, self, rel)
            return
        if isinstance(st, (ast.Import, ast.ImportFrom)):
            for a in st.names:
                env[a.asname or a.name] = ModRef("ext", a.name)
            return
        raise Unsupported(f"statement {type(st).__name__} at {rel}:{st.lineno}")

    def assign(self, t, v, env, rel):
        if isinstance(t, ast.Name):
            env[t.id] = v
        elif isinstance(t, (ast.Tuple, ast.List)):
            vals = list(self.iterate(v))
            if len(vals) != len(t.elts):
                raise PyRaise("unpack length mismatch")
            for tt, vv in zip(t.elts, vals):
                self.assign(tt, vv, env, rel)
        elif isinstance(t, ast.Attribute):
            obj = self.eval(t.value, env, rel)
            if isinstance(obj, AObj):
                obj.attrs[t.attr] = v
            else:
                raise Unsupported(f"attribute store on {type(obj).__name__}")
        elif isinstance(t, ast.Subscript):
            obj = self.eval(t.value, env, rel)
            idx = self.eval(t.slice, env, rel)
            if isinstance(obj, (dict, list)):
                obj[idx] = v
            else:
                raise Unsupported("subscript store")
        else:
            raise Unsupported(f"assignment target {type(t).__name__}")

    def iterate(self, v):
        if isinstance(v, (list, tuple, range, set, frozenset)):
            return list(v)
        if isinstance(v, dict):
            return list(v.keys())
        if isinstance(v, str):
            return list(v)
        raise Unsupported(f"iteration over {type(v).__name__}")

    def truth(self, v):
        if isinstance(v, AExpr):
            raise PyRaise("truth value of an Expr is undefined")
        if isinstance(v, (AObj, Closure, AType, ACtx)):
            return True
        return bool(v)

    # ------------------------------------------------------------------ expressions
    def eval(self, n, env, rel):
        self.steps += 1
        if self.steps > self.max_steps:
            raise Unsupported("step limit")
        m = getattr(self, "e_" + type(n).__name__, None)
        if m is None:
            raise Unsupported(f"expression {type(n).__name__} at {rel}:{getattr(n, 'lineno', '?')}")
        return m(n, env, rel)

    def e_Constant(self, n, env, rel):
        return n.value

    def e_Name(self, n, env, rel):
        if n.id in env:
            return env[n.id]
        if n.id in PY_TYPES and n.id != "type":
            return TypeSet({PY_TYPES[n.id]})
        builtin = {
            "True": True, "False": False, "None": None, "NotImplemented": NotImplemented, "len": len, "abs": self.b_abs, "min": min, "max": max,
            "isinstance": self.b_isinstance, "getattr": self.b_getattr, "hasattr": self.b_hasattr, "print": lambda *a, **k: None,
            "bool": self.b_bool, "int": int, "float": float, "str": str, "range": range, "zip": lambda *a: list(zip(*a)), "enumerate": lambda x: list(enumerate(x)),
            "sorted": sorted, "reversed": lambda x: list(reversed(x)), "list": list, "tuple": tuple, "set": set, "dict": dict, "any": any, "all": all,
            "callable": lambda x: isinstance(x, Closure) or callable(x), "type": self.b_type, "map": lambda f, xs: [self.call(f, [x]) for x in self.iterate(xs)],
            "complex": complex, "sum": self.b_sum,
        }
        if n.id in builtin:
            return builtin[n.id]
        return self.module_global(rel, n.id)

    def e_Tuple(self, n, env, rel):
        out = []
        for e in n.elts:
            if isinstance(e, ast.Starred):
                v = self.eval(e.value, env, rel)
                if isinstance(v, TypeSet):
                    out.append(v)
                else:
                    out.extend(self.iterate(v))
            else:
                out.append(self.eval(e, env, rel))
        if out and all(isinstance(x, (TypeSet, ClassRef)) for x in out):
            return TypeSet(set().union(*[(x.names if isinstance(x, TypeSet) else {x.node.name}) for x in out]))
        return tuple(out)

    def e_List(self, n, env, rel):
        return list(self.e_Tuple(n, env, rel)) if not n.elts or True else None

    def e_Set(self, n, env, rel):
        return set(self.eval(e, env, rel) for e in n.elts)

    def e_Dict(self, n, env, rel):
        d = {}
        for k, v in zip(n.keys, n.values):
            if k is None:
                d.update(self.eval(v, env, rel))
            else:
                d[self.eval(k, env, rel)] = self.eval(v, env, rel)
        return d

    def e_ListComp(self, n, env, rel):
        out = []
        self._comp(n.generators, 0, dict(env), rel, lambda e2: out.append(self.eval(n.elt, e2, rel)))
        return out

    e_GeneratorExp = e_ListComp

    def e_SetComp(self, n, env, rel):
        return set(self.e_ListComp(n, env, rel))

    def _comp(self, gens, i, env, rel, emit):
        if i == len(gens):
            emit(env)
            return
        g = gens[i]
        for item in self.iterate(self.eval(g.iter, env, rel)):
            self.assign(g.target, item, env, rel)
            if all(self.truth(self.eval(c, env, rel)) for c in g.ifs):
                self._comp(gens, i + 1, env, rel, emit)

    def e_JoinedStr(self, n, env, rel):
        out = []
        for v in n.values:
            if isinstance(v, ast.Constant):
                out.append(str(v.value))
            elif isinstance(v, ast.FormattedValue):
                x = self.eval(v.value, env, rel)
                out.append(show_expr(x) if isinstance(x, AExpr) else str(x))
        return "".join(out)

    def e_Lambda(self, n, env, rel):
        return Closure(n, env, self, rel)

    def e_IfExp(self, n, env, rel):
        return self.eval(n.body if self.truth(self.eval(n.test, env, rel)) else n.orelse, env, rel)

    def e_BoolOp(self, n, env, rel):
        v = None
        for x in n.values:
            v = self.eval(x, env, rel)
            t = self.truth(v)
            if isinstance(n.op, ast.And) and not t:
                return v
            if isinstance(n.op, ast.Or) and t:
                return v
        return v

    def e_UnaryOp(self, n, env, rel):
        v = self.eval(n.operand, env, rel)
        if isinstance(n.op, ast.Not):
            return not self.truth(v)
        if isinstance(v, AExpr):
            kind = {ast.USub: "negative", ast.UAdd: "positive", ast.Invert: "logical_not"}[type(n.op)]
            return v.context.make(kind, (v,))
        if isinstance(n.op, ast.USub):
            return -v
        if isinstance(n.op, ast.UAdd):
            return +v
        return ~v

    def binop(self, op, a, b):
        if isinstance(a, TypeSet) and isinstance(b, TypeSet) and op is ast.Add:
            return TypeSet(a.names | b.names)
        if isinstance(a, AExpr) or isinstance(b, AExpr):
            ctx = a.context if isinstance(a, AExpr) else b.context
            if op in BINOPS:
                return ctx.make(BINOPS[op], (a, b))
            if op is ast.BitAnd:
                return ctx.make("logical_and", (a, b))
            if op is ast.BitOr:
                return ctx.make("logical_or", (a, b))
            raise Unsupported(f"operator {op.__name__} on Expr")
        import operator as o
        table = {ast.Add: o.add, ast.Sub: o.sub, ast.Mult: o.mul, ast.Div: o.truediv, ast.FloorDiv: o.floordiv, ast.Mod: o.mod, ast.Pow: o.pow,
                 ast.LShift: o.lshift, ast.RShift: o.rshift, ast.BitAnd: o.and_, ast.BitOr: o.or_, ast.BitXor: o.xor}
        try:
            return table[op](a, b)
        except ZeroDivisionError:
            raise PyRaise("ZeroDivisionError")
        except TypeError as e:
            raise PyRaise(f"TypeError {e}")
        except OverflowError:
            raise PyRaise("OverflowError")

    def e_BinOp(self, n, env, rel):
        return self.binop(type(n.op), self.eval(n.left, env, rel), self.eval(n.right, env, rel))

    def e_Compare(self, n, env, rel):
        left = self.eval(n.left, env, rel)
        result = True
        for op, c in zip(n.ops, n.comparators):
            right = self.eval(c, env, rel)
            r = self.compare(op, left, right)
            if isinstance(r, AExpr):
                if len(n.ops) != 1:
                    raise Unsupported("chained comparison of Exprs")
                return r
            if getattr(type(r), "__absint_host__", False) and not isinstance(r, bool):
                # a host value standing for an undecided condition (symbolic comparison)
                if len(n.ops) != 1:
                    raise Unsupported("chained comparison of symbolic values")
                return r
            if not r:
                return False
            left = right
        return result

    def compare(self, op, a, b):
        if isinstance(op, ast.Is):
            return a is b or (not isinstance(a, (AExpr, AObj, Closure)) and type(a) is type(b) and isinstance(a, (bool, type(None))) and a == b) or (isinstance(a, AType) and isinstance(b, AType) and a == b)
        if isinstance(op, ast.IsNot):
            return not self.compare(ast.Is(), a, b)
        if isinstance(op, ast.In):
            if isinstance(b, TypeSet):
                raise Unsupported("in TypeSet")
            if isinstance(b, AObj):
                return self.truth(self.call(self.class_attr(b.rel, b.cls.name, "__contains__", b), [a]))
            if isinstance(a, AExpr):
                return any(a is x for x in self.iterate(b))
            return a in b
        if isinstance(op, ast.NotIn):
            return not self.compare(ast.In(), a, b)
        if isinstance(a, AExpr) or isinstance(b, AExpr):
            ctx = a.context if isinstance(a, AExpr) else b.context
            return ctx.make(CMPOPS[type(op)], (a, b))
        import operator as o
        table = {ast.Lt: o.lt, ast.LtE: o.le, ast.Gt: o.gt, ast.GtE: o.ge, ast.Eq: o.eq, ast.NotEq: o.ne}
        try:
            return table[type(op)](a, b)
        except TypeError as e:
            raise PyRaise(f"TypeError {e}")

    def e_Subscript(self, n, env, rel):
        base = self.eval(n.value, env, rel)
        if isinstance(n.slice, ast.Slice):
            lo = self.eval(n.slice.lower, env, rel) if n.slice.lower else None
            hi = self.eval(n.slice.upper, env, rel) if n.slice.upper else None
            st = self.eval(n.slice.step, env, rel) if n.slice.step else None
            return base[slice(lo, hi, st)]
        idx = self.eval(n.slice, env, rel)
        try:
            return base[idx]
        except (KeyError, IndexError, TypeError) as e:
            raise PyRaise(f"{type(e).__name__} {e}")

    def e_Starred(self, n, env, rel):
        raise Unsupported("starred")

    def e_Attribute(self, n, env, rel):
        obj = self.eval(n.value, env, rel)
        return self.getattr(obj, n.attr, rel)

    def getattr(self, obj, name, rel, default=_MISSING if False else None, has_default=False):
        if isinstance(obj, AExpr):
            if name in ("kind", "operands", "context", "props"):
                return getattr(obj, name)
            if name == "key":
                return obj._key
            if name == "intkey":
                return obj._key[-1]
            if name == "is_complex":
                return expr_is_complex(obj)
            if name == "get_type" and self.native_types:
                return lambda: expr_type(obj)
            if name in ("reference",):
                return lambda *a, **k: obj
            if obj.facts is not None and name in obj.facts:
                return obj.facts[name]
            return self.class_attr("expr.py", "Expr", name, obj, has_default, default)
        if isinstance(obj, ACtx):
            if name == "constant":
                return obj.constant
            if name == "symbol":
                return obj.symbol
            if name in ("parameters", "alt", "default_like"):
                return getattr(obj, name)
            return self.class_attr("context.py", "Context", name, obj, has_default, default)
        if isinstance(obj, AObj):
            if name in obj.attrs:
                return obj.attrs[name]
            return self.class_attr(obj.rel, obj.cls.name, name, obj, has_default, default)
        if isinstance(obj, AType) and not self.native_types:
            if name in ("kind", "param"):
                return getattr(obj, name)
            if name == "context":
                return self.ctx
            return self.class_attr("typesystem.py", "Type", name, obj, has_default, default)
        if isinstance(obj, AType):
            if name in ("kind", "bits", "param"):
                return getattr(obj, name)
            if name.startswith("is_"):
                return obj.kind == {"is_float": "float", "is_complex": "complex", "is_integer": "integer", "is_boolean": "boolean"}.get(name, "?")
            if name == "asdtype":
                return lambda: (None if obj.bits is None or obj.kind not in ("float", "complex") else NPDtype(obj.kind, obj.bits))
            raise Unsupported(f"Type.{name}")
        if isinstance(obj, ClassRef):
            return self.class_attr(obj.rel, obj.node.name, name, obj, has_default, default)
        if isinstance(obj, ModRef) and obj.kind == "module":
            return self.module_global(obj.name, name)
        if isinstance(obj, ModRef):
            full = f"{obj.name}.{name}"
            if full in NUMPY_ABSTRACT or full.startswith("numpy.") and name in ("floating", "integer", "complexfloating"):
                return TypeSet({full})
            if obj.name == "math" and hasattr(math, name):
                return getattr(math, name)
            if obj.name == "numpy" and name in ("inf", "pi", "nan", "e"):
                return {"inf": math.inf, "pi": math.pi, "nan": math.nan, "e": math.e}[name]
            if obj.name == "string":
                import string as _string
                if hasattr(_string, name):
                    return getattr(_string, name)
            return ModRef("ext", full)
        if isinstance(obj, dict):
            if name == "get":
                return lambda k, d=None: obj.get(k, d)
            if name in ("items", "keys", "values"):
                return lambda: list(getattr(obj, name)())
            if name == "update":
                return obj.update
        if isinstance(obj, (list, set, str, tuple)):
            if hasattr(obj, name):
                return getattr(obj, name)
        if isinstance(obj, (int, float, complex)) and hasattr(obj, name):
            return getattr(obj, name)
        if getattr(type(obj), "__absint_host__", False) and hasattr(obj, name):
            return getattr(obj, name)
        if has_default:
            return default
        raise Unsupported(f"attribute {name} of {type(obj).__name__}")

    def class_attr(self, rel, clsname, name, obj, has_default=False, default=None):
        cls = self.repo.find(rel, clsname)
        for st in cls.body:
            if isinstance(st, ast.FunctionDef) and st.name == name:
                decos = [dotted(d) or (dotted(d.func) if isinstance(d, ast.Call) else "") for d in st.decorator_list]
                if "classmethod" in decos:
                    return Closure(st, {}, self, rel, bound_self=ClassRef(rel, cls), cls=cls)
                if "staticmethod" in decos:
                    return Closure(st, {}, self, rel, cls=cls)
                clo = Closure(st, {}, self, rel, bound_self=obj, cls=cls)
                if "property" in decos:
                    return self.call(clo, [])
                return clo
            if isinstance(st, ast.Assign):
                for t in st.targets:
                    if isinstance(t, ast.Name) and t.id == name:
                        if isinstance(st.value, ast.Name):
                            return self.class_attr(rel, clsname, st.value.id, obj)
                        return self.eval(st.value, {}, rel)
        if has_default:
            return default
        raise PyRaise(f"AttributeError {clsname}.{name}")

    def e_Call(self, n, env, rel):
        # Expr(ctx, kind, operands) constructor
        fn_node = n.func
        if isinstance(fn_node, ast.Name) and fn_node.id == "Expr" and "Expr" not in env:
            a = [self.eval(x, env, rel) for x in n.args]
            ctx, kind, ops = a
            if kind == "select":
                return ctx.make(kind, tuple(ops))
            return ctx.make(kind, tuple(ops))
        if isinstance(fn_node, ast.Name) and fn_node.id == "super":
            raise Unsupported("super()")
        fn = self.eval(fn_node, env, rel)
        args = []
        for a in n.args:
            if isinstance(a, ast.Starred):
                args.extend(self.iterate(self.eval(a.value, env, rel)))
            else:
                args.append(self.eval(a, env, rel))
        kwargs = {}
        for kw in n.keywords:
            if kw.arg is None:
                kwargs.update(self.eval(kw.value, env, rel))
            else:
                kwargs[kw.arg] = self.eval(kw.value, env, rel)
        if isinstance(fn, ClassRef) and fn.node.name == "Type" and fn.rel == "typesystem.py":
            if len(args) != 3:
                raise Unsupported("Type(...) arity")
            return AType(args[1], args[2])
        if isinstance(fn, ClassRef):
            crel, cnode = fn.rel, fn.node
            obj = AObj(crel, cnode)
            init = next((s for s in cnode.body if isinstance(s, ast.FunctionDef) and s.name == "__init__"), None)
            if init is not None:
                self.call(Closure(init, {}, self, crel, bound_self=obj, cls=cnode), args, kwargs)
            return obj
        if isinstance(fn, NPDtype):
            return fn(*args)
        if isinstance(fn, AObj):
            callm = self.class_attr(fn.rel, fn.cls.name, "__call__", fn)
            return self.call(callm, args, kwargs)
        if isinstance(fn, ModRef):
            hook = getattr(self, "ext_calls", {}).get(fn.name) or DEFAULT_EXT_CALLS.get(fn.name)
            if hook is not None:
                return hook(*args, **kwargs)
            raise Unsupported(f"call of external {fn.name}")
        if isinstance(fn, TypeSet):
            # float(x), bool(x), ...
            nm = next(iter(fn.names))
            conv = {"float": float, "int": int, "bool": bool, "str": str, "complex": complex, "tuple": tuple, "list": list, "dict": dict, "set": set}.get(nm)
            if conv is None:
                raise Unsupported(f"constructor {nm}")
            try:
                return conv(*args, **kwargs)
            except (TypeError, ValueError) as e:
                raise PyRaise(f"{type(e).__name__} {e}")
        try:
            return self.call(fn, args, kwargs)
        except (ZeroDivisionError, OverflowError, ValueError) as e:
            raise PyRaise(f"{type(e).__name__} {e}")

    # ------------------------------------------------------------------ builtins
    def b_abs(self, v):
        if isinstance(v, AExpr):
            return v.context.make("absolute", (v,))
        return abs(v)

    def b_bool(self, v=False):
        return self.truth(v)

    def b_type(self, v):
        if hasattr(v, "__absint_type__"):
            return v.__absint_type__
        if isinstance(v, AType):
            return ClassRef("typesystem.py", self.repo.find("typesystem.py", "Type"))
        return TypeSet(pytypes_of(v) - ({"int"} if isinstance(v, bool) else set()))

    def b_sum(self, xs, start=0):
        acc = start
        for x in self.iterate(xs):
            acc = acc + x
        return acc

    def b_isinstance(self, v, t):
        if isinstance(t, NPDtype):
            return isinstance(v, NPVal) and v.dtype == t
        if isinstance(t, tuple):
            names = set()
            for x in t:
                if isinstance(x, TypeSet):
                    names |= x.names
                elif isinstance(x, ClassRef):
                    names.add(x.node.name)
                elif isinstance(x, ModRef) and x.kind == "ext" and x.name.startswith("numpy."):
                    # numpy scalar classes: matched only by the numpy scalar model
                    kind = {"numpy.floating": "float", "numpy.integer": "int", "numpy.complexfloating": "complex"}.get(x.name)
                    if kind is not None and isinstance(v, NPVal) and v.dtype.kind == kind:
                        return True
                else:
                    raise Unsupported(f"isinstance type {x!r}")
            t = TypeSet(names)
        if isinstance(t, ClassRef):
            t = TypeSet({t.node.name})
        if not isinstance(t, TypeSet):
            raise Unsupported(f"isinstance type {t!r}")
        return bool(pytypes_of(v) & t.names)

    def b_getattr(self, obj, name, *default):
        if default:
            try:
                return self.getattr(obj, name, "", default=default[0], has_default=True)
            except PyRaise:
                return default[0]
        return self.getattr(obj, name, "")

    def b_hasattr(self, obj, name):
        try:
            self.getattr(obj, name, "")
            return True
        except (PyRaise, Unsupported):
            return False


_MISSING = object()


def _unsupported(what):
    raise Unsupported(what)
