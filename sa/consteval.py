"""Literal / table evaluator over AST nodes.  No repository code is executed.

Evaluates the constant sub-language used by the repository's tables: literals, tuples,
lists, sets, dicts, dict(k=v) calls, NotImplemented/None/True/False, integer and float
arithmetic with Python's own precedence (the AST already encodes it), bytes concatenation
and repetition, list slicing, names bound in a supplied environment.  Anything else is
returned as an Opaque wrapper so that a rule can decide whether it matters.
"""

from __future__ import annotations

import ast
import operator

from .core import AnalysisError


class Opaque:
    __slots__ = ("node", "why")

    def __init__(self, node, why=""):
        self.node = node
        self.why = why

    def __repr__(self):
        try:
            return f"Opaque({ast.unparse(self.node)})"
        except Exception:
            return "Opaque(?)"


class NameRef:
    """A bare name that is not in the environment (e.g. a module-level function used as a table value)."""

    __slots__ = ("id", "node")

    def __init__(self, id, node):
        self.id = id
        self.node = node

    def __repr__(self):
        return f"NameRef({self.id})"

    def __eq__(self, other):
        return isinstance(other, NameRef) and other.id == self.id

    def __hash__(self):
        return hash(("NameRef", self.id))


class NotImpl:
    _inst = None

    def __new__(cls):
        if cls._inst is None:
            cls._inst = object.__new__(cls)
        return cls._inst

    def __repr__(self):
        return "NotImplemented"


NOTIMPL = NotImpl()

_BIN = {
    ast.Add: operator.add,
    ast.Sub: operator.sub,
    ast.Mult: operator.mul,
    ast.FloorDiv: operator.floordiv,
    ast.Div: operator.truediv,
    ast.Mod: operator.mod,
    ast.Pow: operator.pow,
    ast.LShift: operator.lshift,
    ast.RShift: operator.rshift,
    ast.BitOr: operator.or_,
    ast.BitAnd: operator.and_,
    ast.BitXor: operator.xor,
}
_UN = {ast.USub: operator.neg, ast.UAdd: operator.pos, ast.Invert: operator.invert, ast.Not: operator.not_}


def is_concrete(v):
    if isinstance(v, (Opaque, NameRef)):
        return False
    if isinstance(v, (tuple, list, set, frozenset)):
        return all(is_concrete(x) for x in v)
    if isinstance(v, dict):
        return all(is_concrete(k) and is_concrete(x) for k, x in v.items())
    return True


_CMP = {
    ast.Eq: lambda a, b: a == b, ast.NotEq: lambda a, b: a != b, ast.Lt: lambda a, b: a < b, ast.LtE: lambda a, b: a <= b,
    ast.Gt: lambda a, b: a > b, ast.GtE: lambda a, b: a >= b, ast.In: lambda a, b: a in b, ast.NotIn: lambda a, b: a not in b,
    ast.Is: lambda a, b: a is b, ast.IsNot: lambda a, b: a is not b,
}


def ev(node, env=None, strict=False, calls=None):
    """Evaluate node.  env maps names to values.  strict=True raises AnalysisError on opaque parts.
    calls: optional {plain function name: host callable} applied to concrete positional arguments (e.g. int, abs, min, max)."""
    env = env or {}
    calls = calls or {}

    def fail(n, why):
        if strict:
            raise AnalysisError(f"cannot constant-evaluate `{ast.unparse(n)}` (line {getattr(n, 'lineno', '?')}): {why}")
        return Opaque(n, why)

    def go(n):
        if isinstance(n, ast.Constant):
            return n.value
        if isinstance(n, ast.Tuple):
            return tuple(go(e) for e in n.elts)
        if isinstance(n, ast.List):
            return [go(e) for e in n.elts]
        if isinstance(n, ast.Set):
            vals = [go(e) for e in n.elts]
            try:
                return set(vals)
            except TypeError:
                return fail(n, "unhashable set element")
        if isinstance(n, ast.Dict):
            d = {}
            for k, v in zip(n.keys, n.values):
                if k is None:
                    sub = go(v)
                    if not isinstance(sub, dict):
                        return fail(n, "dict unpacking of non-dict")
                    d.update(sub)
                else:
                    kk = go(k)
                    try:
                        d[kk] = go(v)
                    except TypeError:
                        return fail(n, "unhashable dict key")
            return d
        if isinstance(n, ast.Name):
            if n.id in env:
                return env[n.id]
            if n.id == "NotImplemented":
                return NOTIMPL
            return NameRef(n.id, n)
        if isinstance(n, ast.Call) and isinstance(n.func, ast.Name) and n.func.id == "dict":
            d = {}
            for a in n.args:
                sub = go(a)
                if isinstance(sub, dict):
                    d.update(sub)
                else:
                    return fail(n, "dict() of non-dict positional")
            for kw in n.keywords:
                if kw.arg is None:
                    sub = go(kw.value)
                    if not isinstance(sub, dict):
                        return fail(n, "dict(**x) of non-dict")
                    d.update(sub)
                else:
                    d[kw.arg] = go(kw.value)
            return d
        if isinstance(n, ast.Call) and isinstance(n.func, ast.Name) and n.func.id in ("set", "tuple", "list", "frozenset"):
            if not n.args:
                return {"set": set(), "tuple": (), "list": [], "frozenset": frozenset()}[n.func.id]
            v = go(n.args[0])
            if is_concrete(v) and isinstance(v, (list, tuple, set, frozenset, dict)):
                return {"set": set, "tuple": tuple, "list": list, "frozenset": frozenset}[n.func.id](v)
            return fail(n, "container of opaque")
        if isinstance(n, ast.Call) and isinstance(n.func, ast.Name) and n.func.id in calls and not n.keywords:
            vals = [go(a) for a in n.args]
            if any(isinstance(v, (Opaque, NameRef)) for v in vals):
                return fail(n, "opaque argument")
            try:
                return calls[n.func.id](*vals)
            except Exception as e:  # noqa
                return fail(n, f"{type(e).__name__}: {e}")
        if isinstance(n, ast.BinOp) and type(n.op) in _BIN:
            a, b = go(n.left), go(n.right)
            if isinstance(a, (Opaque, NameRef)) or isinstance(b, (Opaque, NameRef)):
                return fail(n, "opaque operand")
            try:
                if isinstance(n.op, ast.Pow) and isinstance(b, int) and abs(b) > 20000:
                    return fail(n, "exponent too large")
                if isinstance(n.op, ast.LShift) and isinstance(b, int) and b > 200000:
                    return fail(n, "shift too large")
                return _BIN[type(n.op)](a, b)
            except Exception as e:  # noqa
                return fail(n, f"{type(e).__name__}: {e}")
        if isinstance(n, ast.UnaryOp) and type(n.op) in _UN:
            a = go(n.operand)
            if isinstance(a, (Opaque, NameRef)):
                return fail(n, "opaque operand")
            try:
                return _UN[type(n.op)](a)
            except Exception as e:  # noqa
                return fail(n, f"{type(e).__name__}: {e}")
        if isinstance(n, ast.Subscript):
            base = go(n.value)
            if isinstance(base, (Opaque, NameRef)):
                return fail(n, "opaque base")
            if isinstance(n.slice, ast.Slice):
                lo = go(n.slice.lower) if n.slice.lower else None
                hi = go(n.slice.upper) if n.slice.upper else None
                st = go(n.slice.step) if n.slice.step else None
                try:
                    return base[slice(lo, hi, st)]
                except Exception as e:  # noqa
                    return fail(n, str(e))
            idx = go(n.slice)
            try:
                return base[idx]
            except Exception as e:  # noqa
                return fail(n, str(e))
        if isinstance(n, ast.JoinedStr):
            return fail(n, "f-string")
        if isinstance(n, ast.Compare):
            left = go(n.left)
            for op, c in zip(n.ops, n.comparators):
                right = go(c)
                if isinstance(left, (Opaque, NameRef)) or isinstance(right, (Opaque, NameRef)) or type(op) not in _CMP:
                    return fail(n, "opaque comparison")
                try:
                    if not _CMP[type(op)](left, right):
                        return False
                except Exception as e:  # noqa
                    return fail(n, f"{type(e).__name__}: {e}")
                left = right
            return True
        if isinstance(n, ast.BoolOp):
            vals = [go(v) for v in n.values]
            if any(isinstance(v, (Opaque, NameRef)) for v in vals):
                return fail(n, "opaque boolean operand")
            r_ = vals[0]
            for v in vals[1:]:
                r_ = (r_ and v) if isinstance(n.op, ast.And) else (r_ or v)
            return r_
        if isinstance(n, ast.IfExp):
            t = go(n.test)
            if isinstance(t, (Opaque, NameRef)):
                return fail(n, "opaque test")
            return go(n.body) if t else go(n.orelse)
        return fail(n, type(n).__name__)

    return go(node)


def table(repo, rel, name, env=None, container=None):
    """Evaluate a module-level (or class-level) table assignment to a dict; fail closed."""
    node = repo.module_assign(rel, name, container=container)
    v = ev(node, env)
    if not isinstance(v, dict):
        raise AnalysisError(f"{rel}: `{name}` is not a dict-valued table any more ({v!r})")
    return v, node


def table_entry_nodes(node):
    """Map key -> value AST node for a dict literal / dict(k=v) call (for locations)."""
    out = {}
    if isinstance(node, ast.Dict):
        for k, v in zip(node.keys, node.values):
            if k is not None:
                kk = ev(k)
                try:
                    out[kk] = v
                except TypeError:
                    pass
    elif isinstance(node, ast.Call):
        for kw in node.keywords:
            if kw.arg is not None:
                out[kw.arg] = kw.value
    return out
