"""Symbolic integers for the abstract interpretation of bit-field decoders.

SInt   an exact value of the power-of-two algebra (sa/pow2alg.Val: sums of monomials in field symbols times 2**(affine
       exponent)); + - * with ints and SInts, `1 << k` / `2 ** k` with an affine k, comparisons of affine values through
       the path-sensitive linear domain (sa/linint.Paths), exact division by a single power-of-two term (SFrac).
BitInt the integer view of a bit pattern as a list of named fields [(symbol or constant, low bit, width)]; `& (2**k - 1)`
       and `>> n` act on the field list, int() turns it into an SInt.
"""

from __future__ import annotations

from fractions import Fraction

from .pow2alg import Val, Exp, NotAlgebraic
from .linint import Lin, Paths


def _val(o):
    if isinstance(o, SInt):
        return o.v
    if isinstance(o, bool):
        return Val.const(int(o))
    if isinstance(o, int):
        return Val.const(o)
    if isinstance(o, Lin):
        v = Val.const(o.k)
        for s, c in o.c.items():
            v = v + Val.const(c) * Val.sym(s)
        return v
    return None


def _affine(v):
    """Val -> Lin when it is an integer-affine combination of symbols, else None."""
    coeffs, const = {}, 0
    for mono, e, c in v.items():
        if e.c:
            return None
        cc = c * Fraction(2) ** e.k
        if cc.denominator != 1:
            return None
        if mono == ():
            const += int(cc)
        elif len(mono) == 1:
            coeffs[mono[0]] = coeffs.get(mono[0], 0) + int(cc)
        else:
            return None
    return Lin(coeffs, const)


class SInt:
    __absint_host__ = True
    __slots__ = ("v",)

    def __init__(self, v):
        self.v = v

    @staticmethod
    def sym(name):
        return SInt(Val.sym(name))

    def _bin(self, o, f):
        ov = _val(o)
        if ov is None:
            return NotImplemented
        return SInt(f(self.v, ov))

    def __add__(self, o):
        return self._bin(o, lambda a, b: a + b)

    __radd__ = __add__

    def __sub__(self, o):
        return self._bin(o, lambda a, b: a - b)

    def __rsub__(self, o):
        return self._bin(o, lambda a, b: b - a)

    def __mul__(self, o):
        return self._bin(o, lambda a, b: a * b)

    __rmul__ = __mul__

    def __neg__(self):
        return SInt(-self.v)

    def __pos__(self):
        return self

    def _exp(self):
        l = _affine(self.v)
        if l is None:
            raise TypeError(f"exponent {self.v!r} is not integer-affine")
        return Exp(dict(l.c), l.k)

    def __rlshift__(self, base):  # base << self
        bv = _val(base)
        if bv is None:
            return NotImplemented
        return SInt(bv * Val.pow2(self._exp()))

    def __lshift__(self, o):  # self << o
        if isinstance(o, SInt):
            return SInt(self.v * Val.pow2(o._exp()))
        if isinstance(o, int) and not isinstance(o, bool):
            return SInt(self.v * Val.pow2(Exp({}, o)))
        return NotImplemented

    def __rpow__(self, base):  # base ** self
        if base == 2:
            return SInt(Val.pow2(self._exp()))
        return NotImplemented

    def __int__(self):
        l = _affine(self.v)
        if l is not None and l.is_const():
            return l.k
        raise TypeError("symbolic integer")

    __index__ = __int__

    def _cmp(self, o, op):
        ov = _val(o)
        if ov is None:
            return NotImplemented
        d = self.v - ov
        if not d.items():
            return op in ("<=", ">=", "==")
        l = _affine(d)
        if l is None:
            raise TypeError(f"comparison of non-affine values: {d!r}")
        if op == "==":
            return Paths.current().decide(l, "==")
        return Paths.current().decide(l, op)

    def __lt__(self, o):
        return self._cmp(o, "<")

    def __le__(self, o):
        return self._cmp(o, "<=")

    def __gt__(self, o):
        return self._cmp(o, ">")

    def __ge__(self, o):
        return self._cmp(o, ">=")

    def __eq__(self, o):
        return self._cmp(o, "==")

    def __ne__(self, o):
        r = self._cmp(o, "==")
        return r if r is NotImplemented else not r

    __hash__ = None

    def __repr__(self):
        return repr(self.v)


class SFrac:
    """num / den with den a single power-of-two term (exact)."""
    __absint_host__ = True

    def __init__(self, num, den=1):
        n, d = _val(num), _val(den)
        if n is None or d is None:
            raise TypeError("Fraction of non-integer values")
        try:
            self.v = n.divide(d)
        except NotAlgebraic as e:
            raise TypeError(str(e))

    def __repr__(self):
        return repr(self.v)


class BitInt:
    __absint_host__ = True

    def __init__(self, fields):
        # fields: list of (value, lo, width); value is a symbol name (str) or an int constant that fits the width
        self.fields = [f for f in fields if f[2] > 0]

    def __and__(self, mask):
        mask = int(mask)
        if mask < 0 or (mask & (mask + 1)) != 0:
            raise TypeError(f"mask {mask:#x} is not of the form 2**k - 1")
        k = mask.bit_length()
        out = []
        for v, lo, w in self.fields:
            if lo + w <= k:
                out.append((v, lo, w))
            elif lo >= k:
                continue
            else:
                raise TypeError(f"mask 2**{k} - 1 cuts through the field at bits {lo}..{lo + w - 1}")
        return BitInt(out)

    __rand__ = __and__

    def __rshift__(self, n):
        n = int(n)
        out = []
        for v, lo, w in self.fields:
            if lo >= n:
                out.append((v, lo - n, w))
            elif lo + w <= n:
                continue
            else:
                raise TypeError(f"shift by {n} cuts through the field at bits {lo}..{lo + w - 1}")
        return BitInt(out)

    def to_sint(self):
        v = Val()
        for val, lo, w in self.fields:
            term = Val.sym(val) if isinstance(val, str) else Val.const(val)
            v = v + term * Val.pow2(Exp({}, lo))
        return SInt(v)

    def __repr__(self):
        return "bits(" + ", ".join(f"{v}@{lo}+{w}" for v, lo, w in self.fields) + ")"


def to_int(v):
    """Replacement for the builtin int() inside interpreted code."""
    if isinstance(v, BitInt):
        return v.to_sint()
    if isinstance(v, (SInt, Lin)):
        return v if isinstance(v, SInt) else SInt(_val(v))
    return int(v)
