"""Path-sensitive abstract interpretation over linear integer expressions (a small polyhedral domain).

`Lin` values are affine expressions over named integer symbols.  Comparisons of Lin values are answered by the
current `Paths` context: if the conjunction of constraints collected so far entails the answer (Fourier-Motzkin
elimination over the rationals, sound for the integers) it is returned, otherwise the analysis forks and both
outcomes are explored; every explored path is therefore feasible over the rationals.  The host interpreter
(sa/absint.py) is re-run once per path with the recorded decisions replayed.
"""

from __future__ import annotations

from fractions import Fraction


class Lin:
    __absint_host__ = True
    __slots__ = ("c", "k")

    def __init__(self, coeffs=None, const=0):
        self.c = {s: v for s, v in (coeffs or {}).items() if v != 0}
        self.k = const

    @staticmethod
    def sym(name):
        return Lin({name: 1}, 0)

    @staticmethod
    def lift(o):
        if isinstance(o, Lin):
            return o
        if isinstance(o, bool):
            return Lin({}, int(o))
        if isinstance(o, int):
            return Lin({}, o)
        return None

    def is_const(self):
        return not self.c

    def __add__(self, o):
        o = Lin.lift(o)
        if o is None:
            return NotImplemented
        d = dict(self.c)
        for s, v in o.c.items():
            d[s] = d.get(s, 0) + v
        return Lin(d, self.k + o.k)

    __radd__ = __add__

    def __neg__(self):
        return Lin({s: -v for s, v in self.c.items()}, -self.k)

    def __pos__(self):
        return self

    def __sub__(self, o):
        o = Lin.lift(o)
        return NotImplemented if o is None else self + (-o)

    def __rsub__(self, o):
        o = Lin.lift(o)
        return NotImplemented if o is None else o + (-self)

    def __mul__(self, o):
        o = Lin.lift(o)
        if o is None:
            return NotImplemented
        if o.is_const():
            return Lin({s: v * o.k for s, v in self.c.items()}, self.k * o.k)
        if self.is_const():
            return o * self
        raise TypeError("product of two symbolic integers is not linear")

    __rmul__ = __mul__

    def __floordiv__(self, d):
        if isinstance(d, int) and not isinstance(d, bool) and d > 0 and all(v % d == 0 for v in self.c.values()):
            return Lin({s: v // d for s, v in self.c.items()}, self.k // d)
        raise TypeError(f"floor division of {self!r} by {d!r} is not linear")

    def __mod__(self, d):
        if isinstance(d, int) and not isinstance(d, bool) and d > 0 and all(v % d == 0 for v in self.c.values()):
            return self.k % d
        raise TypeError(f"{self!r} modulo {d!r} is not decided by the representation")

    def __int__(self):
        if self.is_const():
            return self.k
        raise TypeError("symbolic integer")

    __index__ = __int__

    # comparisons consult the active path context
    def _cmp(self, o, op):
        o = Lin.lift(o)
        if o is None:
            return NotImplemented
        return Paths.current().decide(self - o, op)

    def __lt__(self, o):
        return self._cmp(o, "<")

    def __le__(self, o):
        return self._cmp(o, "<=")

    def __gt__(self, o):
        return self._cmp(o, ">")

    def __ge__(self, o):
        return self._cmp(o, ">=")

    def __eq__(self, o):
        return self._cmp(o, "==")

    def __ne__(self, o):
        r = self._cmp(o, "==")
        return r if r is NotImplemented else not r

    __hash__ = None

    def __abs__(self):
        return self if Paths.current().decide(self, ">=") else -self

    def same(self, o):
        o = Lin.lift(o)
        return o is not None and self.c == o.c and self.k == o.k

    def __repr__(self):
        parts = [f"{v}*{s}" if v != 1 else s for s, v in sorted(self.c.items())]
        if self.k or not parts:
            parts.append(str(self.k))
        return " + ".join(parts)


def _feasible(cons):
    """Is the conjunction of (coeffs, const) >= 0 constraints satisfiable over the rationals?  Fourier-Motzkin."""
    cons = [({s: Fraction(v) for s, v in c.items() if v != 0}, Fraction(k)) for c, k in cons]
    while True:
        syms = set()
        for c, k in cons:
            syms |= set(c)
        if not syms:
            return all(k >= 0 for c, k in cons)
        s = sorted(syms)[0]
        pos, neg, rest = [], [], []
        for c, k in cons:
            a = c.get(s, 0)
            (pos if a > 0 else neg if a < 0 else rest).append((c, k))
        new = rest
        for cp, kp in pos:
            for cn, kn in neg:
                ap, an = cp[s], -cn[s]
                c = {}
                for t in set(cp) | set(cn):
                    if t == s:
                        continue
                    v = cp.get(t, 0) * an + cn.get(t, 0) * ap
                    if v != 0:
                        c[t] = v
                new.append((c, kp * an + kn * ap))
        # drop trivially true constraints, detect trivially false ones early
        out = []
        for c, k in new:
            if not c:
                if k < 0:
                    return False
                continue
            out.append((c, k))
        cons = out
        if len(cons) > 4000:
            raise RuntimeError("constraint blow-up")


class Paths:
    """Explores all feasible decision sequences of a deterministic computation `run()` that uses Lin comparisons."""

    _active = None

    def __init__(self, base=()):
        self.base = [self._ge(l) for l in base]  # constraints that always hold: list of Lin meaning l >= 0
        self.prefix = []
        self.trace = []  # (Lin, op, value)
        self.cons = []

    @staticmethod
    def current():
        if Paths._active is None:
            raise TypeError("symbolic comparison outside a path exploration")
        return Paths._active

    @staticmethod
    def _ge(l):
        return (dict(l.c), l.k)

    def _with(self, l, op, val):
        """Constraints (as >= 0 forms) expressing that `l op 0` has truth value val (integers)."""
        if op in ("<", "<="):
            return self._with(-l, {"<": ">", "<=": ">="}[op], val)
        if op == ">":
            return [self._ge(l - 1)] if val else [self._ge(-l)]
        if op == ">=":
            return [self._ge(l)] if val else [self._ge(-l - 1)]
        raise ValueError(op)

    def entails(self, l, op):
        """True / False if the current constraints decide `l op 0`, None otherwise."""
        if l.is_const():
            return {"<": l.k < 0, "<=": l.k <= 0, ">": l.k > 0, ">=": l.k >= 0, "==": l.k == 0}[op]
        if op == "==":
            ge, le = self.entails(l, ">="), self.entails(l, "<=")
            if ge is True and le is True:
                return True
            if ge is False or le is False:
                return False
            return None
        cur = self.base + self.cons
        can_true = _feasible(cur + self._with(l, op, True))
        can_false = _feasible(cur + self._with(l, op, False))
        if can_true and not can_false:
            return True
        if can_false and not can_true:
            return False
        if not can_true and not can_false:
            raise RuntimeError("infeasible path reached")
        return None

    def decide(self, l, op):
        if op == "==":
            # decided through two inequalities so that every recorded constraint is convex
            return self.decide(l, ">=") and self.decide(l, "<=")
        e = self.entails(l, op)
        if e is not None:
            return e
        i = len(self.trace)
        val = self.prefix[i] if i < len(self.prefix) else True
        self.trace.append((l, op, val))
        self.cons += self._with(l, op, val)
        return val

    def assume(self, l, op):
        """Add a fact (used for the domain constraints of a case)."""
        self.base += self._with(l, op, True)

    @classmethod
    def explore(cls, run, base_facts=(), limit=5000):
        """run() -> value.  Yields (constraints description, value) for every feasible path."""
        stack = [[]]
        n = 0
        while stack:
            prefix = stack.pop()
            ctx = cls()
            for l, op in base_facts:
                ctx.assume(l, op)
            ctx.prefix = prefix
            prev, Paths._active = Paths._active, ctx
            try:
                val = run()
            finally:
                Paths._active = prev
            n += 1
            if n > limit:
                raise RuntimeError("too many paths")
            yield ctx, val
            for i in range(len(prefix), len(ctx.trace)):
                stack.append([t[2] for t in ctx.trace[:i]] + [not ctx.trace[i][2]])

    def describe(self):
        return " and ".join(f"{'' if v else 'not '}({l!r} {op} 0)" for l, op, v in self.trace) or "(no case distinction)"
