"""Recognition of error-free-transformation sub-DAGs in expanded expression terms (ir.normal Terms), and interval
summaries for them.

Interval arithmetic cannot follow the exact cancellations on which 2Sum, Fast2Sum, the Veltkamp split and the Dekker
product rest (x - (C*x - (C*x - x)) is enclosed by an interval thousands of times wider than x's).  The shapes below are
matched structurally and given the enclosure that their contract implies:

  split_hi(x, C)   = C*x + (x - C*x)  or  C*x - (C*x - x)      high part of x:   |xh - x| <= 2**(s - p + 1) |x|,  C = 2**s + 1
  split_lo         = x - split_hi(x, C)                           low part:        |xl|     <= 2**(s - p + 1) |x|
  dekker_err       = (((-(x*y) + xh*yh) + xh*yl) + xl*yh) + xl*yl   (either order of the two cross terms; x == y allowed)
                                                                   |e| <= 2**-p |x*y|  (+ eta when the product may be subnormal)
  two_sum_err      = (a - (s - z)) + (b - z),  s = a + b, z = s - a                 |t| <= 2**-p |s|
  fast_two_sum_err = b - z,                    s = a + b, z = s - a                 |t| <= 2**-p (2|s| + |a|)

That the package's kernels *are* these shapes is C10's subject (dataflow conformance of the source); here the shapes are
only used to keep enclosures tight.  A sub-DAG that does not match is evaluated generically (sound, just wider).
"""

from __future__ import annotations

import numpy as np


def _is(t, k, n=None):
    return t[0] == k and (n is None or len(t) - 1 == n)


def _const_like(t):
    """a constant or a dtype switch (select on `largest`) of constants"""
    if t[0] == "const":
        return True
    if t[0] == "select":
        return _const_like(t[2]) and _const_like(t[3])
    return False


def match_split_hi(t):
    """-> (x, C) or None"""
    if _is(t, "add", 2):
        for m, d in ((t[1], t[2]), (t[2], t[1])):
            if _is(m, "multiply", 2) and _is(d, "subtract", 2) and d[2] is m:
                for c, x in ((m[1], m[2]), (m[2], m[1])):
                    if _const_like(c) and d[1] is x:
                        return x, c
    if _is(t, "subtract", 2):
        m, d = t[1], t[2]
        if _is(m, "multiply", 2) and _is(d, "subtract", 2) and d[1] is m:
            for c, x in ((m[1], m[2]), (m[2], m[1])):
                if _const_like(c) and d[2] is x:
                    return x, c
    return None


def match_split_lo(t):
    if _is(t, "subtract", 2):
        h = match_split_hi(t[2])
        if h is not None and h[0] is t[1]:
            return h
    return None


def match_two_sum_err(t):
    """-> (a, b, s) for the 2Sum error term, or None"""
    if not _is(t, "add", 2):
        return None
    for u, v in ((t[1], t[2]), (t[2], t[1])):
        # u = a - (s - z), v = b - z
        if _is(u, "subtract", 2) and _is(v, "subtract", 2) and _is(u[2], "subtract", 2):
            a, s, z, b = u[1], u[2][1], u[2][2], v[1]
            if v[2] is z and _is(z, "subtract", 2) and z[1] is s and z[2] is a and _is(s, "add", 2) and ((s[1] is a and s[2] is b) or (s[2] is a and s[1] is b)):
                return a, b, s
    return None


def match_fast_two_sum_err(t):
    if _is(t, "subtract", 2):
        b, z = t[1], t[2]
        if _is(z, "subtract", 2):
            s, a = z[1], z[2]
            if _is(s, "add", 2) and ((s[1] is a and s[2] is b) or (s[2] is a and s[1] is b)):
                return a, b, s
    return None


def match_dekker_err(t):
    """-> (x, y, product term) or None"""
    if not _is(t, "add", 2):
        return None
    # t = ((A + c1) + c2) + ll  with A = -(x*y) + hh
    for inner, ll in ((t[1], t[2]), (t[2], t[1])):
        if not (_is(inner, "add", 2) and _is(ll, "multiply", 2)):
            continue
        for inner2, c2 in ((inner[1], inner[2]), (inner[2], inner[1])):
            if not (_is(inner2, "add", 2) and _is(c2, "multiply", 2)):
                continue
            for A, c1 in ((inner2[1], inner2[2]), (inner2[2], inner2[1])):
                if not (_is(c1, "multiply", 2) and (_is(A, "add", 2) or _is(A, "subtract", 2))):
                    continue
                if _is(A, "subtract", 2):
                    forms = [(A[2], A[1])]  # hh - p
                else:
                    forms = [(n_[1], h_) for n_, h_ in ((A[1], A[2]), (A[2], A[1])) if _is(n_, "negative", 1)]
                for prod, hh in forms:
                    if not (_is(hh, "multiply", 2) and (_is(prod, "multiply", 2) or _is(prod, "square", 1))):
                        continue
                    x, y = (prod[1], prod[2]) if prod[0] == "multiply" else (prod[1], prod[1])
                    parts = []
                    ok = True
                    for f in (hh, c1, c2, ll):
                        kinds = []
                        for op in (f[1], f[2]):
                            h = match_split_hi(op)
                            l = match_split_lo(op)
                            if h is not None:
                                kinds.append(("h", h[0]))
                            elif l is not None:
                                kinds.append(("l", l[0]))
                            else:
                                ok = False
                        parts.append(tuple(kinds))
                    if not ok:
                        continue
                    want = [(("h", x), ("h", y)), (("h", x), ("l", y)), (("l", x), ("h", y)), (("l", x), ("l", y))]
                    # compare as multisets of unordered factor pairs
                    def norm(ps):
                        return sorted(sorted((k, id(v)) for k, v in p) for p in ps)
                    if norm(parts) == norm(want):
                        return x, y, prod
    return None


def summaries(roots):
    """term -> (kind, payload) for every recognised EFT sub-term reachable from the roots"""
    out = {}
    seen = set()
    stack = [r for r in roots if r is not None]
    while stack:
        t = stack.pop()
        if t in seen or t[0] in ("sym", "const"):
            continue
        seen.add(t)
        m = match_dekker_err(t)
        if m is not None:
            out[t] = ("dekker_err", m)
        else:
            m = match_two_sum_err(t)
            if m is not None:
                out[t] = ("two_sum_err", m)
            else:
                m = match_split_hi(t)
                if m is not None:
                    out[t] = ("split_hi", m)
                else:
                    m = match_split_lo(t)
                    if m is not None:
                        out[t] = ("split_lo", m)
                    else:
                        m = match_fast_two_sum_err(t)
                        if m is not None:
                            out[t] = ("fast_two_sum_err", m)
        stack.extend(a for a in t[1:] if isinstance(a, tuple))
    return out


def needs(spec):
    kind, m = spec
    if kind in ("split_hi", "split_lo"):
        return [m[0], m[1]]
    if kind == "dekker_err":
        return [m[2]]
    return [m[0], m[1], m[2]]


def enclose(spec, val, dom, generic):
    """IV for a recognised term; `val(term)` gives operand values, `generic()` the plain interval evaluation (used where the
    summary's preconditions - no overflow in C*x, finite operands - are not guaranteed on the box)."""
    from .ival import IV, tmin, tmax

    f = dom.fmt
    kind, m = spec
    u = f.ft(2.0 ** -f.p)
    G = generic()
    with np.errstate(all="ignore"):
        if kind in ("split_hi", "split_lo"):
            X, Cv = val(m[0]), val(m[1])
            xmax = np.maximum(np.abs(X.lo), np.abs(X.hi))
            cmax = np.maximum(np.abs(Cv.lo), np.abs(Cv.hi))
            safe = ~X.emp & ~X.nan & np.isfinite(xmax) & (xmax.astype(np.float64) * cmax.astype(np.float64) < float(f.largest) / 4) & (Cv.lo == Cv.hi)
            s = np.log2(np.maximum(cmax.astype(np.float64) - 1.0, 1.0))
            w = (xmax.astype(np.float64) * 2.0 ** (s - f.p + 1)).astype(f.ft)
            w = np.nextafter(w, f.inf) + f.tiny
            if kind == "split_hi":
                lo, hi = X.lo - w, X.hi + w
            else:
                lo, hi = -w, w
        elif kind == "dekker_err":
            Pv = val(m[2])
            pmax = np.maximum(np.abs(Pv.lo), np.abs(Pv.hi))
            # the partial products xh*yh ... exceed |x*y| by at most a factor 1 + 2**-(p/2 - 2): no overflow below largest * (1 - 2**-8)
            safe = ~Pv.emp & ~Pv.nan & np.isfinite(pmax) & (pmax < f.largest * f.ft(1 - 2.0 ** -8))
            w = np.nextafter(pmax * u, f.inf) + f.tiny * 4
            lo, hi = -w, w
        else:
            A, B, S = val(m[0]), val(m[1]), val(m[2])
            smax = np.maximum(np.abs(S.lo), np.abs(S.hi))
            amax = np.maximum(np.abs(A.lo), np.abs(A.hi))
            safe = ~S.emp & ~S.nan & ~A.nan & ~B.nan & np.isfinite(smax) & np.isfinite(amax)
            w = smax * u if kind == "two_sum_err" else (smax * 2 + amax) * u
            w = np.nextafter(w, f.inf) + f.tiny
            lo, hi = -w, w
        # the summary is an additional enclosure: intersect it with the generic one where it applies
        nlo = np.where(safe, tmax(G.lo, lo.astype(f.ft)), G.lo)
        nhi = np.where(safe, tmin(G.hi, hi.astype(f.ft)), G.hi)
        bad = nlo > nhi
        nlo, nhi = np.where(bad, G.lo, nlo), np.where(bad, G.hi, nhi)
    return IV(nlo, nhi, np.where(safe, False, G.nan) | (G.nan & ~safe), G.emp)
