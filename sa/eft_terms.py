"""Recognition of error-free-transformation sub-DAGs in expanded expression terms (ir.normal Terms), and interval
summaries for them.

Interval arithmetic cannot follow the exact cancellations on which 2Sum, Fast2Sum, the Veltkamp split and the Dekker
product rest (x - (C*x - (C*x - x)) is enclosed by an interval thousands of times wider than x's).  The shapes below are
matched structurally and given the enclosure that their contract implies:

  split_hi(x, C)   = C*x + (x - C*x)  or  C*x - (C*x - x)      high part of x:   |xh - x| <= 2**(s - p + 1) |x|,  C = 2**s + 1
  split_lo         = x - split_hi(x, C)                           low part:        |xl|     <= 2**(s - p + 1) |x|
  dekker_err       = (((-(x*y) + xh*yh) + xh*yl) + xl*yh) + xl*yl   (either order of the two cross terms; x == y allowed)
                                                                   |e| <= 2**-p |x*y|  (+ eta when the product may be subnormal)
  two_sum_err      = (a - (s - z)) + (b - z),  s = a + b, z = s - a                 |t| <= 2**-p |s|
  fast_two_sum_err = b - z,                    s = a + b, z = s - a                 |t| <= 2**-p (2|s| + |a|)

That the package's kernels *are* these shapes is C10's subject (dataflow conformance of the source); here the shapes are
only used to keep enclosures tight.  A sub-DAG that does not match is evaluated generically (sound, just wider).
"""

from __future__ import annotations

import numpy as np

from ir.normal import T


def _is(t, k, n=None):
    return t[0] == k and (n is None or len(t) - 1 == n)


def _const_like(t):
    """a constant or a dtype switch (select on `largest`) of constants"""
    if t[0] == "const":
        return True
    if t[0] == "select":
        return _const_like(t[2]) and _const_like(t[3])
    return False


def match_split_hi(t):
    """-> (x, C) or None"""
    if _is(t, "add", 2):
        for m, d in ((t[1], t[2]), (t[2], t[1])):
            if _is(m, "multiply", 2) and _is(d, "subtract", 2) and d[2] is m:
                for c, x in ((m[1], m[2]), (m[2], m[1])):
                    if _const_like(c) and d[1] is x:
                        return x, c
    if _is(t, "subtract", 2):
        m, d = t[1], t[2]
        if _is(m, "multiply", 2) and _is(d, "subtract", 2) and d[1] is m:
            for c, x in ((m[1], m[2]), (m[2], m[1])):
                if _const_like(c) and d[2] is x:
                    return x, c
    return None


def match_split_lo(t):
    if _is(t, "subtract", 2):
        h = match_split_hi(t[2])
        if h is not None and h[0] is t[1]:
            return h
    return None


def _sv(t, sign=1):
    """signed view of a term: (sign, core) with negations peeled off (the line restrictions rewrite a + (-b) as a - b and
    vice versa, so the error-free patterns are matched up to such sign placements)"""
    while _is(t, "negative", 1):
        t, sign = t[1], -sign
    if t[0] == "const" and t[1][0] == "num":
        v = float.fromhex(t[1][1])
        if v < 0 or (v == 0 and str(v).startswith("-")):
            from ir.normal import const
            return -sign, const(("num", (-v).hex()))
    return sign, t


def _addends(t):
    """[(sign, core), (sign, core)] for a sum or difference, else None"""
    if _is(t, "add", 2):
        return [_sv(t[1]), _sv(t[2])]
    if _is(t, "subtract", 2):
        return [_sv(t[1]), _sv(t[2], -1)]
    return None


def _same(a, b):
    return a[0] == b[0] and (a[1] is b[1] or a[1] == b[1])


def _neg(a):
    return (-a[0], a[1])


def _unsv(a):
    return a[1] if a[0] > 0 else T("negative", a[1])


def _sum_is(t, a, b):
    ad = _addends(t)
    return ad is not None and ((_same(ad[0], a) and _same(ad[1], b)) or (_same(ad[0], b) and _same(ad[1], a)))


def match_fast_two_sum_err(t):
    """t = b - z, z = s - a, s = a + b  ->  (a, b, s) with a, b as terms (signs folded back in)"""
    ad = _addends(t)
    if ad is None:
        return None
    for b, mz in ((ad[0], ad[1]), (ad[1], ad[0])):
        z = _neg(mz)
        if z[0] < 0:
            continue
        zad = _addends(z[1])
        if zad is None:
            continue
        for s_, ma in ((zad[0], zad[1]), (zad[1], zad[0])):
            if s_[0] < 0:
                continue
            a = _neg(ma)
            if _sum_is(s_[1], a, b):
                return _unsv(a), _unsv(b), s_[1]
    return None


def match_two_sum_err(t):
    """t = (a - (s - z)) + (b - z), z = s - a, s = a + b  ->  (a, b, s)"""
    ad = _addends(t)
    if ad is None or ad[0][0] < 0 or ad[1][0] < 0:
        return None
    for u, v in ((ad[0][1], ad[1][1]), (ad[1][1], ad[0][1])):
        uad, vad = _addends(u), _addends(v)
        if uad is None or vad is None:
            continue
        # v = b - z
        for b, mz in ((vad[0], vad[1]), (vad[1], vad[0])):
            z = _neg(mz)
            if z[0] < 0:
                continue
            zad = _addends(z[1])
            if zad is None:
                continue
            for s_, ma in ((zad[0], zad[1]), (zad[1], zad[0])):
                if s_[0] < 0:
                    continue
                a = _neg(ma)
                if not _sum_is(s_[1], a, b):
                    continue
                # u = a - (s - z)
                for a2, mw in ((uad[0], uad[1]), (uad[1], uad[0])):
                    w = _neg(mw)
                    if w[0] < 0 or not _same(a2, a):
                        continue
                    wad = _addends(w[1])
                    if wad is not None and ((_same(wad[0], s_) and _same(wad[1], _neg(z))) or (_same(wad[1], s_) and _same(wad[0], _neg(z)))):
                        return _unsv(a), _unsv(b), s_[1]
    return None


def match_dekker_err(t):
    """-> (x, y, product term) or None"""
    if not _is(t, "add", 2):
        return None
    # t = ((A + c1) + c2) + ll  with A = -(x*y) + hh
    for inner, ll in ((t[1], t[2]), (t[2], t[1])):
        if not (_is(inner, "add", 2) and _is(ll, "multiply", 2)):
            continue
        for inner2, c2 in ((inner[1], inner[2]), (inner[2], inner[1])):
            if not (_is(inner2, "add", 2) and _is(c2, "multiply", 2)):
                continue
            for A, c1 in ((inner2[1], inner2[2]), (inner2[2], inner2[1])):
                if not (_is(c1, "multiply", 2) and (_is(A, "add", 2) or _is(A, "subtract", 2))):
                    continue
                if _is(A, "subtract", 2):
                    forms = [(A[2], A[1])]  # hh - p
                else:
                    forms = [(n_[1], h_) for n_, h_ in ((A[1], A[2]), (A[2], A[1])) if _is(n_, "negative", 1)]
                for prod, hh in forms:
                    if not (_is(hh, "multiply", 2) and (_is(prod, "multiply", 2) or _is(prod, "square", 1))):
                        continue
                    x, y = (prod[1], prod[2]) if prod[0] == "multiply" else (prod[1], prod[1])
                    parts = []
                    ok = True
                    for f in (hh, c1, c2, ll):
                        kinds = []
                        for op in (f[1], f[2]):
                            h = match_split_hi(op)
                            l = match_split_lo(op)
                            if h is not None:
                                kinds.append(("h", h[0]))
                            elif l is not None:
                                kinds.append(("l", l[0]))
                            else:
                                ok = False
                        parts.append(tuple(kinds))
                    if not ok:
                        continue
                    want = [(("h", x), ("h", y)), (("h", x), ("l", y)), (("l", x), ("h", y)), (("l", x), ("l", y))]
                    # compare as multisets of unordered factor pairs
                    def norm(ps):
                        return sorted(sorted((k, id(v)) for k, v in p) for p in ps)
                    if norm(parts) == norm(want):
                        return x, y, prod
    return None


def summaries(roots):
    """term -> (kind, payload) for every recognised EFT sub-term reachable from the roots"""
    out = {}
    seen = set()
    stack = [r for r in roots if r is not None]
    while stack:
        t = stack.pop()
        if t in seen or t[0] in ("sym", "const"):
            continue
        seen.add(t)
        m = match_dekker_err(t)
        if m is not None:
            out[t] = ("dekker_err", m)
        else:
            m = match_two_sum_err(t)
            if m is not None:
                out[t] = ("two_sum_err", m)
            else:
                m = match_split_hi(t)
                if m is not None:
                    out[t] = ("split_hi", m)
                else:
                    m = match_split_lo(t)
                    if m is not None:
                        out[t] = ("split_lo", m)
                    else:
                        m = match_fast_two_sum_err(t)
                        if m is not None:
                            out[t] = ("fast_two_sum_err", m)
        stack.extend(a for a in t[1:] if isinstance(a, tuple))
    return out


def needs(spec):
    kind, m = spec
    if kind in ("split_hi", "split_lo"):
        return [m[0], m[1]]
    if kind == "dekker_err":
        return [m[2]]
    return [m[0], m[1], m[2]]


def enclose(spec, val, dom, generic):
    """IV for a recognised term; `val(term)` gives operand values, `generic()` the plain interval evaluation (used where the
    summary's preconditions - no overflow in C*x, finite operands - are not guaranteed on the box)."""
    from .ival import IV, tmin, tmax

    f = dom.fmt
    kind, m = spec
    u = f.ft(2.0 ** -f.p)
    G = generic()
    _val = val

    def val(t_):
        # operands may be written with a folded-in sign (see _sv): a negation that is not a node of the DAG is applied here
        try:
            return _val(t_)
        except KeyError:
            if t_[0] == "negative":
                return dom.neg(val(t_[1]))
            if t_[0] == "const":
                from .ival import _const
                return _const(t_[1], dom)
            raise

    with np.errstate(all="ignore"):
        if kind in ("split_hi", "split_lo"):
            X, Cv = val(m[0]), val(m[1])
            xmax = np.maximum(np.abs(X.lo), np.abs(X.hi))
            cmax = np.maximum(np.abs(Cv.lo), np.abs(Cv.hi))
            safe = ~X.emp & ~X.nan & np.isfinite(xmax) & (xmax.astype(np.float64) * cmax.astype(np.float64) < float(f.largest) / 4) & (Cv.lo == Cv.hi)
            s = np.log2(np.maximum(cmax.astype(np.float64) - 1.0, 1.0))
            w = (xmax.astype(np.float64) * 2.0 ** (s - f.p + 1)).astype(f.ft)
            w = np.nextafter(w, f.inf) + f.tiny
            if kind == "split_hi":
                lo, hi = X.lo - w, X.hi + w
            else:
                lo, hi = -w, w
        elif kind == "dekker_err":
            Pv = val(m[2])
            pmax = np.maximum(np.abs(Pv.lo), np.abs(Pv.hi))
            # the partial products xh*yh ... exceed |x*y| by at most a factor 1 + 2**-(p/2 - 2): no overflow below largest * (1 - 2**-8)
            safe = ~Pv.emp & ~Pv.nan & np.isfinite(pmax) & (pmax < f.largest * f.ft(1 - 2.0 ** -8))
            w = np.nextafter(pmax * u, f.inf) + f.tiny * 4
            lo, hi = -w, w
        else:
            A, B, S = val(m[0]), val(m[1]), val(m[2])
            smax = np.maximum(np.abs(S.lo), np.abs(S.hi))
            amax = np.maximum(np.abs(A.lo), np.abs(A.hi))
            safe = ~S.emp & ~S.nan & ~A.nan & ~B.nan & np.isfinite(smax) & np.isfinite(amax)
            w = smax * u if kind == "two_sum_err" else (smax * 2 + amax) * u
            w = np.nextafter(w, f.inf) + f.tiny
            lo, hi = -w, w
        # the summary is an additional enclosure: intersect it with the generic one where it applies
        nlo = np.where(safe, tmax(G.lo, lo.astype(f.ft)), G.lo)
        nhi = np.where(safe, tmin(G.hi, hi.astype(f.ft)), G.hi)
        bad = nlo > nhi
        nlo, nhi = np.where(bad, G.lo, nlo), np.where(bad, G.hi, nhi)
    return IV(nlo, nhi, np.where(safe, False, G.nan) | (G.nan & ~safe), G.emp)


# --------------------------------------------------------------------------- cascaded compensated sums (sum_2sum)


def _err_of(t):
    """(a, b, s, is_fast) when t is the 2Sum or Fast2Sum error term of s = a + b"""
    m = match_two_sum_err(t)
    if m is not None:
        return m + (False,)
    m = match_fast_two_sum_err(t)
    return None if m is None else m + (True,)


def match_sum_cascade(f):
    """f = S_k + T_k, the renormalising last step of  s, t = 2Sum(i0, i1); for n in rest: s, t1 = 2Sum(s, n); t = t + t1.
    -> (the list of summed items [i0, i1, n_2, ...], whether a Fast2Sum form occurs) or None.  By the 2Sum contracts S_k + T_k == sum(items) up to the roundings of
    the `t + t1` additions, so f == RN(sum(items) + second-order terms)."""
    fad = _addends(f)
    if fad is None or fad[0][0] < 0 or fad[1][0] < 0:
        return None
    for S, T_ in ((fad[0][1], fad[1][1]), (fad[1][1], fad[0][1])):
        items = []
        ok = True
        fast = False
        cur_s, cur_t = S, T_
        for _ in range(64):
            e = _err_of(cur_t)
            if e is not None:
                a, b, s_, fz = e
                fast = fast or fz
                if s_ is not cur_s:
                    ok = False
                    break
                items = [a, b] + items
                break
            tad = _addends(cur_t)
            if tad is None or tad[0][0] < 0 or tad[1][0] < 0:
                ok = False
                break
            found = False
            for t_prev, t1 in ((tad[0][1], tad[1][1]), (tad[1][1], tad[0][1])):
                e = _err_of(t1)
                if e is not None and e[2] is cur_s:
                    a, b, _s, fz = e
                    fast = fast or fz
                    # cur_s = a + b with a the previous partial sum and b the new item (either may come first in the term)
                    prev = None
                    for p_, n_ in ((a, b), (b, a)):
                        if _addends(p_) is not None and not _is(p_, "negative", 1):
                            prev, new = p_, n_
                            break
                    if prev is None:
                        continue
                    items = [new] + items
                    cur_s, cur_t = prev, t_prev
                    found = True
                    break
            if not found:
                ok = False
                break
        else:
            ok = False
        if ok and len(items) >= 3:
            return items, fast
    return None


class _Q:
    """a*t*t + b*t + c with exact rational coefficients"""

    def __init__(self, a=0, b=0, c=0):
        from fractions import Fraction
        self.a, self.b, self.c = Fraction(a), Fraction(b), Fraction(c)

    def __add__(self, o):
        return _Q(self.a + o.a, self.b + o.b, self.c + o.c)

    def scale(self, k):
        return _Q(self.a * k, self.b * k, self.c * k)

    def mul(self, o):
        if self.a or o.a:
            if (self.a and (o.a or o.b)) or (o.a and (self.a or self.b)):
                return None
        return _Q(self.a * o.c + self.b * o.b + self.c * o.a, self.b * o.c + self.c * o.b, self.c * o.c)


def _exact_poly(t, var, consts):
    """the exact real value of a term built from float-exact operations as a polynomial in the box variable (None if not such a term)"""
    from fractions import Fraction
    k = t[0]
    if k == "sym":
        if t[1] == var:
            return _Q(0, 1, 0)
        if t[1] in consts:
            return _Q(0, 0, Fraction(consts[t[1]]))
        return None
    if k == "const":
        cv = t[1]
        if cv[0] == "num":
            return _Q(0, 0, Fraction(float.fromhex(cv[1])))
        if cv[0] == "int":
            return _Q(0, 0, Fraction(int(cv[1])))
        return None
    if k == "negative":
        q = _exact_poly(t[1], var, consts)
        return None if q is None else q.scale(-1)
    if k == "add" and t[1] is t[2]:
        q = _exact_poly(t[1], var, consts)  # x + x is exact (barring overflow)
        return None if q is None else q.scale(2)
    if k == "multiply":
        for c_, x_ in ((t[1], t[2]), (t[2], t[1])):
            if c_[0] == "const" and c_[1][0] == "num":
                v = float.fromhex(c_[1][1])
                if v != 0 and abs(v) == 2.0 ** round(__import__("math").log2(abs(v))):
                    q = _exact_poly(x_, var, consts)  # scaling by a power of two is exact (barring overflow / underflow)
                    return None if q is None else q.scale(Fraction(v))
    return None


def cascade_summary(f, var, consts):
    """-> (quadratic, number of items) when f is a cascaded compensated sum whose items add up to an exact quadratic in `var`"""
    mc = match_sum_cascade(f)
    if mc is None:
        return None
    items, fast = mc
    rest = list(items)
    total = _Q()

    def drop(lst, it):
        for i_, x in enumerate(lst):
            if x is it:
                del lst[i_]
                return True
        return False

    # a pair select(c, A, B), select(c, B, A) (the larger / the smaller of two values) adds up to A + B
    changed = True
    while changed:
        changed = False
        for i_, u in enumerate(rest):
            if not _is(u, "select", 3):
                continue
            for j_, v in enumerate(rest):
                if j_ != i_ and _is(v, "select", 3) and v[1] is u[1] and v[2] is u[3] and v[3] is u[2]:
                    rest = [x for k_, x in enumerate(rest) if k_ not in (i_, j_)] + [u[2], u[3]]
                    changed = True
                    break
            if changed:
                break
    # Dekker pairs (p, e): p + e == x * y exactly
    for e in list(rest):
        m = match_dekker_err(e)
        if m is None:
            continue
        x_, y_, prod = m
        if not any(it is e for it in rest):
            continue
        if not any(it is prod for it in rest):
            return None
        qx, qy = _exact_poly(x_, var, consts), _exact_poly(y_, var, consts)
        if qx is None or qy is None:
            return None
        q = qx.mul(qy)
        if q is None:
            return None
        total = total + q
        drop(rest, e)
        drop(rest, prod)
    for it in rest:
        q = _exact_poly(it, var, consts)
        if q is None:
            return None
        total = total + q
    # Fast2Sum is error-free only under |a| >= |b| (or equal exponents), which is a precondition of its use and not established
    # here: with it in the cascade the claim is first order only (every partial sum is still the correctly rounded sum)
    return total, (len(items) if not fast else -len(items))


def enclose_cascade(q, nitems, V, dom, G):
    """enclosure of RN(q(t) + second-order terms) for t in the box V, intersected with the generic enclosure G"""
    from .ival import IV, tmin, tmax
    LD = np.longdouble
    f = dom.fmt
    first_order = nitems < 0
    nitems = abs(nitems)
    a, b, c = LD(float(q.a)), LD(float(q.b)), LD(float(q.c))
    exact_coeffs = all(float(v) == v for v in (q.a, q.b, q.c))
    lo, hi = V.lo.astype(LD), V.hi.astype(LD)
    with np.errstate(all="ignore"):
        def _split(x_):
            k_ = LD(2.0 ** 32 + 1) * x_
            h_ = k_ - (k_ - x_)
            return h_, x_ - h_

        def _tp(x_, y_):
            p_ = x_ * y_
            xh, xl = _split(x_)
            yh, yl = _split(y_)
            return p_, ((xh * yh - p_) + xh * yl + xl * yh) + xl * yl

        def _ts(x_, y_):
            s_ = x_ + y_
            z_ = s_ - x_
            return s_, (x_ - (s_ - z_)) + (y_ - z_)

        def g(t):
            # c + t * (b + a * t) in double-long-double arithmetic (the value may be 2**-100 of the terms next to a double root)
            ph, pl = _tp(a + 0 * t, t)
            qh, ql = _ts(b + 0 * t, ph)
            ql = ql + pl
            rh, rl = _tp(t, qh)
            rl = rl + t * ql
            sh, sl = _ts(c + 0 * t, rh)
            return sh + (sl + rl)
        cands = [g(lo), g(hi)]
        if q.a != 0:
            tv = -b / (2 * a)
            inside = (tv > lo) & (tv < hi)
            gv = g(tv)
            cands.append(np.where(inside, gv, cands[0]))
        gmin = np.minimum.reduce(cands)
        gmax = np.maximum.reduce(cands)
        tmaxabs = np.maximum(np.abs(lo), np.abs(hi))
        mag = np.abs(c) + np.abs(b) * tmaxabs + np.abs(a) * tmaxabs * tmaxabs
        u = LD(2.0) ** -f.p
        # long-double evaluation error of g, the final rounding and the 2Sum remainder, the roundings of the error accumulations
        slack = (mag * u * nitems if first_order else LD(0)) + mag * LD(2.0) ** -110 + np.maximum(np.abs(gmin), np.abs(gmax)) * u * 2 + mag * u * u * (4 * nitems) + LD(float(f.tiny)) * 8
        elo, ehi = (gmin - slack), (gmax + slack)
        safe = exact_coeffs & np.isfinite(tmaxabs) & (mag < LD(float(f.largest)) / 4) & ~V.emp & ~V.nan
        flo = np.nextafter(elo.astype(f.ft), -f.inf)
        fhi = np.nextafter(ehi.astype(f.ft), f.inf)
        nlo = np.where(safe, tmax(G.lo, flo), G.lo)
        nhi = np.where(safe, tmin(G.hi, fhi), G.hi)
        bad = nlo > nhi
        nlo, nhi = np.where(bad, G.lo, nlo), np.where(bad, G.hi, nhi)
    return IV(nlo, nhi, np.where(safe, False, G.nan), G.emp)
