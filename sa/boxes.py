"""Level-synchronous adaptive box refinement over the float lattice (D input symbols).

Boxes are products of closed ordinal ranges (sa.ival.Fmt.to_ord).  A `judge(lo, hi)` callback
evaluates all boxes of a level at once (vectorised) and returns three masks: proved, refuted and,
for boxes that are points, `unknown` is derived (a point that is neither proved nor refuted).  Boxes
that are neither proved nor refuted are bisected along their widest dimension.  The whole input
space is covered by construction: the initial boxes partition it and bisection preserves the
partition, so "every box proved" is a statement about every input tuple.
"""

from __future__ import annotations

import numpy as np


class Budget(Exception):
    pass


class Outcome:
    def __init__(self):
        self.levels = 0
        self.evaluated = 0
        self.proved = 0
        self.proved_points = 0
        self.refuted = []   # list of (lo_ord tuple, hi_ord tuple, info)
        self.unknown = []   # point boxes neither proved nor refuted
        self.max_level_size = 0
        self.region_refuted = {}  # region name -> [count, first example]: refuted boxes inside a named region (tallied, not capped)


def probe_points(l, h):
    """Witness candidates inside open boxes: all corners, and for two or more dimensions the points where two
    coordinates are equal or opposite (conditions such as x == y hold only on such measure-zero sets, which
    bisection alone never isolates)."""
    n, d = l.shape
    pts = []
    for mask in range(1 << d):
        pts.append(np.where([(mask >> k) & 1 for k in range(d)], h, l))
    for i in range(d):
        for j in range(d):
            if i == j:
                continue
            for src in (l, h):
                v = src[:, i]
                for w in (v, -v - 1):
                    ok = (w >= l[:, j]) & (w <= h[:, j])
                    p = l.copy()
                    p[:, i] = v
                    p[:, j] = np.where(ok, w, l[:, j])
                    pts.append(p)
    return pts


def refine(lo, hi, judge, max_boxes=6_000_000, chunk=400_000, max_refuted=20, probe_limit=300_000, region=None, probe_dims=2):
    """lo, hi: int64 arrays [N, D] of ordinals (inclusive).  judge(lo, hi) -> (proved, refuted, describe(i) -> str[, split dimension per box])."""
    out = Outcome()
    lo = np.asarray(lo, dtype=np.int64)
    hi = np.asarray(hi, dtype=np.int64)
    while len(lo):
        out.levels += 1
        out.max_level_size = max(out.max_level_size, len(lo))
        nlo, nhi = [], []
        for s in range(0, len(lo), chunk):
            l, h = lo[s:s + chunk], hi[s:s + chunk]
            res = judge(l, h)
            proved, refuted, describe = res[:3]
            hint = res[3] if len(res) > 3 else None
            out.evaluated += len(l)
            point = (l == h).all(axis=1)
            out.proved += int(proved.sum())
            out.proved_points += int((proved & point).sum())
            if refuted.any():
                for i in np.nonzero(refuted)[0]:
                    lo_i, hi_i = tuple(int(v) for v in l[i]), tuple(int(v) for v in h[i])
                    rg = region(lo_i, hi_i) if region is not None else None
                    if rg:
                        ent = out.region_refuted.setdefault(rg, [0, describe(i) if describe else ""])
                        ent[0] += 1
                        continue
                    if len(out.refuted) < max_refuted:
                        out.refuted.append((lo_i, hi_i, describe(i) if describe else ""))
            open_ = ~proved & ~refuted
            unk = open_ & point
            if unk.any():
                for i in np.nonzero(unk)[0][: max_refuted - len(out.unknown)]:
                    out.unknown.append((tuple(int(v) for v in l[i]), tuple(int(v) for v in h[i]), describe(i) if describe else ""))
            todo = open_ & ~point
            if todo.any():
                l, h = l[todo], h[todo]
                if l.shape[1] >= probe_dims and len(l) <= probe_limit and out.levels % 4 == 0:
                    for p in probe_points(l, h):
                        _, ref_p, desc_p = judge(p, p)[:3]
                        out.evaluated += len(p)
                        for i in np.nonzero(ref_p)[0][: max(0, max_refuted - len(out.refuted))]:
                            out.refuted.append((tuple(int(v) for v in p[i]), tuple(int(v) for v in p[i]), desc_p(i)))
                        if len(out.refuted) >= max_refuted:
                            break
                w = h - l
                if hint is not None:
                    d = np.where(w[np.arange(len(l)), hint[todo]] > 0, hint[todo], np.argmax(w, axis=1))
                else:
                    d = np.argmax(w, axis=1)
                rows = np.arange(len(l))
                mid = l[rows, d] + (w[rows, d] // 2)
                h1 = h.copy()
                h1[rows, d] = mid
                l2 = l.copy()
                l2[rows, d] = mid + 1
                nlo += [l, l2]
                nhi += [h1, h]
        if len(out.refuted) >= max_refuted:
            break
        if nlo:
            lo, hi = np.concatenate(nlo), np.concatenate(nhi)
        else:
            lo = hi = np.zeros((0, lo.shape[1]), dtype=np.int64)
        if out.evaluated + len(lo) > max_boxes:
            e = Budget(f"box budget exceeded: {out.evaluated} evaluated, {len(lo)} pending at level {out.levels}")
            e.pending = (lo, hi)
            e.outcome = out
            raise e
    return out
