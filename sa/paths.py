"""Structured control-flow path enumeration for small Python functions.

The standard library has no CFG.  The functions the rules look at (make_ref,
_register_reference, PrinterBase.tostring, __enter__/__exit__, real_samples, the polynomial
evaluators ...) are structured code without goto-like constructs, so a syntax-directed
enumeration of acyclic paths decides ordering / must-pass-through / dominance questions
exactly on the statement level:

  * `if` forks into a (test, True) and a (test, False) event; tests that are compile-time
    constants (`if 0:`, `elif 1:`) are pruned;
  * `for`/`while` bodies are taken 0, 1 (and optionally 2) times;
  * `try/finally`: the finally block is appended to every path, including those leaving by
    return/raise; `except` handlers are entered after every statement prefix of the body;
  * `assert` is recorded as an event and assumed to hold; `raise` ends a path.

A path is (events, exit) with exit in {'return','raise','fall'} and the exit node.
"""

from __future__ import annotations

import ast

from .core import AnalysisError
from .consteval import ev as const_ev, Opaque, NameRef


class Event:
    __slots__ = ("kind", "node", "pol")

    def __init__(self, kind, node, pol=None):
        self.kind = kind  # stmt | test | iter | assert | with | def
        self.node = node
        self.pol = pol

    def __repr__(self):
        try:
            s = ast.unparse(self.node).split("\n")[0][:70]
        except Exception:
            s = "?"
        return f"<{self.kind}{'' if self.pol is None else ':' + str(self.pol)} {s}>"


class Path:
    __slots__ = ("events", "exit", "exit_node")

    def __init__(self, events, exit, exit_node):
        self.events = events
        self.exit = exit
        self.exit_node = exit_node

    def describe(self):
        conds = [
            ("" if e.pol else "not ") + ast.unparse(e.node)[:60] for e in self.events if e.kind == "test"
        ]
        ex = self.exit
        if self.exit_node is not None:
            ex += f"@{getattr(self.exit_node, 'lineno', '?')}"
        return f"[{' & '.join(conds) or 'true'}] -> {ex}"


def _const_test(test):
    v = const_ev(test)
    if isinstance(v, (Opaque, NameRef)):
        return None
    if isinstance(v, (bool, int, float, str, type(None))):
        return bool(v)
    return None


class Enumerator:
    def __init__(self, unroll=(0, 1), limit=200000, prune=None, cut=None):
        self.unroll = unroll
        self.limit = limit
        self.count = 0
        self.prune = prune  # optional callable(test_node) -> True/False/None
        self.cut = cut  # optional callable(test_node) -> bool: paths through such a test are not enumerated

    def paths(self, func):
        res = []
        for evs, ex, node in self._block(func.body, ()):
            if ex in ("break", "continue"):
                raise AnalysisError(f"stray {ex} in {func.name}")
            res.append(Path(list(evs), ex, node))
        return res

    # returns iterable of (events_tuple, exit, exit_node); exit 'fall' continues
    def _block(self, stmts, prefix):
        if not stmts:
            yield prefix, "fall", None
            return
        first, rest = stmts[0], stmts[1:]
        for evs, ex, node in self._stmt(first, prefix):
            if ex == "fall":
                yield from self._block(rest, evs)
            else:
                self._tick()
                yield evs, ex, node

    def _tick(self):
        self.count += 1
        if self.count > self.limit:
            raise AnalysisError("path enumeration limit exceeded")

    def _test(self, test):
        c = _const_test(test)
        if c is None and self.prune is not None:
            c = self.prune(test)
        return c

    def _stmt(self, st, prefix):
        E = Event
        if isinstance(st, (ast.Expr, ast.Assign, ast.AugAssign, ast.AnnAssign, ast.Pass, ast.Import, ast.ImportFrom,
                           ast.Global, ast.Nonlocal, ast.Delete)):
            yield prefix + (E("stmt", st),), "fall", None
        elif isinstance(st, (ast.FunctionDef, ast.ClassDef, ast.AsyncFunctionDef)):
            yield prefix + (E("def", st),), "fall", None
        elif isinstance(st, ast.Return):
            yield prefix + (E("stmt", st),), "return", st
        elif isinstance(st, ast.Raise):
            yield prefix + (E("stmt", st),), "raise", st
        elif isinstance(st, ast.Assert):
            c = _const_test(st.test)
            if c is False:
                # `assert 0  # unreachable`
                yield prefix + (E("assert", st),), "raise", st
            else:
                yield prefix + (E("assert", st),), "fall", None
        elif isinstance(st, ast.Break):
            yield prefix, "break", st
        elif isinstance(st, ast.Continue):
            yield prefix, "continue", st
        elif isinstance(st, ast.If):
            if self.cut is not None and self.cut(st.test):
                return
            c = self._test(st.test)
            if c is not False:
                p = prefix if c is True else prefix + (E("test", st.test, True),)
                yield from self._block(st.body, p)
            if c is not True:
                p = prefix if c is False else prefix + (E("test", st.test, False),)
                yield from self._block(st.orelse, p)
        elif isinstance(st, (ast.For, ast.While, ast.AsyncFor)):
            yield from self._loop(st, prefix)
        elif isinstance(st, (ast.With, ast.AsyncWith)):
            p = prefix + (E("with", st),)
            yield from self._block(st.body, p)
        elif isinstance(st, ast.Try):
            yield from self._try(st, prefix)
        else:
            raise AnalysisError(f"unsupported statement {type(st).__name__} at line {st.lineno}")

    def _loop(self, st, prefix):
        E = Event
        head = E("iter", st.iter) if isinstance(st, (ast.For, ast.AsyncFor)) else E("test", st.test, True)
        is_while = isinstance(st, ast.While)
        if is_while and self.cut is not None and self.cut(st.test):
            return
        c = self._test(st.test) if is_while else None

        def after(evs):
            # loop finished normally -> else clause
            if is_while and c is not True:
                evs = evs + (E("test", st.test, False),)
            yield from self._block(st.orelse, evs)

        def iterate(evs, n):
            if n == 0:
                if not (is_while and c is True):
                    yield from after(evs)
                return
            if is_while and c is False:
                return
            for evs2, ex, node in self._block(st.body, evs + (head,)):
                if ex in ("fall", "continue"):
                    yield from iterate(evs2, n - 1)
                elif ex == "break":
                    yield evs2, "fall", None
                else:
                    yield evs2, ex, node

        for n in self.unroll:
            yield from iterate(prefix, n)

    def _try(self, st, prefix):
        def fin(evs, ex, node):
            if not st.finalbody:
                yield evs, ex, node
                return
            for evs2, ex2, node2 in self._block(st.finalbody, evs):
                if ex2 == "fall":
                    yield evs2, ex, node
                else:
                    yield evs2, ex2, node2

        # normal completion of the body
        for evs, ex, node in self._block(st.body, prefix):
            if ex == "fall":
                for evs2, ex2, node2 in self._block(st.orelse, evs):
                    yield from fin(evs2, ex2, node2)
            else:
                yield from fin(evs, ex, node)
        # exceptional: after each statement prefix of the body
        for k in range(len(st.body)):
            for evs, ex, node in self._block(st.body[:k], prefix):
                if ex != "fall":
                    continue
                evs_exc = evs + (Event("stmt", st.body[k]),)
                if st.handlers:
                    for h in st.handlers:
                        for evs2, ex2, node2 in self._block(h.body, evs_exc):
                            yield from fin(evs2, ex2, node2)
                else:
                    yield from fin(evs_exc, "raise", st.body[k])


def enumerate_paths(func, unroll=(0, 1), limit=200000, prune=None, cut=None):
    return Enumerator(unroll=unroll, limit=limit, prune=prune, cut=cut).paths(func)


# --------------------------------------------------------------------------- small query helpers


def calls_in(node):
    for n in ast.walk(node):
        if isinstance(n, ast.Call):
            yield n


def call_name(call):
    """Dotted name of a call's callee, e.g. 'self.register.set_mxcsr'."""
    return dotted(call.func)


def dotted(n):
    if isinstance(n, ast.Name):
        return n.id
    if isinstance(n, ast.Attribute):
        b = dotted(n.value)
        return (b + "." if b else "?.") + n.attr
    if isinstance(n, ast.Call):
        b = dotted(n.func)
        return (b or "?") + "()"
    if isinstance(n, ast.Subscript):
        b = dotted(n.value)
        return (b or "?") + "[]"
    return None


def event_has_call(e, suffix):
    if e.kind == "def":
        return False
    for c in calls_in(e.node):
        nm = call_name(c) or ""
        if nm == suffix or nm.endswith("." + suffix):
            return True
    return False


def index_of(path, pred, start=0):
    for i in range(start, len(path.events)):
        if pred(path.events[i]):
            return i
    return -1


def constants_on_path(events, subject):
    """Which constant values can `subject` (a dotted name such as 'expr.kind') have on a path?  Evaluates the tests of the subject
    against constants along the path with their polarity: `s == c`, `s != c`, `s in {c, ...}` / `(c, ...)` / `[c, ...]`, `s not in ...`
    and `not (...)` of these.  Returns (pos, neg): pos is the set the subject is confined to (None when no positive test was
    seen), neg the set of excluded values.  Local aliases `k = <subject>` defined earlier on the path are followed.  The spelling
    of the test does not matter: `s == 'a'`, `s in {'a'}` and `not s != 'a'` give the same answer."""
    pos, neg = None, set()
    aliases = {subject}
    for e in events:
        if e.kind == "stmt" and isinstance(e.node, ast.Assign) and len(e.node.targets) == 1 and isinstance(e.node.targets[0], ast.Name):
            if dotted(e.node.value) in aliases:
                aliases.add(e.node.targets[0].id)
            else:
                aliases.discard(e.node.targets[0].id)
            continue
        if e.kind != "test":
            continue
        t, pol = e.node, e.pol
        while isinstance(t, ast.UnaryOp) and isinstance(t.op, ast.Not):
            t, pol = t.operand, not pol
        if not (isinstance(t, ast.Compare) and len(t.ops) == 1):
            continue
        left, right, op = t.left, t.comparators[0], t.ops[0]
        if dotted(left) not in aliases and dotted(right) in aliases and isinstance(op, (ast.Eq, ast.NotEq)):
            left, right = right, left
        if dotted(left) not in aliases:
            continue
        if isinstance(right, (ast.Set, ast.Tuple, ast.List)) and all(isinstance(x, ast.Constant) for x in right.elts) and isinstance(op, (ast.In, ast.NotIn)):
            ks = {x.value for x in right.elts}
        elif isinstance(right, ast.Constant) and isinstance(op, (ast.Eq, ast.NotEq)):
            ks = {right.value}
        else:
            continue
        if isinstance(op, (ast.NotIn, ast.NotEq)):
            pol = not pol
        if pol:
            pos = set(ks) if pos is None else pos & ks
        else:
            neg |= ks
    return pos, neg
