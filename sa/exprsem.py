"""Finite-model semantics of abstract expressions (AExpr) for deciding soundness of extracted rewrite rules.

Values are Python floats / complex / bools.  `Undefined` marks assignments on which the original
expression is outside C04's scope (NaN, division by zero, sqrt of a negative, inf-inf ...).
Casts are modelled on nested grids: a type with b bits holds multiples of GRID[b]; downcast rounds to
the coarser grid (ties to even), upcast is exact.
"""

from __future__ import annotations

import math
import sys

from .absint import AExpr, AType, NPVal, expr_type, Unsupported, rnd


class Undefined(Exception):
    pass


NAMED = {
    "posinf": math.inf, "neginf": -math.inf, "largest": sys.float_info.max, "smallest": sys.float_info.min,
    "smallest_subnormal": 5e-324, "eps": sys.float_info.epsilon, "pi": math.pi,
}
GRID = {64: 0.5, None: 0.5, 32: 1.0, 16: 2.0, 128: 0.25}


def _num(v):
    if isinstance(v, bool):
        return v
    if isinstance(v, complex):
        if math.isnan(v.real) or math.isnan(v.imag):
            raise Undefined()
        return v
    if isinstance(v, float) and math.isnan(v):
        raise Undefined()
    return v


def to_grid(v, bits):
    g = GRID.get(bits)
    if g is None:
        raise Unsupported(f"grid for {bits} bits")
    if isinstance(v, complex):
        return complex(to_grid(v.real, bits), to_grid(v.imag, bits))
    if math.isinf(v):
        return v
    q = v / g
    r = round(q)  # Python rounds ties to even
    return r * g


def evaluate(e, env):
    k = e.kind
    ops = e.operands
    if k == "symbol":
        return env[ops[0]]
    if k == "constant":
        v = ops[0]
        if isinstance(v, AExpr):
            return evaluate(v, env)
        if isinstance(v, str):
            if v in NAMED:
                val = NAMED[v]
                bits = _bits(e)
                if v == "largest" and bits in (16, 32):
                    val = {16: 65504.0, 32: 3.4028234663852886e38}[bits]
                if v == "smallest" and bits in (16, 32):
                    val = {16: 2.0 ** -14, 32: 2.0 ** -126}[bits]
                if v == "smallest_subnormal" and bits in (16, 32):
                    val = {16: 2.0 ** -24, 32: 2.0 ** -149}[bits]
                if v == "eps" and bits in (16, 32):
                    val = {16: 2.0 ** -10, 32: 2.0 ** -23}[bits]
                return rnd(val, bits) if isinstance(val, float) else val
            raise Undefined()
        if isinstance(v, NPVal):
            return _num(v.value)
        return _num(rnd(v, _bits(e)) if isinstance(v, float) else v)
    a = [evaluate(o, env) for o in ops if isinstance(o, AExpr)]
    r = _evaluate_op(e, k, a)
    if isinstance(r, float) and k not in ("upcast",):
        return _num(rnd(r, _bits(e)))
    if isinstance(r, complex):
        return _num(rnd(r, _bits(e)))
    return r


def _bits(e):
    try:
        t = expr_type(e)
    except Unsupported:
        return None
    return t.bits if t.kind in ("float", "complex") else None


def _evaluate_op(e, k, a):
    try:
        if k == "add":
            return _num(a[0] + a[1])
        if k == "subtract":
            return _num(a[0] - a[1])
        if k == "multiply":
            return _num(a[0] * a[1])
        if k == "divide":
            if a[1] == 0:
                raise Undefined()
            return _num(a[0] / a[1])
        if k == "negative":
            return -a[0]
        if k == "positive":
            return +a[0]
        if k == "absolute":
            return abs(a[0])
        if k == "sign":
            return (a[0] > 0) - (a[0] < 0) if not isinstance(a[0], complex) else _undef()
        if k == "sqrt":
            if isinstance(a[0], complex):
                raise Unsupported("complex sqrt")
            if a[0] < 0:
                raise Undefined()
            return math.sqrt(a[0]) if not math.isinf(a[0]) else math.inf
        if k == "square":
            return _num(a[0] * a[0])
        if k == "minimum":
            return min(a[0], a[1])
        if k == "maximum":
            return max(a[0], a[1])
        if k == "lt":
            return a[0] < a[1]
        if k == "le":
            return a[0] <= a[1]
        if k == "gt":
            return a[0] > a[1]
        if k == "ge":
            return a[0] >= a[1]
        if k == "eq":
            return a[0] == a[1]
        if k == "ne":
            return a[0] != a[1]
        if k == "logical_and":
            return bool(a[0]) and bool(a[1])
        if k == "logical_or":
            return bool(a[0]) or bool(a[1])
        if k == "logical_xor":
            return bool(a[0]) != bool(a[1])
        if k == "logical_not":
            return not bool(a[0])
        if k == "select":
            return a[1] if a[0] else a[2]
        if k == "conjugate":
            return a[0].conjugate() if isinstance(a[0], complex) else a[0]
        if k == "real":
            return a[0].real if isinstance(a[0], complex) else a[0]
        if k == "imag":
            return a[0].imag if isinstance(a[0], complex) else 0.0
        if k == "complex":
            return complex(a[0], a[1])
        if k == "upcast":
            return a[0]
        if k == "downcast":
            return rnd(a[0], expr_type(e).bits)
        if k == "log":
            if a[0] <= 0:
                raise Undefined()
            return math.log(a[0])
        if k == "log1p":
            if a[0] <= -1:
                raise Undefined()
            return math.log1p(a[0])
        if k in ("log2", "log10"):
            if a[0] <= 0:
                raise Undefined()
            return getattr(math, k)(a[0])
        if k == "exp":
            return math.exp(a[0])
        if k == "is_finite":
            return math.isfinite(a[0])
        if k == "list":
            return tuple(a)
        if k == "item":
            return a[0][int(a[1])]
    except (OverflowError, ValueError, ZeroDivisionError, TypeError):
        raise Undefined()
    raise Unsupported(f"semantics of kind {k}")


def _undef():
    raise Undefined()


def same_value(x, y):
    if isinstance(x, bool) or isinstance(y, bool):
        return bool(x) == bool(y) and isinstance(x, (bool, int, float)) and isinstance(y, (bool, int, float)) and (isinstance(x, bool) == isinstance(y, bool) or x == y)
    if isinstance(x, tuple) or isinstance(y, tuple):
        return isinstance(x, tuple) and isinstance(y, tuple) and len(x) == len(y) and all(same_value(p, q) for p, q in zip(x, y))
    if isinstance(x, complex) or isinstance(y, complex):
        return complex(x) == complex(y)
    if math.isinf(x) or math.isinf(y):
        return x == y
    return x == y or abs(x - y) <= 1e-12 * max(abs(x), abs(y), 1.0)
