"""Catalogue of proven error-free transformations, written in the same straight-line subset of Python
that sa/kernels.py interprets.  THIS FILE IS NEVER EXECUTED: it is parsed and symbolically interpreted
so that the reference and the repository's kernels are reduced to the same normal form.

Sources
  two_sum        Knuth, TAOCP vol. 2, 4.2.2 Theorem B (Moller 1965): s = RN(x+y), s+t = x+y exactly.
  fast_two_sum   Dekker 1971: same when |x| >= |y| (radix 2).
  veltkamp       Veltkamp 1968 / Dekker 1971; Boldo, "Pitfalls of a full floating-point proof:
                 example on the formal proof of the Veltkamp/Dekker algorithms", IJCAR 2006:
                 with C = 2^s + 1, xh + xl = x exactly, xh fits p-s bits, xl fits s bits.
                 The package also uses C = 2^s (a power of two): then g = C*x is exact and
                 xh = RN(g - RN(g - x)); accepted on the strength of the package's own tests
                 (no citation) -- recorded as an assumption in the evidence.
  dekker_product Dekker 1971 Mul12; Boldo 2006: h = RN(x*y), h + l = x*y exactly (no underflow).
                 The two cross terms xh*yl, xl*yh may be accumulated in either order.
"""


def two_sum(x, y):
    s = x + y
    z = s - x
    t = (x - (s - z)) + (y - z)
    return s, t


def fast_two_sum(x, y):
    s = x + y
    z = s - x
    t = y - z
    return s, t


def two_sum_fix_overflow(ctx, x, y):
    s = x + y
    z = s - x
    t = (x - (s - z)) + (y - z)
    t = ctx.select(abs(z) > ctx.constant("largest", x), 0, t)
    return s, t


def fast_two_sum_fix_overflow(ctx, x, y):
    s = x + y
    z = s - x
    t = y - z
    t = ctx.select(abs(z) > ctx.constant("largest", x), 0, t)
    return s, t


def veltkamp(x, C):
    g = C * x
    d = x - g
    xh = g + d
    xl = x - xh
    return xh, xl


def veltkamp_scaled(ctx, x, C, N, invN, x_max):
    ax = abs(x)
    x_n = ctx.select(ax < 1, x, x * invN)
    g = C * x_n
    d = x_n - g
    gd = g + d
    xh = ctx.select(ax > x_max, ctx.select(x < 0, -x_max, x_max), ctx.select(ax < 1, gd, gd * N))
    xl = x - xh
    return xh, xl


def dekker_product(x, y, xh, xl, yh, yl):
    h = x * y
    t1 = (-h) + xh * yh
    t2 = t1 + xh * yl
    t3 = t2 + xl * yh
    l = t3 + xl * yl
    return h, l


def dekker_product_alt(x, y, xh, xl, yh, yl):
    h = x * y
    t1 = (-h) + xh * yh
    t2 = t1 + xl * yh
    t3 = t2 + xh * yl
    l = t3 + xl * yl
    return h, l


def sum_two_sum(seq):
    if len(seq) == 1:
        return seq[0], 0
    s, t = two_sum(seq[0], seq[1])
    for n in seq[2:]:
        s, t1 = two_sum(s, n)
        t = t + t1
    if len(seq) >= 3:
        s, t = two_sum(s, t)
    return s, t


def sum_fast_two_sum(seq):
    if len(seq) == 1:
        return seq[0], 0
    s, t = fast_two_sum(seq[0], seq[1])
    for n in seq[2:]:
        s, t1 = fast_two_sum(s, n)
        t = t + t1
    if len(seq) >= 3:
        s, t = fast_two_sum(s, t)
    return s, t


def dekker_product_fix_overflow(ctx, x, y, xh, xl, yh, yl):
    # Dekker product with the package's documented fallback: when the product of the high parts overflows
    # (in either direction) the pair degrades to (x*y, 0).
    h = x * y
    t1 = (-h) + xh * yh
    t2 = t1 + xh * yl
    t3 = t2 + xl * yh
    l = t3 + xl * yl
    overflow = abs(xh * yh) > ctx.constant("largest", x)
    h = ctx.select(overflow, x * y, h)
    l = ctx.select(overflow, 0, l)
    return h, l


def dekker_product_fix_overflow_alt(ctx, x, y, xh, xl, yh, yl):
    # same with the two cross terms accumulated in the other order (the exactness proof is symmetric in x and y)
    h = x * y
    t1 = (-h) + xh * yh
    t2 = t1 + xl * yh
    t3 = t2 + xh * yl
    l = t3 + xl * yl
    overflow = abs(xh * yh) > ctx.constant("largest", x)
    h = ctx.select(overflow, x * y, h)
    l = ctx.select(overflow, 0, l)
    return h, l
