"""Hand-authored oracle: which target-language operator / function implements which expression kind.

Entries are *sets of accepted spellings*; matching is done on parsed, reduced templates, never
on text.  Sources: Python `math`/builtins documentation, NumPy ufunc reference, C++ <cmath>,
<complex>, <algorithm>, <limits>; XLA client (xla/client/xla_builder.h, lib/math.h,
lib/constants.h); StableHLO / CHLO op definitions (stablehlo_ops.td, chlo_ops.td).  The XLA and
StableHLO tables cannot be cross-checked offline and are deliberately lenient.
"""

# --------------------------------------------------------------------------- operators
PY_OPS = {
    "+": "add", "-": "subtract", "*": "multiply", "/": "divide", "%": "remainder", "//": "floor_divide", "**": "pow",
    "neg": "negative", "pos": "positive", "not": "logical_not", "~": "bitwise_invert",
    "&": "bitwise_and", "|": "bitwise_or", "^": "bitwise_xor", "<<": "bitwise_left_shift", ">>": "bitwise_right_shift",
    "and": "logical_and", "or": "logical_or",
    "<": "lt", "<=": "le", ">": "gt", ">=": "ge", "==": "eq", "!=": "ne", "select": "select",
}
C_OPS = {
    "+": "add", "-": "subtract", "*": "multiply", "/": "divide", "%": "remainder",
    "neg": "negative", "pos": "positive", "not": "logical_not", "~": "bitwise_invert",
    "&": "bitwise_and", "|": "bitwise_or", "^": "bitwise_xor", "<<": "bitwise_left_shift", ">>": "bitwise_right_shift",
    "&&": "logical_and", "||": "logical_or",
    "<": "lt", "<=": "le", ">": "gt", ">=": "ge", "==": "eq", "!=": "ne", "select": "select",
}

# --------------------------------------------------------------------------- functions: name -> kind
_UNARY_MATH = "acos acosh asin asinh atan atanh cos cosh sin sinh tan tanh exp expm1 log log1p log2 log10 ceil floor sqrt".split()

PY_FUNCS = {f"math.{k}": k for k in _UNARY_MATH}
PY_FUNCS.update({
    "abs": "absolute", "math.fabs": "absolute", "max": "maximum", "min": "minimum", "math.atan2": "atan2",
    "math.copysign": "copysign", "math.trunc": "truncate", "math.isfinite": "is_finite", "math.isinf": "is_inf",
    "math.isnan": "is_nan", "math.hypot": "hypot", "math.pow": "pow", "pow": "pow", "complex": "complex",
    "round": "round", "math.exp2": "exp2", "math.nextafter": "nextafter", "operator.not_": "logical_not",
})

NUMPY_FUNCS = {}
for _k in "cos cosh sin sinh tan tanh exp exp2 expm1 log log1p log2 log10 ceil floor sqrt square hypot copysign sign nextafter".split():
    NUMPY_FUNCS[f"numpy.{_k}"] = _k
NUMPY_FUNCS.update({
    "numpy.abs": "absolute", "numpy.absolute": "absolute", "numpy.fabs": "absolute",
    "numpy.negative": "negative", "numpy.positive": "positive", "numpy.add": "add", "numpy.subtract": "subtract",
    "numpy.multiply": "multiply", "numpy.divide": "divide", "numpy.true_divide": "divide",
    "numpy.remainder": "remainder", "numpy.mod": "remainder", "numpy.floor_divide": "floor_divide",
    "numpy.power": "pow", "numpy.pow": "pow", "numpy.float_power": "pow",
    "numpy.logical_and": "logical_and", "numpy.logical_or": "logical_or", "numpy.logical_xor": "logical_xor",
    "numpy.logical_not": "logical_not", "numpy.invert": "bitwise_invert", "numpy.bitwise_not": "bitwise_invert",
    "numpy.bitwise_invert": "bitwise_invert", "numpy.bitwise_and": "bitwise_and", "numpy.bitwise_or": "bitwise_or",
    "numpy.bitwise_xor": "bitwise_xor", "numpy.left_shift": "bitwise_left_shift", "numpy.bitwise_left_shift": "bitwise_left_shift",
    "numpy.right_shift": "bitwise_right_shift", "numpy.bitwise_right_shift": "bitwise_right_shift",
    "numpy.maximum": "maximum", "numpy.minimum": "minimum", "max": "maximum", "min": "minimum",
    "numpy.arccos": "acos", "numpy.acos": "acos", "numpy.arccosh": "acosh", "numpy.acosh": "acosh",
    "numpy.arcsin": "asin", "numpy.asin": "asin", "numpy.arcsinh": "asinh", "numpy.asinh": "asinh",
    "numpy.arctan": "atan", "numpy.atan": "atan", "numpy.arctanh": "atanh", "numpy.atanh": "atanh",
    "numpy.arctan2": "atan2", "numpy.atan2": "atan2",
    "numpy.trunc": "truncate", "numpy.fix": "truncate", "numpy.conjugate": "conjugate", "numpy.conj": "conjugate",
    "numpy.real": "real", "numpy.imag": "imag", "numpy.where": "select",
    "numpy.less": "lt", "numpy.less_equal": "le", "numpy.greater": "gt", "numpy.greater_equal": "ge",
    "numpy.equal": "eq", "numpy.not_equal": "ne", "numpy.isfinite": "is_finite", "numpy.isinf": "is_inf",
    "numpy.isnan": "is_nan", "numpy.isposinf": "is_posinf", "numpy.isneginf": "is_neginf",
    "numpy.rint": "round", "numpy.round": "round", "make_complex": "complex", "abs": "absolute",
    "numpy.fmax": "fmax", "numpy.fmin": "fmin", "numpy.nanmax": "fmax", "numpy.nanmin": "fmin",
})

CPP_FUNCS = {f"std::{k}": k for k in _UNARY_MATH + ["round", "copysign", "hypot", "atan2", "exp2"]}
CPP_FUNCS.update({
    "std::abs": "absolute", "std::fabs": "absolute", "std::max": "maximum", "std::min": "minimum",
    "std::trunc": "truncate", "std::isfinite": "is_finite", "std::isinf": "is_inf", "std::isnan": "is_nan",
    "std::pow": "pow", "std::fmod": "remainder", "std::conj": "conjugate", "std::real": "real", "std::imag": "imag",
    "std::nextafter": "nextafter", "std::signbit": "signbit",
    # look-alikes with a different meaning: fmax/fmin discard a NaN operand (maximum/minimum propagate the first one) and order the zeros
    "std::fmax": "fmax", "std::fmin": "fmin", "std::fdim": "fdim", "std::remainder": "ieee_remainder",
})

XLA_FUNCS = {
    "Abs": "absolute", "Neg": "negative", "Add": "add", "Sub": "subtract", "Mul": "multiply", "Div": "divide",
    "Rem": "remainder", "Pow": "pow", "And": "logical_and", "Or": "logical_or", "Xor": "logical_xor", "Not": "logical_not",
    "Max": "maximum", "Min": "minimum", "Acos": "acos", "Acosh": "acosh", "Asin": "asin", "Asinh": "asinh",
    "Atan": "atan", "Atanh": "atanh", "Atan2": "atan2", "Cos": "cos", "Cosh": "cosh", "Sin": "sin", "Sinh": "sinh",
    "Tan": "tan", "Tanh": "tanh", "Exp": "exp", "Expm1": "expm1", "Log": "log", "Log1p": "log1p", "Log2": "log2",
    "Log10": "log10", "Ceil": "ceil", "Floor": "floor", "Round": "round", "RoundToEven": "round", "Sign": "sign",
    "Real": "real", "Imag": "imag", "Complex": "complex", "Square": "square", "Sqrt": "sqrt", "Select": "select",
    "Lt": "lt", "Le": "le", "Gt": "gt", "Ge": "ge", "Eq": "eq", "Ne": "ne", "IsFinite": "is_finite", "IsInf": "is_inf",
    "IsPosInf": "is_posinf", "IsNegInf": "is_neginf", "IsNan": "is_nan", "IsNegZero": "is_negzero",
    "NextAfter": "nextafter", "Conj": "conjugate", "ShiftLeft": "bitwise_left_shift",
    "ShiftRightArithmetic": "bitwise_right_shift", "Exp2": "exp2",
}

STABLEHLO_OPS = {
    "StableHLO_AbsOp": "absolute", "StableHLO_NegOp": "negative",
    "StableHLO_PosOp": "positive",  # not in the dialect as far as the spec goes; unverifiable offline, accepted
    "StableHLO_AddOp": "add", "StableHLO_SubtractOp": "subtract", "StableHLO_MulOp": "multiply", "StableHLO_DivOp": "divide",
    "StableHLO_RemOp": "remainder", "StableHLO_PowOp": "pow", "StableHLO_AndOp": "logical_and", "StableHLO_OrOp": "logical_or",
    "StableHLO_XorOp": "logical_xor", "StableHLO_NotOp": "logical_not",
    "StableHLO_ShiftLeftOp": "bitwise_left_shift", "StableHLO_ShiftRightArithmeticOp": "bitwise_right_shift",
    "StableHLO_MaxOp": "maximum", "StableHLO_MinOp": "minimum", "StableHLO_Atan2Op": "atan2",
    "StableHLO_CosineOp": "cos", "StableHLO_SineOp": "sin", "StableHLO_TanOp": "tan", "StableHLO_TanhOp": "tanh",
    "StableHLO_ExpOp": "exp", "StableHLO_Expm1Op": "expm1", "StableHLO_LogOp": "log", "StableHLO_Log1pOp": "log1p",
    "StableHLO_CeilOp": "ceil", "StableHLO_FloorOp": "floor", "StableHLO_RoundOp": "round",
    "StableHLO_RoundNearestEvenOp": "round", "StableHLO_SignOp": "sign", "StableHLO_RealOp": "real",
    "StableHLO_ImagOp": "imag", "StableHLO_ComplexOp": "complex", "StableHLO_SqrtOp": "sqrt",
    "StableHLO_SelectOp": "select", "StableHLO_IsFiniteOp": "is_finite",
    "CHLO_AsinAcosKernelOp": "asin_acos_kernel", "CHLO_AcosOp": "acos", "CHLO_AcoshOp": "acosh", "CHLO_AsinOp": "asin",
    "CHLO_AsinhOp": "asinh", "CHLO_AtanOp": "atan", "CHLO_AtanhOp": "atanh", "CHLO_CoshOp": "cosh", "CHLO_SinhOp": "sinh",
    "CHLO_TanOp": "tan", "CHLO_NextAfterOp": "nextafter", "CHLO_IsInfOp": "is_inf", "CHLO_IsPosInfOp": "is_posinf",
    "CHLO_IsNegInfOp": "is_neginf", "CHLO_ConjOp": "conjugate", "CHLO_SquareOp": "square",
}
STABLEHLO_COMPARE = {"lt", "le", "gt", "ge", "eq", "ne"}

# --------------------------------------------------------------------------- arity of kinds that have no Context constructor
FALLBACK_ARITY = dict(
    nextafter=2, is_inf=1, is_posinf=1, is_neginf=1, is_nan=1, is_negzero=1, round=1, truncate=1, item=2, len=1,
    bitwise_invert=1, bitwise_left_shift=2, bitwise_right_shift=2, dtype_index=1, list=None, exp2=1,
)

COMMUTATIVE = {"add", "multiply", "eq", "ne", "logical_and", "logical_or", "logical_xor", "bitwise_and", "bitwise_or", "bitwise_xor"}
MIRROR = {"lt": "gt", "gt": "lt", "le": "ge", "ge": "le"}

# --------------------------------------------------------------------------- named constants: reduced spelling -> constant name
PY_CONSTS = {
    "sys.float_info.min": "smallest", "sys.float_info.max": "largest", "sys.float_info.epsilon": "eps",
    "math.inf": "posinf", "math.pi": "pi", "math.nan": "nan",
}
NUMPY_FINFO = {"smallest_subnormal": "smallest_subnormal", "smallest_normal": "smallest", "tiny": "smallest", "eps": "eps", "max": "largest"}
NUMPY_CONSTS = {"numpy.inf": "posinf", "numpy.pi": "pi", "numpy.nan": "nan", "numpy.e": "e"}
CPP_LIMITS = {"min": "smallest", "max": "largest", "infinity": "posinf", "epsilon": "eps", "denorm_min": "smallest_subnormal", "quiet_NaN": "nan"}
CPP_MACROS = {"M_PI": "pi", "NAN": "nan", "INFINITY": "posinf", "HUGE_VAL": "posinf"}
STABLEHLO_CONSTS = {
    "StableHLO_ConstantLikeMaxFiniteValue": "largest",
    "StableHLO_ConstantLikeSmallestNormalizedValue": "smallest",
    "StableHLO_ConstantLikePosInfValue": "posinf",
    "StableHLO_ConstantLikeNegInfValue": "neginf",
    'StableHLO_ConstantLike<"M_PI">': "pi",
    "StableHLO_ConstantLikeSmallestFiniteValue": "smallest_subnormal",
}
TYPE_DEPENDENT = {"smallest", "largest", "eps", "smallest_subnormal"}

# --------------------------------------------------------------------------- types
NUMPY_TYPES = {
    "integer8": "numpy.int8", "integer16": "numpy.int16", "integer32": "numpy.int32", "integer64": "numpy.int64",
    "float16": "numpy.float16", "float32": "numpy.float32", "float64": "numpy.float64", "float128": "numpy.float128",
    "complex64": "numpy.complex64", "complex128": "numpy.complex128", "complex256": "numpy.complex256",
    "boolean": {"numpy.bool_", "numpy.bool", "bool"},
    "integer": {"numpy.int64", "int"}, "float": {"numpy.float64", "float"}, "complex": {"numpy.complex128", "complex"},
}
CPP_TYPES = {
    "integer8": {"int8_t", "std::int8_t"}, "integer16": {"int16_t", "std::int16_t"}, "integer32": {"int32_t", "std::int32_t", "int"},
    "integer64": {"int64_t", "std::int64_t", "long"}, "integer": {"int64_t", "std::int64_t", "long", "int"},
    "float32": {"float"}, "float64": {"double"}, "float": {"double"},
    "complex64": {"std::complex<float>"}, "complex128": {"std::complex<double>"}, "complex": {"std::complex<double>"},
    "boolean": {"bool"},
}
PY_TYPES = {"integer": {"int"}, "float": {"float"}, "complex": {"complex"}, "boolean": {"bool"}}
